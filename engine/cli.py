"""./check <ID> [--tier quick|thorough] [--replay FILE]"""
from __future__ import annotations

import argparse
import importlib
import json
import os
import sys
import traceback
from pathlib import Path

ROOT = Path(__file__).resolve().parent.parent


def _porepy_src():
    src = os.environ.get("POREPY_SRC", "/repo/src")
    # Make the working tree (or a scratch copy) the porepy that is imported.
    sys.path.insert(0, src)
    return src


def main(argv=None):
    ap = argparse.ArgumentParser()
    ap.add_argument("pid")
    ap.add_argument("--tier", default=os.environ.get("VERIF_TIER", "quick"), choices=["quick", "thorough"])
    ap.add_argument("--replay", default=None)
    a = ap.parse_args(argv)
    seed = int(os.environ.get("VERIF_SEED", "0") or 0)
    os.environ.setdefault("NUMBA_DISABLE_PERFORMANCE_WARNINGS", "1")
    src = _porepy_src()
    sys.path.insert(0, str(ROOT))
    from engine.report import Report, CheckerError

    try:
        mod = importlib.import_module(f"props.{a.pid}")
    except ModuleNotFoundError as e:
        print(f"CHECKER-ERROR: no check for {a.pid}: {e}")
        return 3
    if a.replay:
        data = json.loads(Path(a.replay).read_text())
        if not hasattr(mod, "replay"):
            print(json.dumps(data, indent=1)[:3000])
            print("no native replay for this property; the file carries the failed obligation and solver output")
            return 0
        bad = mod.replay(data)
        print(("REPRODUCED " if bad else "NOT-REPRODUCED ") + f"property={a.pid} obligation={data.get('obligation')}")
        return 1 if bad else 0
    rep = Report(a.pid, a.tier, seed)
    rep.extra["porepy_src"] = src
    try:
        mod.run(rep)
        return rep.finish()
    except CheckerError as e:
        print(f"CHECKER-ERROR: {a.pid}: {e}")
        return 3
    except Exception:
        traceback.print_exc()
        print(f"CHECKER-ERROR: {a.pid}: unexpected exception in the checker (not a verdict)")
        return 3


if __name__ == "__main__":
    sys.exit(main())
