"""Builtin shadowing and numpy/scipy dispatching shims (DESIGN §2.1).

* `shadow_builtins(modules)` binds proxy-aware `len/isinstance/float/int/range/...` as module globals
  of the given porepy modules (globals are looked up before builtins); restored on exit.
* `numpy_shims()` wraps a fixed list of numpy / scipy.sparse entry points with dispatchers that call the
  original unless an argument is a proxy, in which case the *model* is used.  Every model used is
  recorded in `USED_MODELS` and reported as trusted base.
"""
from __future__ import annotations

import builtins
import contextlib
import types
import typing

import numpy as np
import scipy.sparse as sps
import z3

from . import sym
from .sym import EngineLimit, SymBool, SymInt, SymReal, concrete, is_sym, iterm, rterm

USED_MODELS: set = set()


def _used(name):
    USED_MODELS.add(name)


# --------------------------------------------------------------------------- proxy registry


def _proxy_classes():
    from . import arrays

    return (SymReal, SymInt, SymBool, arrays.SymArray, arrays.SymMat, arrays.IndexSet, arrays.MaskedSel)


def is_proxy(x):
    return isinstance(x, _proxy_classes()) or (
        isinstance(x, np.ndarray) and x.dtype == object and x.size > 0 and any(is_sym(e) for e in x.flat)
    )


def any_proxy(args, kwargs=()):
    for a in args:
        if is_proxy(a):
            return True
        if isinstance(a, (list, tuple)):
            if any(is_proxy(e) or (isinstance(e, (list, tuple)) and any(is_proxy(f) for f in e)) for e in a):
                return True
    for v in (kwargs.values() if isinstance(kwargs, dict) else ()):
        if is_proxy(v):
            return True
    return False


# --------------------------------------------------------------------------- builtins


def _flatten_classes(cls):
    if isinstance(cls, tuple):
        out = []
        for c in cls:
            out.extend(_flatten_classes(c))
        return out
    if isinstance(cls, types.UnionType) or typing.get_origin(cls) is typing.Union:
        out = []
        for c in typing.get_args(cls):
            out.extend(_flatten_classes(c))
        return out
    if cls is sym_float:  # the shadowed names used as classes: isinstance(x, (int, float))
        return [float]
    if cls is sym_int:
        return [int]
    if cls is sym_range:
        return [range]
    return [cls]


def sym_isinstance(obj, cls):
    pret = getattr(type(obj), "_pretend", None)
    flat = tuple(_flatten_classes(cls))
    if pret is None or isinstance(obj, type):
        return builtins.isinstance(obj, flat)
    if builtins.isinstance(obj, flat):
        return True
    for c in flat:
        for p in pret:
            try:
                if issubclass(p, c):
                    return True
            except TypeError:
                pass
    return False


def sym_len(x):
    if hasattr(x, "_sym_len"):
        return x._sym_len()
    return builtins.len(x)


def sym_float(x=0.0):
    if is_sym(x):
        return SymReal(rterm(x))
    if isinstance(x, np.ndarray) and x.dtype == object and x.ndim == 0:
        return sym_float(x.item())
    return builtins.float(x)


def sym_int(x=0, *a):
    if isinstance(x, SymInt):
        return x
    if isinstance(x, SymReal):
        t = z3.simplify(x.t)
        if z3.is_rational_value(t) and t.denominator_as_long() == 1:
            return t.numerator_as_long()
        # int() truncates; model only the exact-integer case used by the repo (sizes): x == ToReal(k)
        c = sym.Ctx.current
        k = c.int("int_of")
        c.assume(SymBool(z3.ToReal(k.t) == x.t))
        c.trace.append(("assumed-exact-int", str(t)))
        return k
    return builtins.int(x, *a)


def sym_range(*a):
    if any(isinstance(v, SymInt) for v in a):
        vals = [concrete(v) if isinstance(v, SymInt) else v for v in a]
        if any(isinstance(v, SymInt) for v in vals):
            from .cutpoint import SymRange

            if len(vals) == 1:
                return SymRange(0, vals[0], 1)
            if len(vals) == 2:
                return SymRange(vals[0], vals[1], 1)
            return SymRange(vals[0], vals[1], vals[2])
        return builtins.range(*vals)
    return builtins.range(*a)


def sym_bool(x=False):
    if isinstance(x, SymBool):
        return x.__bool__()
    return builtins.bool(x)


def sym_abs(x):
    return builtins.abs(x)


def sym_round(x, *a):
    if is_sym(x):
        raise EngineLimit("round() of a symbolic value")
    return builtins.round(x, *a)


SHADOWS = {
    "isinstance": sym_isinstance,
    "len": sym_len,
    "float": sym_float,
    "int": sym_int,
    "range": sym_range,
}


@contextlib.contextmanager
def shadow_builtins(modules, extra=None):
    saved = []
    table = dict(SHADOWS)
    if extra:
        table.update(extra)
    for m in modules:
        for k, v in table.items():
            saved.append((m, k, m.__dict__.get(k, _MISSING)))
            m.__dict__[k] = v
    try:
        yield
    finally:
        for m, k, old in reversed(saved):
            if old is _MISSING:
                m.__dict__.pop(k, None)
            else:
                m.__dict__[k] = old


_MISSING = object()


# --------------------------------------------------------------------------- scalar ufuncs

_UNARY = {
    "absolute": lambda x: abs(x),
    "fabs": lambda x: abs(x),
    "negative": lambda x: -x,
    "positive": lambda x: x,
    "sign": lambda x: _real(x).sign(),
    "sqrt": lambda x: _real(x).sqrt(),
    "exp": lambda x: _real(x).exp(),
    "log": lambda x: _real(x).log(),
    "sin": lambda x: _real(x).sin(),
    "cos": lambda x: _real(x).cos(),
    "tan": lambda x: _real(x).tan(),
    "arcsin": lambda x: _real(x).arcsin(),
    "arccos": lambda x: _real(x).arccos(),
    "arctan": lambda x: _real(x).arctan(),
    "sinh": lambda x: _real(x).sinh(),
    "cosh": lambda x: _real(x).cosh(),
    "tanh": lambda x: _real(x).tanh(),
    "arcsinh": lambda x: _real(x).arcsinh(),
    "arccosh": lambda x: _real(x).arccosh(),
    "arctanh": lambda x: _real(x).arctanh(),
    "square": lambda x: x * x,
    "reciprocal": lambda x: 1 / x,
    "logical_not": lambda x: ~_boolp(x),
    "invert": lambda x: ~_boolp(x),
    "isfinite": lambda x: True,
    "isnan": lambda x: False,
    "conjugate": lambda x: x,
}


def _real(x):
    return x if isinstance(x, SymReal) else SymReal(rterm(x))


def _boolp(x):
    return x if isinstance(x, SymBool) else SymBool(sym._bterm(x))


def _heaviside(x, h0):
    xt = rterm(x)
    return SymReal(z3.If(xt > 0, z3.RealVal(1), z3.If(xt < 0, z3.RealVal(0), rterm(h0))))


def _maximum(a, b):
    at, bt = rterm(a), rterm(b)
    return SymReal(z3.If(at >= bt, at, bt))


def _minimum(a, b):
    at, bt = rterm(a), rterm(b)
    return SymReal(z3.If(at <= bt, at, bt))


_BINARY = {
    "add": lambda a, b: a + b,
    "subtract": lambda a, b: a - b,
    "multiply": lambda a, b: a * b,
    "true_divide": lambda a, b: a / b,
    "divide": lambda a, b: a / b,
    "power": lambda a, b: sym.sym_pow(a, b),
    "float_power": lambda a, b: sym.sym_pow(a, b),
    "greater": lambda a, b: a > b,
    "greater_equal": lambda a, b: a >= b,
    "less": lambda a, b: a < b,
    "less_equal": lambda a, b: a <= b,
    "equal": lambda a, b: a == b,
    "not_equal": lambda a, b: a != b,
    "maximum": _maximum,
    "minimum": _minimum,
    "heaviside": _heaviside,
    "logical_and": lambda a, b: _boolp(a) & _boolp(b),
    "logical_or": lambda a, b: _boolp(a) | _boolp(b),
    "bitwise_and": lambda a, b: _boolp(a) & _boolp(b),
    "bitwise_or": lambda a, b: _boolp(a) | _boolp(b),
    "floor_divide": lambda a, b: a // b,
    "remainder": lambda a, b: a % b,
}


def scalar_op(name):
    if name in _UNARY:
        return _UNARY[name], 1
    if name in _BINARY:
        return _BINARY[name], 2
    raise EngineLimit(f"numpy ufunc {name} has no scalar model")


def scalar_ufunc(ufunc, method, inputs, kwargs):
    """ufunc applied where at least one input is a scalar proxy (and none is a SymArray: those have
    higher priority and handle it themselves)."""
    from . import arrays

    if method != "__call__":
        raise EngineLimit(f"ufunc method {method}")
    for x in inputs:
        if isinstance(x, (arrays.SymArray, arrays.MaskedSel)):
            return arrays.array_ufunc(ufunc, method, inputs, kwargs)
    f, ar = scalar_op(ufunc.__name__)
    # real numpy arrays of concrete shape meeting a symbolic scalar -> object arrays, elementwise
    if any(isinstance(x, np.ndarray) and x.ndim > 0 for x in inputs):
        arrs = [np.asarray(x, dtype=object) if isinstance(x, np.ndarray) else x for x in inputs]
        shape = np.broadcast(*[a if isinstance(a, np.ndarray) else np.empty(()) for a in arrs]).shape
        out = np.empty(shape, dtype=object)
        its = [np.broadcast_to(a, shape) if isinstance(a, np.ndarray) else None for a in arrs]
        for idx in np.ndindex(*shape):
            vals = [it[idx] if it is not None else a for it, a in zip(its, arrs)]
            out[idx] = f(*vals)
        return out
    # numpy scalars are turned into python scalars: np.float64.__mul__(proxy) would re-enter this dispatcher
    vals = [x.item() if isinstance(x, (np.ndarray, np.generic)) else x for x in inputs]
    return f(*vals)


# --------------------------------------------------------------------------- numpy function models


def _isclose(a, b, rtol=1e-05, atol=1e-08, equal_nan=False):
    from . import arrays

    _used("np.isclose: |a-b| <= atol + rtol*|b| over reals")
    if isinstance(a, (arrays.SymArray,)) or isinstance(b, (arrays.SymArray,)):
        return arrays.elementwise(lambda x, y: _isclose(x, y, rtol, atol), a, b, sort="bool")
    if (isinstance(a, np.ndarray) and a.ndim > 0) or (isinstance(b, np.ndarray) and b.ndim > 0):
        f = np.frompyfunc(lambda x, y: _isclose(x, y, rtol, atol), 2, 1)
        return f(a, b)
    at, bt = rterm(a), rterm(b)
    d = at - bt
    ab = z3.If(bt >= 0, bt, -bt)
    return concrete(SymBool(z3.If(d >= 0, d, -d) <= rterm(atol) + rterm(rtol) * ab))


def _allclose(a, b, rtol=1e-05, atol=1e-08, equal_nan=False):
    r = _isclose(a, b, rtol, atol)
    if isinstance(r, np.ndarray):
        out = True
        for e in r.flat:
            out = (out & e) if is_sym(out) or is_sym(e) else (out and e)
        return out
    from . import arrays

    if isinstance(r, arrays.SymArray):
        raise EngineLimit("allclose over a symbolic-length array")
    return r


def _unshadow(x):
    if x is sym_float:
        return float
    if x is sym_int:
        return int
    return x


def _make_shim(mod, name, model):
    orig = getattr(mod, name)
    if isinstance(orig, type):
        # keep it a class so isinstance(x, sps.csr_matrix) in the code under test still works
        class _Meta(type(orig)):
            def __instancecheck__(cls, inst):
                return sym_isinstance(inst, orig)

            def __subclasscheck__(cls, sub):
                return issubclass(sub, orig)

            def __call__(cls, *a, **k):
                if any_proxy(a, k):
                    return model(*a, **k)
                return orig(*a, **k)

        shim = _Meta(orig.__name__, (orig,), {"__module__": orig.__module__})
        return orig, shim

    def shim(*a, **k):
        if any_proxy(a, k):
            return model(*a, **k)
        # the shadowed builtins float/int may arrive here as dtype arguments
        a = tuple(_unshadow(x) for x in a)
        k = {kk: _unshadow(v) for kk, v in k.items()}
        return orig(*a, **k)

    shim.__name__ = name
    shim.__wrapped_orig__ = orig
    return orig, shim


@contextlib.contextmanager
def numpy_shims():
    from . import arrays

    saved = []
    for mod, name, model in arrays.CONSTRUCTOR_MODELS():
        orig, shim = _make_shim(mod, name, model)
        saved.append((mod, name, orig))
        setattr(mod, name, shim)
    try:
        yield
    finally:
        for mod, name, orig in reversed(saved):
            setattr(mod, name, orig)


@contextlib.contextmanager
def patched(obj, name, value):
    old = getattr(obj, name)
    setattr(obj, name, value)
    try:
        yield
    finally:
        setattr(obj, name, old)


@contextlib.contextmanager
def object_zeros():
    """np.zeros / np.ones with a concrete shape and the default (float) dtype return dtype=object arrays holding the
    same numbers, so that code which later writes symbolic entries into them keeps working.  Same values, different
    container dtype; to be used inside numpy_shims() for fixed-shape symbolic runs only."""
    cur_zeros, cur_ones = np.zeros, np.ones

    def zeros(shape, dtype=float, *a, **k):
        r = cur_zeros(shape, dtype, *a, **k)
        if isinstance(r, np.ndarray) and dtype in (float, np.float64, sym_float):
            r = r.astype(object)
        return r

    def ones(shape, dtype=float, *a, **k):
        r = cur_ones(shape, dtype, *a, **k)
        if isinstance(r, np.ndarray) and dtype in (float, np.float64, sym_float):
            r = r.astype(object)
        return r

    np.zeros, np.ones = zeros, ones
    try:
        yield
    finally:
        np.zeros, np.ones = cur_zeros, cur_ones
