"""Glue between path exploration (engine.sym.explore) and the Report."""
from __future__ import annotations

import z3

from . import sym
from .sym import SymBool, explore


def bt(x):
    """z3 Bool term of a proxy / python bool."""
    return x.t if isinstance(x, SymBool) else z3.BoolVal(bool(x))


def implies(a, b):
    return SymBool(z3.Implies(bt(a), bt(b)))


def run_case(rep, label, fn, tier="P", allowed_exceptions=(), max_paths=2000, min_returns=1):
    """Explore fn over all feasible paths, register the aggregated obligations.
    Returns (refuted, limits) where refuted = list of (obligation name, ctx, result-dict)."""
    # Once a number of obligations has been refuted the verdict is settled; further symbolic cases would only slow the
    # run down (counter-model search is much slower than discharging).  The skipped cases are listed in the evidence.
    if getattr(rep, "_refuted_total", 0) >= getattr(rep, "max_refuted_cases", 12):
        rep.fallbacks.append({"case": label, "reason": "skipped: enough obligations already refuted in this run"})
        return [], ["skipped"]
    try:
        paths = explore(fn, max_paths=max_paths)
    except sym.EngineLimit as e:
        rep.fallbacks.append({"case": label, "reason": str(e)})
        rep.note(f"proof not re-established for {label}: {e}")
        return [], [str(e)]
    agg = {}
    limits = []
    nret = 0
    for ctx, outcome in paths:
        rep.paths += 1
        kind = outcome[0]
        if kind == "limit":
            limits.append(outcome[1])
        elif kind == "raise":
            if not isinstance(outcome[1], tuple(allowed_exceptions)):
                import traceback

                tb = "".join(traceback.format_exception(outcome[1])[-3:])
                limits.append(f"unexpected {type(outcome[1]).__name__}: {outcome[1]} :: {tb[-400:]}")
            else:
                nret += 1
        elif kind == "return":
            nret += 1
        for r in ctx.results:
            a = agg.setdefault(r["name"], {"n": 0, "bad": [], "und": 0, "s": 0.0, "backend": set(), "canary": r["canary"]})
            a["n"] += 1
            a["s"] += r["s"]
            a["backend"].add(r["backend"])
            if r["status"] == "refuted":
                a["bad"].append((ctx, r))
            elif r["status"] == "undecided":
                a["und"] += 1
    if limits:
        rep.fallbacks.append({"case": label, "reason": limits[:3]})
        rep._refuted_total = getattr(rep, "_refuted_total", 0) + 1  # counts towards the cap: the sweep decides from here on
        if rep._refuted_total <= 12:
            rep.note(f"proof not re-established for {label}: {limits[0][:300]}")
        return [], limits
    if nret < min_returns:
        raise Exception(f"{label}: contract vacuous (no path reached the postcondition)")
    refuted = []
    any_real_refuted = any(a["bad"] for a in agg.values() if not a["canary"])
    for name, a in sorted(agg.items()):
        if a["canary"]:
            # A canary (deliberately wrong clause) that is *not* refuted means the pipeline proves anything
            # (vacuous path condition) -- unless real clauses of the same case are refuted, in which case the
            # code under test has simply changed into what the canary says and the violation is reported below.
            if a["bad"] or a["und"] or not any_real_refuted:
                # 'undecided' is acceptable for a canary: the point is that it is not *discharged*
                rep.canary(f"{label}: {name}", bool(a["bad"]) or a["und"] > 0)
            else:
                rep.canaries_total += 1
            continue
        res = "refuted" if a["bad"] else ("undecided" if a["und"] else "discharged")
        rep.obligation(f"{label}: {name} [{a['n']} path(s)]", res, tier, "+".join(sorted(a["backend"])), a["s"])
        if a["bad"]:
            refuted.append((f"{label}: {name}", a["bad"][0][0], a["bad"][0][1]))
    if refuted:
        rep._refuted_total = getattr(rep, "_refuted_total", 0) + 1
    return refuted, []
