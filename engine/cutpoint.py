"""Loop cut-points (DESIGN §2.2).

`rewrite_loop(func, ordinal, hooks)` re-reads the source of the real function (inspect.getsource, every run),
rewrites exactly the `ordinal`-th `for` loop of its AST into cut-point form and compiles the result in the
function's own globals.  Everything else in the function is unchanged.  The rewritten loop

    for TARGET in ITER:          __cp_r = ITER
        BODY              ==>    __cp.enter(__cp_r)                      # invariant holds on entry
                                 if __cp.fork(__cp_r):                   # an arbitrary iteration
                                     TARGET = __cp.begin(__cp_r)         #   havoc, assume Inv(i) and i in range
                                     BODY
                                     __cp.end(__cp_r, TARGET)            #   prove Inv(next i); path stops
                                 else:
                                     __cp.exit(__cp_r)                   # havoc, assume Inv(exit index)

`hooks` supplies  havoc(ctx)  (replace the state the body assigns by fresh symbols) and
inv(ctx, i, r) -> list[(name, SymBool)].  Only `range(start, stop, +-1)` iterables are supported
(SymRange); `break`/`continue`/`else` in the rewritten loop are rejected.  Termination is not proved.
"""
from __future__ import annotations

import ast
import inspect
import textwrap

import z3

from . import sym
from .sym import EngineLimit, PathStop, SymBool, SymInt, iterm


class SymRange:
    _pretend = (range,)

    def __init__(self, start, stop, step):
        self.start, self.stop, self.step = start, stop, step
        if not (isinstance(step, int) and step in (1, -1)):
            raise EngineLimit("symbolic range with a step other than +-1")

    def __iter__(self):
        raise EngineLimit("iteration over a symbolic range outside a cut-point loop")

    def __len__(self):
        raise EngineLimit("len of a symbolic range")

    def first(self):
        return self.start

    def in_range(self, i):
        s, e = iterm(self.start), iterm(self.stop)
        it = iterm(i)
        return SymBool(z3.And(it >= s, it < e) if self.step == 1 else z3.And(it <= s, it > e))

    def exit_index(self):
        """value the loop variable would take after the last iteration (== start for an empty range)"""
        s, e = iterm(self.start), iterm(self.stop)
        if self.step == 1:
            return SymInt(z3.If(s < e, e, s))
        return SymInt(z3.If(s > e, e, s))


class CutPoint:
    def __init__(self, hooks, label):
        self.hooks = hooks
        self.label = label

    def _ctx(self):
        c = sym.Ctx.current
        if c is None:
            raise EngineLimit("cut-point loop outside a path context")
        return c

    def _as_range(self, r):
        if isinstance(r, SymRange):
            return r
        if isinstance(r, range) and r.step in (1, -1):
            return SymRange(r.start, r.stop, r.step)
        from .arrays import I0, SymArray

        if hasattr(r, "_sym_item") and hasattr(r, "_sym_len"):
            # a sequence of symbolic length: iterate its index range, the loop target is the item
            rr = SymRange(0, r._sym_len(), 1)
            rr.seq = r
            return rr
        if isinstance(r, SymArray) and r.sort == "int":
            # np.arange(n) / np.arange(a, b): elem(i) = i + c
            c = z3.simplify(r._elem(I0) - I0)
            if z3.is_int_value(c):
                return SymRange(c.as_long(), r.n + c.as_long(), 1)
        raise EngineLimit(f"cut-point loop over {type(r).__name__} (only range with step +-1)")

    def enter(self, r):
        r = self._as_range(r)
        c = self._ctx()
        for name, cond in self.hooks.inv(c, r.first(), r):
            c.prove(f"{self.label}: invariant holds on loop entry: {name}", cond)

    def fork(self, r):
        c = self._ctx()
        b = c.bool("cp_iteration")
        return bool(b)

    def begin(self, r):
        r = self._as_range(r)
        c = self._ctx()
        self.hooks.havoc(c)
        i = c.int("cp_i")
        c.assume(r.in_range(i))
        for name, cond in self.hooks.inv(c, i, r):
            c.assume(cond)
        self._cur = i
        seq = getattr(r, "seq", None)
        return seq._sym_item(i) if seq is not None else i

    def end(self, r, i):
        r = self._as_range(r)
        c = self._ctx()
        nxt = self._cur + r.step
        for name, cond in self.hooks.inv(c, nxt, r):
            c.prove(f"{self.label}: invariant preserved by the loop body: {name}", cond)
        raise PathStop("cut-point: end of arbitrary iteration")

    def exit(self, r):
        r = self._as_range(r)
        c = self._ctx()
        self.hooks.havoc(c)
        for name, cond in self.hooks.inv(c, r.exit_index(), r):
            c.assume(cond)


def rewrite_loop(func, ordinal, hooks, label=None):
    """Returns a new function object: `func` with its `ordinal`-th for-loop (source order, 0-based) in
    cut-point form.  Also returns a description of what was rewritten (for the evidence)."""
    src = textwrap.dedent(inspect.getsource(func))
    tree = ast.parse(src)
    fdef = tree.body[0]
    if not isinstance(fdef, (ast.FunctionDef,)):
        raise EngineLimit("cut-point rewriting expects a plain function")
    fdef.decorator_list = []
    loops = [n for n in ast.walk(fdef) if isinstance(n, ast.For)]
    loops.sort(key=lambda n: (n.lineno, n.col_offset))
    if ordinal >= len(loops):
        raise EngineLimit(f"{func.__name__} has no for-loop number {ordinal}")
    target = loops[ordinal]
    for n in ast.walk(target):
        if isinstance(n, (ast.Break, ast.Continue)):
            raise EngineLimit("break/continue inside a cut-point loop")
    if target.orelse:
        raise EngineLimit("for-else in a cut-point loop")
    if not isinstance(target.target, ast.Name):
        raise EngineLimit("cut-point loop with a tuple target")

    def call(meth, *args):
        return ast.Call(func=ast.Attribute(value=ast.Name(id="__cp", ctx=ast.Load()), attr=meth, ctx=ast.Load()), args=list(args), keywords=[])

    rname = ast.Name(id="__cp_r", ctx=ast.Load())
    new = [
        ast.Assign(targets=[ast.Name(id="__cp_r", ctx=ast.Store())], value=target.iter),
        ast.Expr(value=call("enter", rname)),
        ast.If(
            test=call("fork", rname),
            body=[ast.Assign(targets=[target.target], value=call("begin", rname))] + target.body
            + [ast.Expr(value=call("end", rname, ast.Name(id=target.target.id, ctx=ast.Load())))],
            orelse=[ast.Expr(value=call("exit", rname))],
        ),
    ]
    if not isinstance(target.target, ast.Name):
        raise EngineLimit("cut-point loop with a tuple target")

    class Repl(ast.NodeTransformer):
        def visit_For(self, node):
            if node is target:
                return new
            return self.generic_visit(node)

    tree = Repl().visit(tree)
    ast.fix_missing_locations(tree)
    code = compile(tree, filename=f"<cutpoint:{func.__module__}.{func.__qualname__}>", mode="exec")
    g = func.__globals__
    cp = CutPoint(hooks, label or func.__qualname__)
    ns = {}
    # run the def in the function's own globals (so shadowed builtins and module names resolve as in the original)
    saved = g.get("__cp", _MISSING)
    g["__cp"] = cp
    exec(code, g, ns)
    newf = ns[fdef.name]
    desc = f"{func.__module__}.{func.__qualname__}: for-loop #{ordinal} at line {target.lineno} (`for {ast.unparse(target.target)} in {ast.unparse(target.iter)}`) rewritten to cut-point form; nothing dropped"
    return newf, desc, (g, saved)


def restore(token):
    g, saved = token
    if saved is _MISSING:
        g.pop("__cp", None)
    else:
        g["__cp"] = saved


_MISSING = object()
