"""Array / sparse-matrix proxies with *symbolic* sizes (DESIGN §2.1).

SymArray : 1-D ndarray stand-in, length = int or SymInt, element function i -> z3 term.
MaskedSel: result of a[mask] (boolean mask or the IndexSet of mask.nonzero()).
SymMat   : scipy.sparse stand-in, shape symbolic, entry function (i, j) -> z3 term; diagonal
           matrices keep their diagonal so products with them stay entrywise; other products are
           abstract (uninterpreted, keyed structurally -> equal arguments give the equal product).
"""
from __future__ import annotations

import numpy as np
import scipy.sparse as sps
import z3

from . import sym
from .sym import EngineLimit, SymBool, SymInt, SymReal, concrete, is_sym, iterm, rterm, wrap

_NP_ARRAY = np.array  # the unshimmed constructor (models must not re-enter the shim)

I0 = z3.Int("__I")
J0 = z3.Int("__J")


def _norm_dtype(dt):
    n = getattr(dt, "__name__", None)
    if n == "sym_float":
        return float
    if n == "sym_int":
        return int
    return dt


def _lenterm(n):
    return iterm(n)


def _same_len(a, b, what="elementwise operands"):
    ta, tb = z3.simplify(_lenterm(a)), z3.simplify(_lenterm(b))
    if ta.eq(tb):
        return
    c = sym.Ctx.current
    if c is None:
        raise EngineLimit("length comparison outside a context")
    st = c.prove(f"numpy-shape: {what} have equal length", SymBool(ta == tb))
    if st != "discharged":
        raise EngineLimit(f"operands of possibly different length ({ta} vs {tb}); numpy would raise or broadcast")


def _coerce_sort(t, sort):
    if sort == "real":
        if isinstance(t, z3.BoolRef):
            return z3.If(t, z3.RealVal(1), z3.RealVal(0))
        return z3.ToReal(t) if t.is_int() else t
    return t


def _term_of(x, sort):
    if sort == "real":
        return rterm(x)
    if sort == "int":
        return iterm(x)
    return sym._bterm(x)


def _sort_of_term(t):
    if isinstance(t, z3.BoolRef):
        return "bool"
    return "int" if t.is_int() else "real"


class SymArray:
    _pretend = (np.ndarray,)
    __array_priority__ = 2000
    ndim = 1

    def __init__(self, n, elem, sort="real", name=None):
        self.n = concrete(n) if isinstance(n, SymInt) else n
        self._elem = elem
        self.sort = sort
        self.name = name

    # -- construction helpers
    @staticmethod
    def fresh(name, n, sort="real"):
        zs = {"real": z3.RealSort(), "int": z3.IntSort(), "bool": z3.BoolSort()}[sort]
        c = sym.Ctx.current
        nm = c.fresh_name(name) if c else name
        f = z3.Function(nm, z3.IntSort(), zs)
        return SymArray(n, lambda i: f(i), sort, name=nm)

    @staticmethod
    def const(n, value, sort="real"):
        t = _term_of(value, sort)
        return SymArray(n, lambda i: t, sort)

    @staticmethod
    def from_concrete(arr):
        arr = np.asarray(arr)
        if arr.ndim != 1:
            raise EngineLimit("only 1-D concrete arrays convert to SymArray")
        if arr.dtype == object:
            items = list(arr)
            sort = "real"
        else:
            items = arr.tolist()
            sort = "bool" if arr.dtype == bool else ("int" if np.issubdtype(arr.dtype, np.integer) else "real")
        terms = [_term_of(v, sort) for v in items]

        def elem(i):
            if not terms:
                return _term_of(0, sort)
            r = terms[-1]
            for k in range(len(terms) - 2, -1, -1):
                r = z3.If(i == k, terms[k], r)
            return r

        return SymArray(len(terms), elem, sort)

    # -- basic attributes
    @property
    def size(self):
        return self.n

    @property
    def shape(self):
        return (self.n,)

    @property
    def dtype(self):
        return np.dtype({"real": float, "int": np.int64, "bool": bool}[self.sort])

    def _sym_len(self):
        return self.n

    def __len__(self):
        if isinstance(self.n, int):
            return self.n
        raise EngineLimit("len() of a symbolic-length array through the builtin (module not shadowed)")

    def elem(self, i):
        return self._elem(iterm(i))

    def at(self, i):
        return concrete(wrap(self.elem(i))) if self.sort != "real" else SymReal(self.elem(i))

    def key(self):
        return (z3.simplify(_lenterm(self.n)).sexpr(), z3.simplify(self._elem(I0)).sexpr())

    def copy(self, *a, **k):
        return SymArray(self.n, self._elem, self.sort)

    def astype(self, dt, *a, **k):
        dt = _norm_dtype(dt)
        if dt in (float, np.float64, "float", np.floating):
            f = self._elem
            return SymArray(self.n, lambda i: _coerce_sort(f(i), "real"), "real")
        if dt in (bool, np.bool_):
            if self.sort == "bool":
                return self.copy()
            f = self._elem
            return SymArray(self.n, lambda i: f(i) != 0, "bool")
        if dt in (int, np.int64, np.int32, "int"):
            if self.sort == "int":
                return self.copy()
            if self.sort == "bool":
                f = self._elem
                return SymArray(self.n, lambda i: z3.If(f(i), z3.IntVal(1), z3.IntVal(0)), "int")
        raise EngineLimit(f"astype({dt}) on a {self.sort} SymArray")

    def ravel(self, *a, **k):
        return self

    def squeeze(self, *a, **k):
        if isinstance(self.n, int) and self.n == 1:
            raise EngineLimit("squeeze of a length-1 array")
        return self

    def flatten(self, *a, **k):
        return self.copy()

    def __iter__(self):
        if isinstance(self.n, int):
            return iter([self.at(k) for k in range(self.n)])
        raise EngineLimit("iteration over a symbolic-length array (needs a loop cut-point)")

    def __repr__(self):
        return f"SymArray(n={self.n}, [{z3.simplify(self._elem(I0))}])"

    def __format__(self, spec):
        return repr(self)

    def __hash__(self):
        return id(self)

    # -- indexing
    def __getitem__(self, key):
        if isinstance(key, tuple) and len(key) == 1:
            key = key[0]
        if isinstance(key, (int, np.integer)):
            k = int(key)
            return self.at(k if k >= 0 else self.n + k)
        if isinstance(key, SymInt):
            return self.at(key)
        if isinstance(key, slice):
            if key.step not in (None, 1):
                raise EngineLimit("strided slice")
            lo = 0 if key.start is None else key.start
            hi = self.n if key.stop is None else key.stop
            if isinstance(lo, (int, np.integer)) and lo < 0:
                lo = self.n + int(lo)
            if isinstance(hi, (int, np.integer)) and hi < 0:
                hi = self.n + int(hi)
            f = self._elem
            lot = iterm(lo)
            return SymArray(hi - lo, lambda i: f(i + lot), self.sort)
        if isinstance(key, SymArray) and key.sort == "bool":
            _same_len(self.n, key.n, "boolean mask and array")
            return MaskedSel(self.n, key._elem, self._elem, self.sort)
        if isinstance(key, IndexSet):
            _same_len(self.n, key.n, "index set and array")
            return MaskedSel(self.n, key.mask, self._elem, self.sort)
        if isinstance(key, SymArray) and key.sort == "int":
            f, g = self._elem, key._elem
            return SymArray(key.n, lambda i: f(g(i)), self.sort)
        if isinstance(key, np.ndarray) and key.dtype != object:
            return self[SymArray.from_concrete(key)]
        raise EngineLimit(f"SymArray index of type {type(key)}")

    def __setitem__(self, key, val):
        old = self._elem
        if isinstance(key, (SymArray, IndexSet)) and (isinstance(key, IndexSet) or key.sort == "bool"):
            mask = key.mask if isinstance(key, IndexSet) else key._elem
            _same_len(self.n, key.n, "mask and array in assignment")
            if isinstance(val, MaskedSel):
                if not z3.simplify(val.mask(I0)).eq(z3.simplify(mask(I0))):
                    raise EngineLimit("assignment through a mask from a selection with a different mask")
                vf = val.val
                srt = self.sort
                self._elem = lambda i: z3.If(mask(i), _coerce_sort(vf(i), srt), old(i))
            elif is_sym(val) or sym._is_num(val) or isinstance(val, (bool, np.bool_)):
                vt = _term_of(val, self.sort)
                self._elem = lambda i: z3.If(mask(i), vt, old(i))
            else:
                raise EngineLimit(f"masked assignment of {type(val)}")
            return
        if isinstance(key, (int, np.integer, SymInt)):
            k = iterm(key if not (isinstance(key, (int, np.integer)) and key < 0) else self.n + int(key))
            vt = _term_of(val, self.sort)
            self._elem = lambda i: z3.If(i == k, vt, old(i))
            return
        if isinstance(key, slice) and key == slice(None):
            if isinstance(val, SymArray):
                _same_len(self.n, val.n)
                srt = self.sort
                vf = val._elem
                self._elem = lambda i: _coerce_sort(vf(i), srt)
            else:
                vt = _term_of(val, self.sort)
                self._elem = lambda i: vt
            return
        if isinstance(key, SymArray) and key.sort == "int":
            # scatter: self[key[k]] = val[k] for all k.  requires: the entries of key are pairwise distinct
            H, I = scatter_functions(key)
            if isinstance(val, SymArray):
                _same_len(key.n, val.n, "index array and values in scatter assignment")
                vf = val._elem
                srt = self.sort
                self._elem = lambda i: z3.If(H(i), _coerce_sort(vf(I(i)), srt), old(i))
            else:
                vt = _term_of(val, self.sort)
                self._elem = lambda i: z3.If(H(i), vt, old(i))
            return
        raise EngineLimit(f"SymArray assignment with key {type(key)}")

    def nonzero(self):
        if self.sort != "bool":
            f = self._elem
            return (IndexSet(self.n, lambda i: f(i) != 0),)
        return (IndexSet(self.n, self._elem),)

    # -- arithmetic
    def __array_ufunc__(self, ufunc, method, *inputs, **kwargs):
        return array_ufunc(ufunc, method, inputs, kwargs)

    def __array_function__(self, func, types, args, kwargs):
        return array_function(func, types, args, kwargs)

    def _bin(self, o, name, swap=False):
        if isinstance(o, (SymMat,)):
            return NotImplemented
        if not _is_operand(o):
            return NotImplemented
        from .shims import scalar_op

        f, _ = scalar_op(name)
        return elementwise((lambda a, b: f(b, a)) if swap else f, self, o)

    def __add__(self, o):
        return self._bin(o, "add")

    def __radd__(self, o):
        return self._bin(o, "add", True)

    def __sub__(self, o):
        return self._bin(o, "subtract")

    def __rsub__(self, o):
        return self._bin(o, "subtract", True)

    def __mul__(self, o):
        return self._bin(o, "multiply")

    def __rmul__(self, o):
        return self._bin(o, "multiply", True)

    def __truediv__(self, o):
        return self._bin(o, "true_divide")

    def __rtruediv__(self, o):
        return self._bin(o, "true_divide", True)

    def __pow__(self, o):
        return self._bin(o, "power")

    def __rpow__(self, o):
        return self._bin(o, "power", True)

    def __neg__(self):
        return elementwise(lambda a: -a, self)

    def __abs__(self):
        return elementwise(lambda a: abs(a), self)

    def __invert__(self):
        return elementwise(lambda a: ~a, self)

    def __and__(self, o):
        return self._bin(o, "logical_and")

    __rand__ = __and__

    def __or__(self, o):
        return self._bin(o, "logical_or")

    __ror__ = __or__

    def __lt__(self, o):
        return self._bin(o, "less")

    def __le__(self, o):
        return self._bin(o, "less_equal")

    def __gt__(self, o):
        return self._bin(o, "greater")

    def __ge__(self, o):
        return self._bin(o, "greater_equal")

    def __eq__(self, o):
        return self._bin(o, "equal")

    def __ne__(self, o):
        return self._bin(o, "not_equal")

    # in-place: numpy mutates
    def _ibin(self, o, name):
        r = self._bin(o, name)
        if r is NotImplemented:
            return r
        self._elem = r._elem
        self.sort = r.sort
        return self

    def __iadd__(self, o):
        return self._ibin(o, "add")

    def __isub__(self, o):
        return self._ibin(o, "subtract")

    def __imul__(self, o):
        return self._ibin(o, "multiply")

    def __itruediv__(self, o):
        return self._ibin(o, "true_divide")

    def max(self, *a, **k):
        """max of an arange-like array (elem(i) = i + c, non-empty) is n - 1 + c; otherwise a fresh value m
        with  (forall i. elem(i) <= m)  and a witness index."""
        e = z3.simplify(self._elem(I0) - I0) if self.sort == "int" else None
        if e is not None and z3.is_int_value(e):
            return concrete(SymInt(z3.simplify(iterm(self.n) - 1 + e)))
        c = sym.Ctx.current
        if self.sort == "bool":
            raise EngineLimit("max of a boolean SymArray")
        m = c.int("max") if self.sort == "int" else c.real("max")
        w = c.int("argmax")
        f = self._elem
        ii = z3.Int("__i")
        c.assume(SymBool(z3.And(w.t >= 0, w.t < iterm(self.n), f(w.t) == m.t)))
        ax = z3.ForAll([ii], z3.Implies(z3.And(ii >= 0, ii < iterm(self.n)), f(ii) <= m.t))
        c.add_axiom(ax)
        return m

    def any(self):
        raise EngineLimit("any() over a symbolic-length array")

    def all(self):
        raise EngineLimit("all() over a symbolic-length array")

    def sum(self, *a, **k):
        if isinstance(self.n, int):
            if self.sort == "real":
                t = z3.RealVal(0)
                for q in range(self.n):
                    t = t + self._elem(z3.IntVal(q))
                return SymReal(t)
            t = z3.IntVal(0)
            for q in range(self.n):
                e = self._elem(z3.IntVal(q))
                t = t + (z3.If(e, 1, 0) if self.sort == "bool" else e)
            return concrete(SymInt(t))
        raise EngineLimit("sum() over a symbolic-length array")


_SCATTER = {}


def scatter_functions(key: "SymArray"):
    """For an index array R of length q with pairwise distinct entries (requires of the caller), returns
    (H, I): H(r) <=> r is one of the indices, I(r) = the position k with R[k] = r.  The defining axioms
    are added to the current path condition (quantified, instantiated by E-matching on R(k) / H(r))."""
    c = sym.Ctx.current
    kk = ("scatter",) + key.key()
    reg = c.__dict__.setdefault("_scatter", {})
    if kk in reg:
        return reg[kk]
    n = len(reg)
    H = z3.Function(c.fresh_name(f"hit{n}"), z3.IntSort(), z3.BoolSort())
    I = z3.Function(c.fresh_name(f"pos{n}"), z3.IntSort(), z3.IntSort())
    R = key._elem
    q = iterm(key.n)
    r, k = z3.Int("__r"), z3.Int("__k")
    ax1 = z3.ForAll([r], z3.Implies(H(r), z3.And(I(r) >= 0, I(r) < q, R(I(r)) == r)), patterns=[H(r)])
    ax2 = z3.ForAll([k], z3.Implies(z3.And(k >= 0, k < q), z3.And(H(R(k)), I(R(k)) == k)), patterns=[R(k)])
    c.add_axiom(ax1)
    c.add_axiom(ax2)
    from .shims import _used

    _used("numpy scatter a[R] = v with pairwise distinct R: a[R[k]] = v[k] for every k, other entries unchanged")
    reg[kk] = (H, I)
    return reg[kk]


def _is_operand(o):
    return (
        isinstance(o, (SymArray, MaskedSel))
        or is_sym(o)
        or sym._is_num(o)
        or isinstance(o, (bool, np.bool_))
        or (isinstance(o, np.ndarray))
    )


class IndexSet:
    """Sorted indices where `mask` holds (mask.nonzero()[0], np.where(mask)[0])."""

    _pretend = (np.ndarray,)
    ndim = 1

    def __init__(self, n, mask):
        self.n = n
        self.mask = mask

    @property
    def size(self):
        raise EngineLimit("size of a symbolic index set")

    def __array_function__(self, func, types, args, kwargs):
        from .indexmodels import indexset_function

        return indexset_function(func, args, kwargs)

    def __hash__(self):
        return id(self)


class MaskedSel:
    """a[mask]: the sub-array of entries where mask holds, kept aligned to the base index."""

    _pretend = (np.ndarray,)
    __array_priority__ = 2000
    ndim = 1

    def __init__(self, n, mask, val, sort):
        self.n, self.mask, self.val, self.sort = n, mask, val, sort

    def __array_ufunc__(self, ufunc, method, *inputs, **kwargs):
        return array_ufunc(ufunc, method, inputs, kwargs)

    def __array_function__(self, func, types, args, kwargs):
        return array_function(func, types, args, kwargs)

    def _bin(self, o, name, swap=False):
        from .shims import scalar_op

        f, _ = scalar_op(name)
        return elementwise((lambda a, b: f(b, a)) if swap else f, self, o)

    def __add__(self, o):
        return self._bin(o, "add")

    def __radd__(self, o):
        return self._bin(o, "add", True)

    def __sub__(self, o):
        return self._bin(o, "subtract")

    def __rsub__(self, o):
        return self._bin(o, "subtract", True)

    def __mul__(self, o):
        return self._bin(o, "multiply")

    def __rmul__(self, o):
        return self._bin(o, "multiply", True)

    def __truediv__(self, o):
        return self._bin(o, "true_divide")

    def __rtruediv__(self, o):
        return self._bin(o, "true_divide", True)

    def __pow__(self, o):
        return self._bin(o, "power")

    def __rpow__(self, o):
        return self._bin(o, "power", True)

    def __neg__(self):
        return elementwise(lambda a: -a, self)

    def astype(self, dt, *a, **k):
        return self

    def copy(self):
        return self

    def __hash__(self):
        return id(self)


def elementwise(f, *ops, sort=None):
    """Apply scalar function f (on proxies) elementwise.  All SymArray operands must have equal length;
    all MaskedSel operands the same mask.  Concrete 1-D numpy arrays are converted."""
    ops = [SymArray.from_concrete(o) if (isinstance(o, np.ndarray) and o.ndim == 1) else o for o in ops]
    ops = [o.item() if (isinstance(o, np.ndarray) and o.ndim == 0) else o for o in ops]
    arrs = [o for o in ops if isinstance(o, SymArray)]
    sels = [o for o in ops if isinstance(o, MaskedSel)]
    if arrs and sels:
        raise EngineLimit("mixing full arrays and masked selections elementwise")
    if any(isinstance(o, np.ndarray) for o in ops):
        raise EngineLimit("n-d concrete array meets a SymArray")

    # snapshot the element functions now: operands may be mutated in place later (a += b rebinds a._elem to
    # the function built here, which must not refer back to itself)
    snap = [o._elem if isinstance(o, SymArray) else (o.val if isinstance(o, MaskedSel) else None) for o in ops]

    def mk(i):
        vals = []
        for o, e in zip(ops, snap):
            if e is not None:
                vals.append(wrap(e(i)))
            else:
                vals.append(o)
        r = f(*vals)
        if isinstance(r, (bool, np.bool_)):
            return z3.BoolVal(bool(r))
        if is_sym(r):
            return r.t
        return rterm(r)

    probe = mk(I0)
    srt = _sort_of_term(probe)
    if sels:
        m0 = z3.simplify(sels[0].mask(I0))
        for s in sels[1:]:
            if not z3.simplify(s.mask(I0)).eq(m0):
                raise EngineLimit("masked selections with different masks combined")
        return MaskedSel(sels[0].n, sels[0].mask, mk, srt)
    for a in arrs[1:]:
        _same_len(arrs[0].n, a.n)
    return SymArray(arrs[0].n, mk, srt)


def array_ufunc(ufunc, method, inputs, kwargs):
    from .shims import scalar_op

    if method != "__call__":
        raise EngineLimit(f"ufunc method {method} on SymArray")
    if kwargs.get("out") is not None:
        raise EngineLimit("ufunc out= on SymArray")
    if any(isinstance(x, SymMat) for x in inputs):
        return NotImplemented
    f, _ = scalar_op(ufunc.__name__)
    return elementwise(f, *inputs)


# --------------------------------------------------------------------------- sparse matrices

_ABSTRACT = {}


def _abstract_fun(kind, key, nargs):
    k = (kind, key)
    if k not in _ABSTRACT:
        name = f"{kind}#{len(_ABSTRACT)}"
        _ABSTRACT[k] = z3.Function(name, *([z3.IntSort()] * nargs), z3.RealSort())
    return _ABSTRACT[k]


class SymMat:
    _pretend = (sps.spmatrix, sps.csr_matrix, sps.csc_matrix)
    __array_priority__ = 3000
    ndim = 2

    def __init__(self, nr, nc, entry, fmt="csr", diag=None, zero=False, name=None):
        self.nr = concrete(nr) if isinstance(nr, SymInt) else nr
        self.nc = concrete(nc) if isinstance(nc, SymInt) else nc
        self._entry = entry
        self.fmt = fmt
        self.diag = diag  # elem function of the diagonal if the matrix is diagonal
        self.zero = zero
        self.name = name
        self.dense = None
        self.stored = None  # number of stored entries where the constructor determines it

    @property
    def nnz(self):
        if self.stored is None:
            raise EngineLimit("nnz of a symbolic matrix whose number of stored entries is not determined by its constructor")
        return self.stored

    def _keep(self, m):
        m.stored = self.stored
        return m

    @staticmethod
    def fresh(name, nr, nc, fmt="csr"):
        c = sym.Ctx.current
        nm = c.fresh_name(name) if c else name
        f = z3.Function(nm, z3.IntSort(), z3.IntSort(), z3.RealSort())
        return SymMat(nr, nc, lambda i, j: f(i, j), fmt, name=nm)

    @staticmethod
    def zeros(nr, nc, fmt="csr"):
        return SymMat(nr, nc, lambda i, j: z3.RealVal(0), fmt, zero=True)

    @staticmethod
    def diagonal(a: SymArray, fmt="dia"):
        f = a._elem
        g = lambda i: _coerce_sort(f(i), "real")
        return SymMat(a.n, a.n, lambda i, j: z3.If(i == j, g(i), z3.RealVal(0)), fmt, diag=g)

    @property
    def shape(self):
        return (self.nr, self.nc)

    def entry(self, i, j):
        return self._entry(iterm(i), iterm(j))

    def key(self):
        return (
            z3.simplify(_lenterm(self.nr)).sexpr(),
            z3.simplify(_lenterm(self.nc)).sexpr(),
            z3.simplify(self._entry(I0, J0)).sexpr(),
        )

    def copy(self):
        return self._keep(SymMat(self.nr, self.nc, self._entry, self.fmt, self.diag, self.zero))

    def astype(self, *a, **k):
        return self.copy()

    # scipy: a conversion to the format the matrix already has returns the matrix itself unless copy=True (aliasing matters for the
    # frame clauses: an in-place update of the "converted" matrix then reaches the operand)
    def tocsr(self, copy=False):
        if self.fmt == "csr" and not copy:
            return self
        return self._keep(SymMat(self.nr, self.nc, self._entry, "csr", self.diag, self.zero))

    def tocsc(self, copy=False):
        if self.fmt == "csc" and not copy:
            return self
        return self._keep(SymMat(self.nr, self.nc, self._entry, "csc", self.diag, self.zero))

    def getformat(self):
        return self.fmt

    format = property(lambda self: self.fmt)

    @staticmethod
    def row_selection(q, n, sel, fmt="csr"):
        """q x n matrix P with P[r, c] = 1 iff c == sel(r) (restriction to the entries sel(0..q-1)); closed forms for A @ P^T"""
        m = SymMat(q, n, lambda r, c: z3.If(c == sel(r), z3.RealVal(1), z3.RealVal(0)), fmt)
        m.rowsel = sel
        return m

    rowsel = None  # P[r, c] = [c == rowsel(r)]
    colsel = None  # S[c, r] = [c == colsel(r)]  (the transpose of a row selection)

    def transpose(self):
        e = self._entry
        t = SymMat(self.nc, self.nr, lambda i, j: e(j, i), self.fmt, self.diag, self.zero)
        t.rowsel, t.colsel = self.colsel, self.rowsel
        return self._keep(t)

    T = property(transpose)

    def __hash__(self):
        return id(self)

    def __repr__(self):
        return f"SymMat({self.nr}x{self.nc}: {z3.simplify(self._entry(I0, J0))})"

    def _same_shape(self, o):
        _same_len(self.nr, o.nr, "matrix rows")
        _same_len(self.nc, o.nc, "matrix columns")

    def __add__(self, o):
        if isinstance(o, SymMat):
            self._same_shape(o)
            a, b = self._entry, o._entry
            return SymMat(self.nr, self.nc, lambda i, j: a(i, j) + b(i, j), self.fmt)
        if sym._is_num(o) and o == 0:
            return self.copy()
        return NotImplemented

    __radd__ = __add__

    def __sub__(self, o):
        if isinstance(o, SymMat):
            self._same_shape(o)
            a, b = self._entry, o._entry
            return SymMat(self.nr, self.nc, lambda i, j: a(i, j) - b(i, j), self.fmt)
        return NotImplemented

    def __neg__(self):
        a = self._entry
        d = self.diag
        return SymMat(self.nr, self.nc, lambda i, j: -a(i, j), self.fmt, (lambda i: -d(i)) if d else None, self.zero)

    def _scale(self, s, div=False):
        st = rterm(s)
        a = self._entry
        if div:
            return SymMat(self.nr, self.nc, lambda i, j: a(i, j) / st, self.fmt)
        return SymMat(self.nr, self.nc, lambda i, j: a(i, j) * st, self.fmt)

    def __truediv__(self, o):
        if is_sym(o) or sym._is_num(o):
            return self._scale(o, div=True)
        return NotImplemented

    def _matmul(self, o):
        if isinstance(o, SymMat):
            _same_len(self.nc, o.nr, "inner matrix dimensions")
            if self.dense is not None and o.dense is not None:
                return dense_mat(self.dense.dot(o.dense), self.fmt)
            a, b = self._entry, o._entry
            if self.diag is not None:
                d = self.diag
                return SymMat(self.nr, o.nc, lambda i, j: d(i) * b(i, j), o.fmt,
                              (lambda i: d(i) * o.diag(i)) if o.diag else None)
            if o.diag is not None:
                d = o.diag
                return SymMat(self.nr, o.nc, lambda i, j: a(i, j) * d(j), self.fmt)
            if o.colsel is not None:
                # A @ S with S[c, r] = [c == sel(r)]: column r of the product is column sel(r) of A
                cs = o.colsel
                return SymMat(self.nr, o.nc, lambda i, j: a(i, cs(j)), self.fmt)
            F = _abstract_fun("matmat", (self.key(), o.key()), 2)
            return SymMat(self.nr, o.nc, lambda i, j: F(i, j), self.fmt)
        if isinstance(o, SymArray):
            _same_len(self.nc, o.n, "matrix columns and vector")
            if self.diag is not None:
                d, v = self.diag, o._elem
                return SymArray(self.nr, lambda i: d(i) * _coerce_sort(v(i), "real"), "real")
            F = _abstract_fun("matvec", (self.key(), o.key()), 1)
            return SymArray(self.nr, lambda i: F(i), "real")
        return NotImplemented

    def __matmul__(self, o):
        return self._matmul(o)

    def __mul__(self, o):
        if is_sym(o) or sym._is_num(o):
            return self._scale(o)
        return self._matmul(o)

    def __rmul__(self, o):
        if is_sym(o) or sym._is_num(o):
            return self._scale(o)
        return NotImplemented

    def dot(self, o):
        return self._matmul(o)

    def multiply(self, o):
        raise EngineLimit("SymMat.multiply")

    def __getitem__(self, key):
        """Row selection (the only indexing AdArray uses)."""
        e = self._entry
        if isinstance(key, slice):
            if key.step not in (None, 1):
                raise EngineLimit("strided slice")
            lo = 0 if key.start is None else key.start
            hi = self.nr if key.stop is None else key.stop
            lot = iterm(lo)
            return SymMat(hi - lo, self.nc, lambda i, j: e(i + lot, j), self.fmt)
        if isinstance(key, SymArray) and key.sort == "int":
            g = key._elem
            return SymMat(key.n, self.nc, lambda i, j: e(g(i), j), self.fmt)
        if isinstance(key, (int, np.integer, SymInt)):
            k = iterm(key)
            return SymMat(1, self.nc, lambda i, j: e(k, j), self.fmt)
        raise EngineLimit(f"SymMat index {type(key)}")


# --------------------------------------------------------------------------- numpy / scipy models


def _np_abs(x):
    return abs(x)


def _m_diags(diagonals, offsets=0, shape=None, format=None, dtype=None):
    from .shims import _used

    _used("sps.diags(a): square matrix with a on the main diagonal, zero elsewhere")
    if not isinstance(diagonals, SymArray) or offsets != 0:
        raise EngineLimit("sps.diags with offsets / non-1-D argument")
    return SymMat.diagonal(diagonals)


def _m_csr_matrix(arg1, shape=None, dtype=None, copy=False):
    from .shims import _used

    if isinstance(arg1, SymMat):
        return arg1.tocsr()
    if isinstance(arg1, tuple) and len(arg1) == 2 and all(isinstance(v, (int, np.integer, SymInt)) for v in arg1):
        _used("sps.csr_matrix((m, n)): zero matrix of that shape")
        return SymMat.zeros(arg1[0], arg1[1], "csr")
    if isinstance(arg1, tuple) and len(arg1) == 2 and isinstance(arg1[1], tuple) and shape is not None:
        data, (rows, cols) = arg1
        if all(isinstance(v, (int, np.integer)) for v in shape) and isinstance(data, np.ndarray):
            _used("sps.csr_matrix((data,(rows,cols)), shape): concrete shape/indices, duplicate coordinates are summed")
            D = np.empty(tuple(int(v) for v in shape), dtype=object)
            D[...] = 0
            for v, r, c in zip(data, np.asarray(rows).tolist(), np.asarray(cols).tolist()):
                D[int(r), int(c)] = D[int(r), int(c)] + v
            return dense_mat(D)
    raise EngineLimit("sps.csr_matrix from symbolic data")


def dense_mat(D, fmt="csr"):
    """concrete-shape sparse stand-in backed by a dense object array of proxies/numbers"""
    D = np.asarray(D, dtype=object)
    nr, nc = D.shape

    def entry(i, j):
        ti, tj = z3.simplify(i), z3.simplify(j)
        if z3.is_int_value(ti) and z3.is_int_value(tj):
            return rterm(D[ti.as_long(), tj.as_long()])
        r = z3.RealVal(0)
        for a in range(nr):
            for b in range(nc):
                r = z3.If(z3.And(i == a, j == b), rterm(D[a, b]), r)
        return r

    m = SymMat(nr, nc, entry, fmt)
    m.dense = D
    return m


def _m_bmat(blocks, format=None, dtype=None):
    from .shims import _used

    if len(blocks) > 1 and all(len(row) == 1 and isinstance(row[0], SymMat) for row in blocks):
        _used("sps.bmat([[B0], [B1], ...]): one block column, blocks stacked at cumulative row offsets")
        bs = [row[0] for row in blocks]
        for b in bs[1:]:
            _same_len(bs[0].nc, b.nc, "bmat block columns")
        offs = [0]
        for b in bs:
            offs.append(offs[-1] + b.nr)
        ents = [b._entry for b in bs]
        offt = [iterm(o) for o in offs]

        def entry_c(i, j):
            r = z3.RealVal(0)
            for k in range(len(bs) - 1, -1, -1):
                r = z3.If(z3.And(i >= offt[k], i < offt[k + 1]), ents[k](i - offt[k], j), r)
            return r

        return SymMat(offs[-1], bs[0].nc, entry_c, format or "coo")
    _used("sps.bmat([[B0, B1, ...]]): one block row, blocks side by side at cumulative column offsets")
    if not (len(blocks) == 1 and all(isinstance(b, SymMat) for b in blocks[0])):
        raise EngineLimit("sps.bmat other than a single block row of proxies")
    bs = list(blocks[0])
    for b in bs[1:]:
        _same_len(bs[0].nr, b.nr, "bmat block rows")
    offs = [0]
    for b in bs:
        offs.append(offs[-1] + b.nc)
    ents = [b._entry for b in bs]
    offt = [iterm(o) for o in offs]

    def entry(i, j):
        r = z3.RealVal(0)
        for k in range(len(bs) - 1, -1, -1):
            r = z3.If(z3.And(j >= offt[k], j < offt[k + 1]), ents[k](i, j - offt[k]), r)
        return r

    return SymMat(bs[0].nr, offs[-1], entry, format or "coo")


def _m_csc_matrix(arg1, shape=None, dtype=None, copy=False):
    r = _m_csr_matrix(arg1, shape, dtype, copy)
    return r.tocsc()


def _m_zeros(shape, dtype=float, order="C", **k):
    from .shims import _used

    _used("np.zeros/ones/full(n): constant array of length n")
    if isinstance(shape, tuple) and len(shape) == 1:
        shape = shape[0]
    srt = "bool" if dtype in (bool, np.bool_) else ("int" if dtype in (int, np.int64, np.int32) else "real")
    if isinstance(shape, SymInt):
        return SymArray.const(shape, False if srt == "bool" else 0, srt)
    if isinstance(shape, tuple) and len(shape) == 2 and isinstance(shape[0], (int, np.integer)) and isinstance(shape[1], SymInt):
        return SymRows([SymArray.const(shape[1], False if srt == "bool" else 0, srt) for _ in range(int(shape[0]))])
    raise EngineLimit("np.zeros with a symbolic n-d shape")


def _m_ones(shape, dtype=float, order="C", **k):
    if isinstance(shape, tuple) and len(shape) == 1:
        shape = shape[0]
    if isinstance(shape, SymInt):
        srt = "bool" if dtype in (bool, np.bool_) else ("int" if dtype in (int, np.int64, np.int32) else "real")
        return SymArray.const(shape, True if srt == "bool" else 1, srt)
    raise EngineLimit("np.ones with a symbolic n-d shape")


def _m_full(shape, fill_value, dtype=None, **k):
    from .shims import _used

    _used("np.zeros/ones/full(n): constant array of length n")
    if isinstance(shape, tuple) and len(shape) == 1:
        shape = shape[0]
    if isinstance(shape, (SymInt, int, np.integer)):
        srt = "real" if isinstance(fill_value, (SymReal, float, np.floating)) else ("int" if isinstance(fill_value, (SymInt, int, np.integer)) else "real")
        return SymArray.const(shape, fill_value, srt)
    raise EngineLimit("np.full with a symbolic n-d shape")


def _m_arange(*a, **k):
    from .shims import _used

    _used("np.arange(n): the array 0..n-1; np.arange(a, b): a..b-1")
    if len(a) == 1:
        lo, hi = 0, a[0]
    elif len(a) == 2:
        lo, hi = a
    else:
        raise EngineLimit("np.arange with a step")
    lot = iterm(lo)
    return SymArray(hi - lo, lambda i: i + lot, "int")


def _m_argsort(a, *args, **k):
    from .shims import _used

    _used("np.argsort(a): abstract index array of the same length (only its length is used symbolically)")
    if isinstance(a, SymArray):
        return SymArray.fresh("argsort", a.n, "int")
    raise EngineLimit("argsort")


def _m_ones_like(a, dtype=None, **k):
    if isinstance(a, SymArray):
        srt = a.sort if dtype is None else ("real" if dtype in (float, np.float64) else a.sort)
        return SymArray.const(a.n, True if srt == "bool" else 1, srt)
    if is_sym(a):
        return 1.0
    raise EngineLimit("ones_like")


def _m_zeros_like(a, dtype=None, **k):
    if isinstance(a, SymArray):
        srt = a.sort if dtype is None else ("real" if dtype in (float, np.float64) else a.sort)
        return SymArray.const(a.n, False if srt == "bool" else 0, srt)
    if is_sym(a):
        return 0.0
    raise EngineLimit("zeros_like")


def _m_size(a, axis=None):
    if isinstance(a, SymArray):
        return a.n
    if is_sym(a):
        return 1
    raise EngineLimit("np.size")


def _m_array(obj, dtype=None, copy=True, **k):
    if isinstance(obj, SymArray):
        return obj.copy() if copy else obj
    if is_sym(obj):
        return obj
    if isinstance(obj, (list, tuple)):
        return _NP_ARRAY(list(obj), dtype=object)
    if isinstance(obj, np.ndarray):
        return obj.copy()
    raise EngineLimit(f"np.array({type(obj)})")


def _m_asarray(obj, dtype=None, **k):
    return _m_array(obj, dtype, copy=False)


def _m_atleast_1d(x):
    if isinstance(x, SymArray):
        return x
    if is_sym(x):
        return SymArray(1, lambda i, t=(x.t): t, "real" if isinstance(x, SymReal) else "int")
    raise EngineLimit("atleast_1d")


def _m_where(cond, *xy):
    if not xy:
        if isinstance(cond, SymArray):
            return cond.nonzero()
        raise EngineLimit("np.where(cond)")
    x, y = xy
    if isinstance(cond, SymArray):
        return elementwise(lambda c, a, b: wrap(z3.If(sym._bterm(c), _t(a), _t(b))), cond, x, y)
    if isinstance(cond, SymBool):
        return wrap(z3.If(cond.t, _t(x), _t(y)))
    raise EngineLimit("np.where")


def _t(x):
    if is_sym(x):
        return x.t if not isinstance(x, SymInt) else z3.ToReal(x.t)
    return rterm(x)


def _m_heaviside(x, h0):
    from .shims import _heaviside

    if isinstance(x, SymArray):
        return elementwise(_heaviside, x, h0)
    return _heaviside(x, h0)


def _m_sign(x):
    if isinstance(x, SymArray):
        return elementwise(lambda a: SymReal(rterm(a)).sign(), x)
    return SymReal(rterm(x)).sign()


def _m_maximum(a, b):
    from .shims import _maximum

    if isinstance(a, SymArray) or isinstance(b, SymArray):
        return elementwise(_maximum, a, b)
    return _maximum(a, b)


def _m_minimum(a, b):
    from .shims import _minimum

    if isinstance(a, SymArray) or isinstance(b, SymArray):
        return elementwise(_minimum, a, b)
    return _minimum(a, b)


def _m_concatenate(seq, axis=0, **k):
    seq = list(seq)
    if all(isinstance(s, np.ndarray) for s in seq):
        return np.concatenate([np.asarray(s, dtype=object) for s in seq], axis=axis)
    if all(isinstance(s, (SymArray, np.ndarray)) for s in seq) and axis == 0:
        from .shims import _used

        _used("np.concatenate of 1-D arrays: piecewise by cumulative lengths")
        parts = [s if isinstance(s, SymArray) else SymArray.from_concrete(s) for s in seq]
        srt = "real" if any(p.sort == "real" for p in parts) else parts[0].sort
        offs = [0]
        for p in parts:
            offs.append(offs[-1] + p.n)
        offt = [iterm(o) for o in offs]
        fs = [p._elem for p in parts]

        def elem(i):
            r = _coerce_sort(fs[-1](i - offt[len(parts) - 1]), srt) if srt == "real" else fs[-1](i - offt[len(parts) - 1])
            for q in range(len(parts) - 2, -1, -1):
                v = fs[q](i - offt[q])
                r = z3.If(i < offt[q + 1], _coerce_sort(v, srt) if srt == "real" else v, r)
            return r

        return SymArray(offs[-1], elem, srt)
    raise EngineLimit("np.concatenate of symbolic-length arrays")


def _m_sqrt_etc(name):
    def f(x, *a, **k):
        from .shims import scalar_op

        g, _ = scalar_op(name)
        if isinstance(x, (SymArray, MaskedSel)):
            return elementwise(g, x)
        if isinstance(x, np.ndarray):
            out = np.empty(x.shape, dtype=object)
            for idx in np.ndindex(*x.shape):
                out[idx] = g(x[idx])
            return out
        return g(x)

    return f


# --------------------------------------------------------------------------- membership / quantifier models


class ObjArr(np.ndarray):
    """Fixed-shape numpy array of dtype=object holding proxies (numpy does all the shape plumbing).  The only difference to a plain
    object array: ``astype(float)`` keeps the (symbolic real) entries instead of calling float() on them."""

    def astype(self, dtype, *a, **k):
        if _norm_dtype(dtype) in (float, np.float64, "float"):
            return self.copy()
        return super().astype(dtype, *a, **k)

    @staticmethod
    def of(seq):
        a = np.empty(len(seq), dtype=object)
        for q, x in enumerate(seq):
            a[q] = x
        return a.view(ObjArr)


class Opaque:
    """result of a numpy call whose value is irrelevant to the contract (kept out of every obligation)"""

    _pretend = (np.ndarray,)

    def __init__(self, what):
        self.what = what

    def __array_function__(self, func, types, args, kwargs):
        return Opaque(f"{getattr(func, '__name__', func)} of ({self.what})")

    def reshape(self, *a, **k):
        return self


def _m_isin(a, b, *x, **k):
    from .shims import _used

    _used("np.isin(a, b): elementwise membership of a in b (b with pairwise distinct entries, or the index set of a mask)")
    if isinstance(b, IndexSet):
        mem = b.mask
    elif isinstance(b, SymArray):
        H, _ = scatter_functions(b)
        mem = lambda t: H(t)
    else:
        raise EngineLimit("np.isin with a concrete second argument")
    if isinstance(a, SymArray):
        f = a._elem
        return SymArray(a.n, lambda i: mem(f(i)), "bool")
    if isinstance(a, SymInt):
        return concrete(SymBool(mem(a.t)))
    raise EngineLimit("np.isin first argument")


def _m_all(a, *x, **k):
    if isinstance(a, SymArray) and a.sort == "bool" and isinstance(a.n, int):
        return concrete(SymBool(z3.And(*[a._elem(z3.IntVal(q)) for q in range(a.n)]) if a.n else z3.BoolVal(True)))
    if isinstance(a, SymArray) and a.sort == "bool":
        ii = z3.Int("__qa")
        return concrete(SymBool(z3.ForAll([ii], z3.Implies(z3.And(ii >= 0, ii < iterm(a.n)), a._elem(ii)))))
    if isinstance(a, SymBool):
        return a
    raise EngineLimit("np.all")


def _m_any(a, *x, **k):
    if isinstance(a, SymArray) and a.sort == "bool" and isinstance(a.n, int):
        return concrete(SymBool(z3.Or(*[a._elem(z3.IntVal(q)) for q in range(a.n)]) if a.n else z3.BoolVal(False)))
    if isinstance(a, SymArray) and a.sort == "bool":
        ii = z3.Int("__qe")
        return concrete(SymBool(z3.Exists([ii], z3.And(ii >= 0, ii < iterm(a.n), a._elem(ii)))))
    if isinstance(a, SymBool):
        return a
    raise EngineLimit("np.any")


def _m_argwhere(a):
    if isinstance(a, SymArray) and a.sort == "bool":
        return IndexSet(a.n, a._elem)
    raise EngineLimit("np.argwhere")


def _m_tile(a, reps):
    return Opaque("np.tile with a symbolic repetition count")


def _m_reshape(a, *x, **k):
    if isinstance(a, Opaque):
        return a
    raise EngineLimit("np.reshape of a proxy")


class SymRows:
    """2-D array with a concrete number of rows and a symbolic number of columns: one SymArray per row"""

    _pretend = (np.ndarray,)
    ndim = 2

    def __init__(self, rows):
        self.rows = rows

    @property
    def shape(self):
        return (len(self.rows), self.rows[0].n)

    def __setitem__(self, key, val):
        if isinstance(key, tuple) and len(key) == 2 and key[0] == slice(None):
            for r in self.rows:
                r[key[1]] = val
            return
        if isinstance(key, tuple) and len(key) == 2 and isinstance(key[0], (int, np.integer)):
            self.rows[int(key[0])][key[1]] = val
            return
        raise EngineLimit("SymRows assignment")

    def __getitem__(self, key):
        if isinstance(key, tuple) and len(key) == 2 and isinstance(key[0], (int, np.integer)):
            return self.rows[int(key[0])][key[1]]
        if isinstance(key, (int, np.integer)):
            return self.rows[int(key)]
        raise EngineLimit("SymRows index")


def _m_append(arr, values, axis=None):
    """np.append(a, v) with axis=None on fixed-shape object arrays / scalar proxies: ravel both, concatenate"""
    if axis is not None or not isinstance(arr, np.ndarray):
        raise EngineLimit("np.append on a proxy array / along an axis")
    v = values if isinstance(values, np.ndarray) else ObjArr.of([values]) if not isinstance(values, (list, tuple)) else ObjArr.of(list(values))
    return ObjArr.of(list(np.asarray(arr, dtype=object).ravel()) + list(np.asarray(v, dtype=object).ravel()))


def FUNCTION_MODELS():
    """numpy functions reached through the __array_function__ protocol of the proxies."""
    from .shims import _isclose, _allclose

    m = {
        np.isclose: _isclose,
        np.allclose: _allclose,
        np.ones_like: _m_ones_like,
        np.zeros_like: _m_zeros_like,
        np.size: _m_size,
        np.atleast_1d: _m_atleast_1d,
        np.where: _m_where,
        np.nonzero: lambda a: _m_where(a),
        np.flatnonzero: lambda a: _m_where(a)[0],
        np.concatenate: _m_concatenate,
        np.append: _m_append,
        np.copy: lambda a, *x, **k: a.copy(),
        np.argsort: _m_argsort,
        np.isin: _m_isin,
        np.all: _m_all,
        np.any: _m_any,
        np.argwhere: _m_argwhere,
        np.reshape: _m_reshape,
        np.ndim: lambda a: a.ndim,
        np.shape: lambda a: a.shape,
    }
    return m


def CONSTRUCTOR_MODELS():
    """entry points that do not dispatch on their arguments: patched on the module for the run."""
    return [
        (sps, "diags", _m_diags),
        (sps, "csr_matrix", _m_csr_matrix),
        (sps, "csc_matrix", _m_csc_matrix),
        (sps, "bmat", _m_bmat),
        (np, "zeros", _m_zeros),
        (np, "full", _m_full),
        (np, "arange", _m_arange),
        (np, "tile", _m_tile),
        (np, "ones", _m_ones),
        (np, "array", _m_array),
        (np, "asarray", _m_asarray),
        # numpy's own isclose/allclose call isfinite, which object arrays of proxies do not support
        (np, "argmax", _m_argmax),
        (np, "isclose", _lazy_shim("_isclose")),
        (np, "allclose", _lazy_shim("_allclose")),
    ]


def _m_argmax(a, *x, **k):
    """np.argmax of a 1-D object array of (symbolic) booleans: index of the first True (0 if none)"""
    from .shims import _used

    if isinstance(a, np.ndarray) and a.ndim == 1 and a.dtype == object:
        _used("np.argmax of a boolean array: index of the first True entry (0 if there is none)")
        r = z3.IntVal(0)
        for q in range(len(a) - 1, -1, -1):
            r = z3.If(sym._bterm(a[q]), z3.IntVal(q), r)
        return concrete(SymInt(r))
    raise EngineLimit("np.argmax of a proxy array")


def _lazy_shim(name):
    def f(*a, **k):
        from . import shims

        return getattr(shims, name)(*a, **k)

    return f


_FM = None


def array_function(func, types, args, kwargs):
    global _FM
    if _FM is None:
        _FM = FUNCTION_MODELS()
    m = _FM.get(func)
    if m is None:
        raise EngineLimit(f"numpy function {getattr(func, '__module__', '')}.{getattr(func, '__name__', func)} has no model")
    return m(*args, **kwargs)
