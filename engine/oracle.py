"""Derivative oracle (DESIGN §2.3) and axiom instantiation for the uninterpreted transcendentals.

`diff(term, var)` differentiates a z3 real term with respect to the atomic term `var` (e.g. the
application X(i) of an input array at the Skolem index) using the textbook derivative table below.
It is independent of porepy.  `selfcheck()` compares the table with central finite differences on
random points of each function's domain (run on every check that uses the oracle).
"""
from __future__ import annotations

import math
import random

import z3

from .sym import POW, UF

R = z3.RealVal


def _contains(t, var):
    if t.eq(var):
        return True
    return any(_contains(c, var) for c in t.children())


def _uf_name(t):
    if z3.is_app(t) and t.decl().kind() == z3.Z3_OP_UNINTERPRETED and t.num_args() == 1:
        n = t.decl().name()
        if n in UF:
            return n
    return None


# d/du f(u)
TABLE = {
    "exp": lambda u: UF["exp"](u),
    "log": lambda u: 1 / u,
    "sin": lambda u: UF["cos"](u),
    "cos": lambda u: -UF["sin"](u),
    "tan": lambda u: 1 + UF["tan"](u) * UF["tan"](u),
    "arcsin": lambda u: 1 / UF["sqrt"](1 - u * u),
    "arccos": lambda u: -1 / UF["sqrt"](1 - u * u),
    "arctan": lambda u: 1 / (1 + u * u),
    "sinh": lambda u: UF["cosh"](u),
    "cosh": lambda u: UF["sinh"](u),
    "tanh": lambda u: 1 - UF["tanh"](u) * UF["tanh"](u),
    "arcsinh": lambda u: 1 / UF["sqrt"](u * u + 1),
    "arccosh": lambda u: 1 / UF["sqrt"](u * u - 1),
    "arctanh": lambda u: 1 / (1 - u * u),
    "sqrt": lambda u: 1 / (2 * UF["sqrt"](u)),
}


def diff(t, var):
    """d t / d var  (var atomic).  Conditions of If() are treated as locally constant."""
    if t.eq(var):
        return R(1)
    if not _contains(t, var):
        return R(0)
    k = t.decl().kind()
    ch = t.children()
    if k == z3.Z3_OP_ADD:
        r = diff(ch[0], var)
        for c in ch[1:]:
            r = r + diff(c, var)
        return r
    if k == z3.Z3_OP_SUB:
        r = diff(ch[0], var)
        for c in ch[1:]:
            r = r - diff(c, var)
        return r
    if k == z3.Z3_OP_UMINUS:
        return -diff(ch[0], var)
    if k == z3.Z3_OP_MUL:
        # product rule over n factors
        total = None
        for i, c in enumerate(ch):
            if not _contains(c, var):
                continue
            term = diff(c, var)
            for j, o in enumerate(ch):
                if j != i:
                    term = term * o
            total = term if total is None else total + term
        return total
    if k == z3.Z3_OP_DIV:
        a, b = ch
        da, db = diff(a, var), diff(b, var)
        return (da * b - a * db) / (b * b)
    if k == z3.Z3_OP_TO_REAL:
        raise ValueError("derivative with respect to an integer-sorted term")
    if k == z3.Z3_OP_ITE:
        c, a, b = ch
        return z3.If(c, diff(a, var), diff(b, var))
    if k == z3.Z3_OP_POWER:
        a, b = ch
        if z3.is_rational_value(b) or z3.is_int_value(b):
            return b * (a ** (b - 1)) * diff(a, var)
        raise ValueError("symbolic z3 power")
    name = _uf_name(t)
    if name is not None:
        u = ch[0]
        return TABLE[name](u) * diff(u, var)
    if z3.is_app(t) and t.decl().eq(POW):
        u, v = ch
        r = None
        if _contains(u, var):
            r = v * POW(u, v - 1) * diff(u, var)
        if _contains(v, var):
            r2 = POW(u, v) * UF["log"](u) * diff(v, var)
            r = r2 if r is None else r + r2
        return r
    raise ValueError(f"no derivative rule for {t.decl().name()}")


# ----------------------------------------------------------------------------- axioms


def _collect_apps(t, acc):
    name = _uf_name(t)
    if name is not None:
        acc.setdefault(name, {})[t.children()[0].sexpr()] = t.children()[0]
    if z3.is_app(t) and t.decl().eq(POW):
        acc.setdefault("pow", {})[t.sexpr()] = t
    for c in t.children():
        _collect_apps(c, acc)


def axioms_for(terms):
    """Instances of the identities the VCs may need, for the function applications occurring in `terms`.
    Each is a true statement about the real functions on their domains (domain membership is the
    caller's `requires`)."""
    acc: dict = {}
    for t in terms:
        _collect_apps(t, acc)
    ax = []
    names = []
    trig_args = {}
    for n in ("sin", "cos", "tan"):
        trig_args.update(acc.get(n, {}))
    for u in trig_args.values():
        s, c = UF["sin"](u), UF["cos"](u)
        ax.append(s * s + c * c == 1)
        names.append("sin^2+cos^2=1")
    for u in acc.get("tan", {}).values():
        ax.append(UF["tan"](u) * UF["cos"](u) == UF["sin"](u))
        names.append("tan*cos=sin")
    hyp_args = {}
    for n in ("sinh", "cosh", "tanh"):
        hyp_args.update(acc.get(n, {}))
    for u in hyp_args.values():
        s, c = UF["sinh"](u), UF["cosh"](u)
        ax.append(c * c - s * s == 1)
        ax.append(c >= 1)
        names.append("cosh^2-sinh^2=1, cosh>=1")
    for u in acc.get("tanh", {}).values():
        ax.append(UF["tanh"](u) * UF["cosh"](u) == UF["sinh"](u))
        names.append("tanh*cosh=sinh")
    for u in acc.get("exp", {}).values():
        ax.append(UF["exp"](u) > 0)
        names.append("exp>0")
    for u in acc.get("sqrt", {}).values():
        q = UF["sqrt"](u)
        ax.append(z3.Implies(u >= 0, z3.And(q >= 0, q * q == u)))
        names.append("sqrt(u)^2=u, sqrt>=0 (u>=0)")
    pows = list(acc.get("pow", {}).values())
    for p in pows:
        u, v = p.children()
        ax.append(z3.Implies(u > 0, p > 0))
        names.append("pow(u,v)>0 (u>0)")
    for p in pows:
        for q in pows:
            if p.eq(q):
                continue
            (u, v), (u2, v2) = p.children(), q.children()
            if u.eq(u2):
                d = z3.simplify(v - v2)
                if z3.is_rational_value(d) and d.numerator_as_long() == 1 and d.denominator_as_long() == 1:
                    ax.append(z3.Implies(u != 0, p == q * u))
                    names.append("pow(u,v)=pow(u,v-1)*u")
    return ax, sorted(set(names))


# ----------------------------------------------------------------------------- self check

_PY = {
    "exp": math.exp, "log": math.log, "sin": math.sin, "cos": math.cos, "tan": math.tan,
    "arcsin": math.asin, "arccos": math.acos, "arctan": math.atan, "sinh": math.sinh, "cosh": math.cosh,
    "tanh": math.tanh, "arcsinh": math.asinh, "arccosh": math.acosh, "arctanh": math.atanh, "sqrt": math.sqrt,
}
_DOM = {
    "log": (0.2, 5), "arcsin": (-0.9, 0.9), "arccos": (-0.9, 0.9), "arccosh": (1.2, 5), "arctanh": (-0.9, 0.9),
    "sqrt": (0.2, 5), "tan": (-1.2, 1.2),
}


def _evalf(t, env):
    if z3.is_rational_value(t):
        return t.numerator_as_long() / t.denominator_as_long()
    if z3.is_int_value(t):
        return float(t.as_long())
    s = t.sexpr()
    if s in env:
        return env[s]
    k = t.decl().kind()
    ch = [_evalf(c, env) for c in t.children()] if k != z3.Z3_OP_ITE else None
    if k == z3.Z3_OP_ADD:
        return sum(ch)
    if k == z3.Z3_OP_SUB:
        r = ch[0]
        for c in ch[1:]:
            r -= c
        return r
    if k == z3.Z3_OP_UMINUS:
        return -ch[0]
    if k == z3.Z3_OP_MUL:
        r = 1.0
        for c in ch:
            r *= c
        return r
    if k == z3.Z3_OP_DIV:
        return ch[0] / ch[1]
    if k == z3.Z3_OP_POWER:
        return ch[0] ** ch[1]
    name = _uf_name(t)
    if name is not None:
        return _PY[name](ch[0])
    if z3.is_app(t) and t.decl().eq(POW):
        return ch[0] ** ch[1]
    raise ValueError(f"cannot evaluate {t}")


def selfcheck(seed=0, n=20):
    """Finite-difference cross-check of the derivative table.  Returns number of comparisons."""
    rng = random.Random(seed)
    x = z3.Real("__x")
    cnt = 0
    for name in TABLE:
        lo, hi = _DOM.get(name, (-2, 2))
        d = diff(UF[name](x * x + x) if name in ("exp", "sin", "cos", "sinh", "cosh", "tanh", "arctan", "arcsinh") else UF[name](x), x)
        f = UF[name](x * x + x) if name in ("exp", "sin", "cos", "sinh", "cosh", "tanh", "arctan", "arcsinh") else UF[name](x)
        for _ in range(n):
            v = rng.uniform(lo, hi) if name in _DOM else rng.uniform(-1, 1)
            h = 1e-6
            fd = (_evalf(f, {x.sexpr(): v + h}) - _evalf(f, {x.sexpr(): v - h})) / (2 * h)
            an = _evalf(d, {x.sexpr(): v})
            if abs(fd - an) > 1e-5 * max(1, abs(an)):
                raise AssertionError(f"derivative table entry {name} disagrees with finite differences at {v}: {an} vs {fd}")
            cnt += 1
    # pow
    y = z3.Real("__y")
    f = POW(x, y)
    for var in (x, y):
        d = diff(f, var)
        for _ in range(n):
            a, b = rng.uniform(0.3, 3), rng.uniform(-2, 2)
            h = 1e-6
            e = {x.sexpr(): a, y.sexpr(): b}
            ep, em = dict(e), dict(e)
            ep[var.sexpr()] += h
            em[var.sexpr()] -= h
            fd = (_evalf(f, ep) - _evalf(f, em)) / (2 * h)
            an = _evalf(d, e)
            if abs(fd - an) > 1e-5 * max(1, abs(an)):
                raise AssertionError("pow derivative disagrees with finite differences")
            cnt += 1
    return cnt


# ----------------------------------------------------------------------------- polynomial identities (Groebner back end)


def _to_sympy(t, table):
    import sympy as sp

    if z3.is_rational_value(t):
        return sp.Rational(t.numerator_as_long(), t.denominator_as_long())
    if z3.is_int_value(t):
        return sp.Integer(t.as_long())
    k = t.decl().kind()
    ch = t.children()
    if k == z3.Z3_OP_ADD:
        return sp.Add(*[_to_sympy(c, table) for c in ch])
    if k == z3.Z3_OP_SUB:
        r = _to_sympy(ch[0], table)
        for c in ch[1:]:
            r = r - _to_sympy(c, table)
        return r
    if k == z3.Z3_OP_UMINUS:
        return -_to_sympy(ch[0], table)
    if k == z3.Z3_OP_MUL:
        return sp.Mul(*[_to_sympy(c, table) for c in ch])
    if k == z3.Z3_OP_DIV:
        return _to_sympy(ch[0], table) / _to_sympy(ch[1], table)
    if k == z3.Z3_OP_TO_REAL:
        return _to_sympy(ch[0], table)
    if k == z3.Z3_OP_POWER and (z3.is_int_value(ch[1]) or (z3.is_rational_value(ch[1]) and ch[1].denominator_as_long() == 1)):
        return _to_sympy(ch[0], table) ** int(ch[1].numerator_as_long() if z3.is_rational_value(ch[1]) else ch[1].as_long())
    # anything else (constants, applications of uninterpreted functions, ite, ...) is an indeterminate, keyed structurally
    key = t.sexpr()
    if key not in table:
        table[key] = sp.Symbol(f"g{len(table)}", real=True)
    return table[key]


def groebner_identity(lhs, rhs, relations, timeout_s=60):
    """Decide lhs == rhs as an identity of rational functions modulo the polynomial relations `a == b`
    (ideal membership of the numerator, sympy Groebner basis).  Sound when all denominators are non-zero
    (the caller's requires).  Returns 'discharged' or 'undecided' (never 'refuted')."""
    import sympy as sp

    table: dict = {}
    try:
        dens = []
        num, den = sp.fraction(sp.together(_to_sympy(lhs, table) - _to_sympy(rhs, table)))
        dens.append(den)
        rels = []
        for a, b in relations:
            r, d = sp.fraction(sp.together(_to_sympy(a, table) - _to_sympy(b, table)))
            dens.append(d)
            r = sp.expand(r)
            if r != 0:
                rels.append(r)
        num = sp.expand(num)
        if num == 0:
            return "discharged"
        # every denominator is non-zero (caller's requires): adjoin an inverse w_f of each denominator factor f
        # (f * w_f = 1), so that multiples f^k * p of a goal p in the ideal give p itself (Rabinowitsch trick)
        seen = set()
        for d in dens:
            for f, _m in sp.factor_list(sp.expand(d))[1]:
                if f.free_symbols and f not in seen:
                    seen.add(f)
                    rels.append(sp.expand(f * sp.Symbol(f"w{len(seen)}", real=True) - 1))
        gens = sorted(set().union(*[e.free_symbols for e in rels + [num]]), key=lambda s: s.name)
        if not rels:
            return "undecided"
        G = sp.groebner(rels, *gens, order="grevlex")
        _, rem = G.reduce(num)
        return "discharged" if rem == 0 else "undecided"
    except Exception:
        return "undecided"
