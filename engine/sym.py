"""pse core: symbolic scalar proxies, path exploration by replay, obligations.

The real porepy functions are *called* with these proxies.  A `SymBool` asked for its truth
value forks the path; paths are enumerated by re-running the function with decision prefixes.
"""
from __future__ import annotations

import fractions
import itertools
import math
import time

import numpy as np
import z3

# --------------------------------------------------------------------------- context


class EngineLimit(Exception):
    """The code left the fragment the engine models (not a verdict)."""


class PathStop(Exception):
    """Current path ends here (cut-point, infeasible, assumption false)."""


class Ctx:
    current: "Ctx | None" = None

    def __init__(self, prefix=(), feas_timeout_ms=10000):
        self.prefix = list(prefix)
        self.decisions = []  # list[bool]
        self.alts = []  # prefixes to explore
        self.pc = []  # list of z3 BoolRef
        self.solver = z3.Solver()
        self.solver.set("timeout", feas_timeout_ms)
        self.counter = {}
        self.results = []  # (name, status, model|None, seconds, backend)
        self.trace = []  # free-form event log (for ghost state)
        self.max_decisions = 400

    # -- naming
    def fresh_name(self, base):
        k = self.counter.get(base, 0)
        self.counter[base] = k + 1
        return f"{base}!{k}" if k else base

    def real(self, base):
        return SymReal(z3.Real(self.fresh_name(base)))

    def int(self, base):
        return SymInt(z3.Int(self.fresh_name(base)))

    def bool(self, base):
        return SymBool(z3.Bool(self.fresh_name(base)))

    # -- path condition
    def assume(self, cond):
        t = _bterm(cond)
        t = z3.simplify(t)
        if z3.is_false(t):
            raise PathStop("assumption false")
        if z3.is_true(t):
            return
        self.pc.append(t)
        if not has_quantifier(t):
            # the feasibility solver only sees the quantifier-free part of the path condition: fewer constraints can
            # only make more paths feasible (sound), and z3 then answers in milliseconds instead of timing out
            self.solver.add(t)

    def add_axiom(self, t):
        """quantified background fact: part of every obligation's hypotheses, not of the feasibility checks"""
        self.pc.append(t)

    def feasible(self, extra=None):
        r = self.solver.check(*([extra] if extra is not None else []))
        return r != z3.unsat  # unknown counts as feasible (sound: more paths)

    def branch(self, term) -> bool:
        t = z3.simplify(term)
        if z3.is_true(t):
            return True
        if z3.is_false(t):
            return False
        k = len(self.decisions)
        if k >= self.max_decisions:
            raise EngineLimit("too many decisions on one path (unbounded loop over a symbolic condition?)")
        if k < len(self.prefix):
            v = self.prefix[k]
        else:
            can_t = self.feasible(t)
            can_f = self.feasible(z3.Not(t))
            if can_t and can_f:
                v = True
                self.alts.append(self.decisions + [False])
            elif can_t:
                v = True
            elif can_f:
                v = False
            else:
                raise PathStop("infeasible path")
        self.decisions.append(v)
        c = t if v else z3.Not(t)
        self.pc.append(c)
        if not has_quantifier(c):
            self.solver.add(c)
        return v

    # -- obligations
    def prove(self, name, cond, timeout_ms=10000, expect_refuted=False):
        """Check PC => cond.  Returns status in {'discharged','refuted','undecided'}."""
        goal = _bterm(cond)
        if expect_refuted:
            timeout_ms = min(timeout_ms, 3000)  # a canary only has to be *not discharged*
        t0 = time.time()
        status, model, backend = discharge(self.pc, goal, timeout_ms)
        dt = time.time() - t0
        self.results.append(
            {"name": name, "status": status, "model": model, "s": dt, "backend": backend, "canary": expect_refuted,
             "decisions": list(self.decisions), "goal": goal, "pc": list(self.pc)}
        )
        return status


def robust_model(r, margins, timeout_ms=5000):
    """A second counter-model of a refuted obligation that also satisfies ``margins`` (z3 Bool terms keeping the inputs away from
    degenerate values such as zeros, which floating-point replay cannot distinguish).  Returns the model, or None: the original
    counter-model stands either way -- this only serves native replay."""
    try:
        s = z3.Solver()
        s.set("timeout", timeout_ms)
        s.add(*[c for c in r["pc"] if not has_quantifier(c)])
        s.add(z3.Not(r["goal"]))
        s.add(*margins)
        if s.check() == z3.sat:
            return s.model()
    except z3.Z3Exception:
        pass
    return None


def has_quantifier(t):
    seen = set()
    stack = [t]
    while stack:
        e = stack.pop()
        if z3.is_quantifier(e):
            return True
        i = e.get_id()
        if i in seen:
            continue
        seen.add(i)
        stack.extend(e.children())
    return False


def discharge(pc, goal, timeout_ms=10000):
    """PC ∧ ¬goal unsat?  z3 first, cvc5 on unknown."""
    s = z3.Solver()
    s.set("timeout", timeout_ms)
    s.add(*pc)
    s.add(z3.Not(goal))
    r = s.check()
    if r == z3.unsat:
        return "discharged", None, "z3"
    if r == z3.sat:
        return "refuted", s.model(), "z3"
    # try tactic-based nlsat
    try:
        t = z3.Then("simplify", "solve-eqs", "qfnra-nlsat").solver()
        t.set("timeout", timeout_ms)
        t.add(*pc)
        t.add(z3.Not(goal))
        r = t.check()
        if r == z3.unsat:
            return "discharged", None, "z3-nlsat"
        if r == z3.sat:
            return "refuted", t.model(), "z3-nlsat"
    except z3.Z3Exception:
        pass
    quants = [a for a in pc if z3.is_quantifier(a)]
    if quants:
        # z3 rarely answers `sat` in the presence of quantified axioms.  Look for a counter-model of the
        # ground instantiation of the axioms at the integer terms of the query (two rounds); such a model
        # is a *candidate* refutation (it satisfies finitely many instances of the axioms only).
        m = _refute_by_instantiation([a for a in pc if not z3.is_quantifier(a)], quants, goal, timeout_ms)
        if m is not None:
            return "refuted", m, "z3-ground-instances"
        return "undecided", None, "z3"
    r2 = _cvc5_check(s.to_smt2(), timeout_ms)
    if r2 == "unsat":
        return "discharged", None, "cvc5"
    return "undecided", None, "z3+cvc5"


def _int_subterms(e, acc, depth=0):
    if z3.is_quantifier(e) or depth > 40:
        return
    if z3.is_app(e):
        if e.sort() == z3.IntSort() and not z3.is_int_value(e) and e.num_args() <= 1 or (z3.is_const(e) and e.sort() == z3.IntSort() and not z3.is_int_value(e)):
            acc[e.sexpr()] = e
        for c in e.children():
            _int_subterms(c, acc, depth + 1)


def _refute_by_instantiation(ground, quants, goal, timeout_ms):
    base = list(ground) + [z3.Not(goal)]
    insts = []
    seen = set()
    for _round in range(2):
        terms = {}
        for e in base + insts:
            _int_subterms(e, terms)
        if len(terms) > 80:
            break
        for q in quants:
            if q.num_vars() != 1 or q.var_sort(0) != z3.IntSort():
                continue
            for key, t in terms.items():
                k = (q.get_id(), key)
                if k in seen:
                    continue
                seen.add(k)
                insts.append(z3.substitute_vars(q.body(), t))
    s = z3.Solver()
    s.set("timeout", timeout_ms)
    s.add(*base)
    s.add(*insts)
    if s.check() == z3.sat:
        return s.model()
    return None


def _cvc5_check(smt2: str, timeout_ms: int):
    import shutil
    import subprocess
    import tempfile

    exe = shutil.which("cvc5")
    if not exe:
        return "unknown"
    with tempfile.NamedTemporaryFile("w", suffix=".smt2", delete=True, dir="/var/tmp") as f:
        f.write("(set-logic ALL)\n" + smt2)
        f.flush()
        try:
            p = subprocess.run(
                [exe, "--nl-cov", f"--tlimit={timeout_ms}", f.name], capture_output=True, text=True, timeout=timeout_ms / 1000 + 5
            )
            out = p.stdout.strip().splitlines()
            return out[0] if out else "unknown"
        except Exception:
            return "unknown"


def explore(fn, max_paths=2000, feas_timeout_ms=10000):
    """Run fn(ctx) once per feasible path.  Returns list of (ctx, outcome) where outcome is
    ('return', value) | ('raise', exc) | ('stop', reason) | ('limit', msg)."""
    out = []
    work = [[]]
    while work:
        prefix = work.pop()
        ctx = Ctx(prefix, feas_timeout_ms)
        Ctx.current = ctx
        try:
            try:
                val = fn(ctx)
                outcome = ("return", val)
            except PathStop as e:
                outcome = ("stop", str(e))
            except EngineLimit as e:
                outcome = ("limit", str(e))
            except RecursionError as e:
                outcome = ("limit", "recursion: " + str(e))
            except Exception as e:  # a real exception raised by the code under test
                outcome = ("raise", e)
        finally:
            Ctx.current = None
        out.append((ctx, outcome))
        work.extend(ctx.alts)
        if len(out) > max_paths:
            raise EngineLimit(f"more than {max_paths} paths")
    return out


# --------------------------------------------------------------------------- helpers


def _is_num(x):
    return isinstance(x, (int, float, fractions.Fraction, np.integer, np.floating)) and not isinstance(x, bool)


def rterm(x):
    """z3 Real term of a scalar-like."""
    if isinstance(x, SymReal):
        return x.t
    if isinstance(x, SymInt):
        return z3.ToReal(x.t)
    if isinstance(x, SymBool):
        return z3.If(x.t, z3.RealVal(1), z3.RealVal(0))
    if isinstance(x, (bool, np.bool_)):
        return z3.RealVal(1 if x else 0)
    if isinstance(x, (int, np.integer)):
        return z3.RealVal(int(x))
    if isinstance(x, fractions.Fraction):
        return z3.RealVal(str(x))
    if isinstance(x, (float, np.floating)):
        x = float(x)
        if math.isinf(x) or math.isnan(x):
            raise EngineLimit("inf/nan constant")
        if x == math.pi:
            return PI
        if x == math.e:
            return E
        # float constants that are small rational multiples of pi or 1/pi (e.g. 2*np.pi**(-1)) keep
        # their symbolic meaning instead of a rounded decimal
        for p in (1, 2, 3, 4):
            for q in (1, 2, 3, 4, 180):
                for sgn in (1, -1):
                    if x == sgn * p * math.pi / q or x == sgn * (p / q) * math.pi:
                        return z3.RealVal(sgn * p) * PI / z3.RealVal(q)
                    if x == sgn * p / (q * math.pi) or x == sgn * (p / q) * math.pi ** (-1) or x == sgn * (p / q) / math.pi:
                        return z3.RealVal(sgn * p) / (z3.RealVal(q) * PI)
        return z3.RealVal(repr(x))
    if isinstance(x, z3.ArithRef):
        return z3.ToReal(x) if x.is_int() else x
    if isinstance(x, np.ndarray) and x.ndim == 0:
        return rterm(x.item())
    raise EngineLimit(f"cannot make a real term of {type(x)}")


def iterm(x):
    if isinstance(x, SymInt):
        return x.t
    if isinstance(x, (bool, np.bool_)):
        return z3.IntVal(1 if x else 0)
    if isinstance(x, (int, np.integer)):
        return z3.IntVal(int(x))
    if isinstance(x, z3.ArithRef) and x.is_int():
        return x
    if isinstance(x, SymReal):
        raise EngineLimit("real used where an integer is needed")
    if isinstance(x, (float, np.floating)) and float(x).is_integer():
        return z3.IntVal(int(x))
    raise EngineLimit(f"cannot make an int term of {type(x)}")


def _bterm(x):
    if isinstance(x, SymBool):
        return x.t
    if isinstance(x, (bool, np.bool_)):
        return z3.BoolVal(bool(x))
    if isinstance(x, z3.BoolRef):
        return x
    raise EngineLimit(f"cannot make a bool term of {type(x)}")


PI = z3.Real("pi")
E = z3.Real("euler_e")
CONST_AXIOMS = [PI > z3.RealVal("3.14159265358979"), PI < z3.RealVal("3.14159265358980"),
                E > z3.RealVal("2.718281828459"), E < z3.RealVal("2.718281828460")]

# uninterpreted transcendental functions
_R = z3.RealSort()
UF = {n: z3.Function(n, _R, _R) for n in
      ["exp", "log", "sin", "cos", "tan", "arcsin", "arccos", "arctan", "sinh", "cosh", "tanh",
       "arcsinh", "arccosh", "arctanh", "sqrt"]}
POW = z3.Function("pow", _R, _R, _R)


def is_sym(x):
    return isinstance(x, (SymReal, SymInt, SymBool))


def wrap(t):
    if isinstance(t, z3.BoolRef):
        return SymBool(t)
    if isinstance(t, z3.ArithRef):
        return SymInt(t) if t.is_int() else SymReal(t)
    return t


def concrete(x):
    """If the proxy's term simplifies to a constant return the Python value, else the proxy."""
    if isinstance(x, SymBool):
        t = z3.simplify(x.t)
        if z3.is_true(t):
            return True
        if z3.is_false(t):
            return False
        return x
    if isinstance(x, SymInt):
        t = z3.simplify(x.t)
        if z3.is_int_value(t):
            return t.as_long()
        return x
    return x


# --------------------------------------------------------------------------- proxies


class SymBool:
    _pretend = (bool, np.bool_)
    __array_ufunc__ = None

    def __init__(self, t):
        self.t = t

    def __array_function__(self, func, types, args, kwargs):
        from . import arrays

        return arrays.array_function(func, types, args, kwargs)

    def sum(self, *a, **k):
        return self._as_int()

    def __bool__(self):
        c = Ctx.current
        if c is None:
            t = z3.simplify(self.t)
            if z3.is_true(t):
                return True
            if z3.is_false(t):
                return False
            raise EngineLimit("SymBool truth value outside a path context")
        return c.branch(self.t)

    def __and__(self, o):
        return SymBool(z3.And(self.t, _bterm(o)))

    __rand__ = __and__

    def __or__(self, o):
        return SymBool(z3.Or(self.t, _bterm(o)))

    __ror__ = __or__

    def __invert__(self):
        return SymBool(z3.Not(self.t))

    def __xor__(self, o):
        return SymBool(z3.Xor(self.t, _bterm(o)))

    __rxor__ = __xor__

    def __eq__(self, o):
        return SymBool(self.t == _bterm(o))

    def __ne__(self, o):
        return SymBool(self.t != _bterm(o))

    def __hash__(self):
        return id(self)

    def __repr__(self):
        return f"SymBool({z3.simplify(self.t)})"

    def __format__(self, spec):
        return repr(self)

    # arithmetic on booleans (True == 1)
    def _as_int(self):
        return SymInt(z3.If(self.t, z3.IntVal(1), z3.IntVal(0)))

    def __add__(self, o):
        return self._as_int() + o

    __radd__ = __add__

    def __mul__(self, o):
        return self._as_int() * o

    __rmul__ = __mul__

    def astype(self, *_a, **_k):
        return self


class _Num:
    __array_priority__ = 1000

    def __hash__(self):
        return id(self)

    def __format__(self, spec):
        return repr(self)

    def __repr__(self):
        return f"{type(self).__name__}({z3.simplify(self.t)})"

    # numpy protocol: scalars meeting ufuncs
    def __array_ufunc__(self, ufunc, method, *inputs, **kwargs):
        from . import shims

        return shims.scalar_ufunc(ufunc, method, inputs, kwargs)

    def __array_function__(self, func, types, args, kwargs):
        from . import arrays

        return arrays.array_function(func, types, args, kwargs)

    @property
    def ndim(self):
        return 0

    @property
    def shape(self):
        return ()

    @property
    def size(self):
        return 1

    def item(self):
        return self

    def copy(self):
        return self

    def astype(self, dt, *a, **k):
        dt = {"sym_float": float, "sym_int": int}.get(getattr(dt, "__name__", None), dt)
        if dt in (float, np.float64, "float"):
            return SymReal(rterm(self))
        if dt in (int, np.int64, np.int32, "int"):
            if isinstance(self, SymInt):
                return self
            raise EngineLimit("real -> int astype")
        return self


def _both_int(a, b):
    return isinstance(a, (SymInt, int, np.integer, bool)) and isinstance(b, (SymInt, int, np.integer, bool))


def _arith(a, b, op):
    """a op b on scalar-likes; returns SymInt if both int and op closed on ints."""
    if isinstance(b, np.ndarray) and b.ndim > 0:
        return NotImplemented
    if not (is_sym(b) or _is_num(b) or isinstance(b, (bool, np.bool_)) or (isinstance(b, np.ndarray) and b.ndim == 0)):
        return NotImplemented
    if not (is_sym(a) or _is_num(a) or isinstance(a, (bool, np.bool_)) or (isinstance(a, np.ndarray) and a.ndim == 0)):
        return NotImplemented
    if _both_int(a, b) and op in ("+", "-", "*"):
        x, y = iterm(a), iterm(b)
        return SymInt({"+": x + y, "-": x - y, "*": x * y}[op])
    x, y = rterm(a), rterm(b)
    if op == "+":
        return SymReal(x + y)
    if op == "-":
        return SymReal(x - y)
    if op == "*":
        return SymReal(x * y)
    if op == "/":
        return SymReal(x / y)
    raise AssertionError(op)


def sym_pow(base, expo):
    """base ** expo with the conventions of DESIGN §2.1 (integer constants expand to products,
    ±0.5 to sqrt, anything else to the uninterpreted pow)."""
    if is_sym(expo):
        e = z3.simplify(rterm(expo))
        if z3.is_rational_value(e):
            expo = fractions.Fraction(e.numerator_as_long(), e.denominator_as_long())
        elif z3.is_int_value(e):
            expo = e.as_long()
    if _is_num(expo):
        f = fractions.Fraction(expo).limit_denominator(10**9) if not isinstance(expo, fractions.Fraction) else expo
        if isinstance(expo, (float, np.floating)) and float(f) != float(expo):
            f = None
        if f is not None and f.denominator == 1 and abs(f.numerator) <= 8:
            n = f.numerator
            bt = rterm(base)
            if _both_int(base, 0) and n >= 0:
                bt = iterm(base)
                r = z3.IntVal(1)
                for _ in range(n):
                    r = r * bt
                return SymInt(r)
            r = z3.RealVal(1)
            for _ in range(abs(n)):
                r = r * bt
            return SymReal(r if n >= 0 else 1 / r)
        if f is not None and f.denominator == 2 and abs(f.numerator) == 1:
            s = UF["sqrt"](rterm(base))
            _note_fun("sqrt", rterm(base))
            return SymReal(s if f > 0 else 1 / s)
    return SymReal(POW(rterm(base), rterm(expo)))


USED_FUN_ARGS: list = []  # (name, arg term) pairs touched on the current run (for axiom instantiation)


def _note_fun(name, arg):
    USED_FUN_ARGS.append((name, arg))


class SymReal(_Num):
    _pretend = (float, np.floating, np.float64)

    def __init__(self, t):
        self.t = t if not (isinstance(t, z3.ArithRef) and t.is_int()) else z3.ToReal(t)

    def __add__(self, o):
        return _arith(self, o, "+")

    def __radd__(self, o):
        return _arith(o, self, "+")

    def __sub__(self, o):
        return _arith(self, o, "-")

    def __rsub__(self, o):
        return _arith(o, self, "-")

    def __mul__(self, o):
        return _arith(self, o, "*")

    def __rmul__(self, o):
        return _arith(o, self, "*")

    def __truediv__(self, o):
        return _arith(self, o, "/")

    def __rtruediv__(self, o):
        return _arith(o, self, "/")

    def __pow__(self, o):
        if not (is_sym(o) or _is_num(o)):
            return NotImplemented
        return sym_pow(self, o)

    def __rpow__(self, o):
        if not (is_sym(o) or _is_num(o)):
            return NotImplemented
        return sym_pow(o, self)

    def __neg__(self):
        return SymReal(-self.t)

    def __pos__(self):
        return self

    def __abs__(self):
        return SymReal(z3.If(self.t >= 0, self.t, -self.t))

    def _cmp(self, o, op):
        if not (is_sym(o) or _is_num(o) or (isinstance(o, np.ndarray) and o.ndim == 0)):
            return NotImplemented
        a, b = rterm(self), rterm(o)
        return concrete(SymBool({"<": a < b, "<=": a <= b, ">": a > b, ">=": a >= b, "==": a == b, "!=": a != b}[op]))

    def __lt__(self, o):
        return self._cmp(o, "<")

    def __le__(self, o):
        return self._cmp(o, "<=")

    def __gt__(self, o):
        return self._cmp(o, ">")

    def __ge__(self, o):
        return self._cmp(o, ">=")

    def __eq__(self, o):
        return self._cmp(o, "==")

    def __ne__(self, o):
        return self._cmp(o, "!=")

    __hash__ = _Num.__hash__

    # methods numpy's object loops (and our ufunc dispatcher) call
    def _uf(self, name):
        _note_fun(name, self.t)
        return SymReal(UF[name](self.t))

    def sqrt(self):
        return self._uf("sqrt")

    def exp(self):
        return self._uf("exp")

    def log(self):
        return self._uf("log")

    def sin(self):
        return self._uf("sin")

    def cos(self):
        return self._uf("cos")

    def tan(self):
        return self._uf("tan")

    def arcsin(self):
        return self._uf("arcsin")

    def arccos(self):
        return self._uf("arccos")

    def arctan(self):
        return self._uf("arctan")

    def sinh(self):
        return self._uf("sinh")

    def cosh(self):
        return self._uf("cosh")

    def tanh(self):
        return self._uf("tanh")

    def arcsinh(self):
        return self._uf("arcsinh")

    def arccosh(self):
        return self._uf("arccosh")

    def arctanh(self):
        return self._uf("arctanh")

    def conjugate(self):
        return self

    def sign(self):
        return SymReal(z3.If(self.t > 0, z3.RealVal(1), z3.If(self.t < 0, z3.RealVal(-1), z3.RealVal(0))))


class SymInt(_Num):
    _pretend = (int, np.integer, np.int64)

    def __init__(self, t):
        self.t = t

    def __index__(self):
        t = z3.simplify(self.t)
        if z3.is_int_value(t):
            return t.as_long()
        raise EngineLimit("symbolic integer used as a concrete index/size")

    def __add__(self, o):
        return _arith(self, o, "+")

    def __radd__(self, o):
        return _arith(o, self, "+")

    def __sub__(self, o):
        return _arith(self, o, "-")

    def __rsub__(self, o):
        return _arith(o, self, "-")

    def __mul__(self, o):
        if isinstance(o, list) and len(o) == 1:
            return ConstSeq(o[0], self)
        return _arith(self, o, "*")

    def __rmul__(self, o):
        if isinstance(o, list) and len(o) == 1:
            return ConstSeq(o[0], self)  # [x] * n with symbolic n
        return _arith(o, self, "*")

    def __truediv__(self, o):
        return _arith(self, o, "/")

    def __rtruediv__(self, o):
        return _arith(o, self, "/")

    def __floordiv__(self, o):
        if _both_int(self, o):
            return SymInt(iterm(self) / iterm(o))  # z3 int division (floor for positive divisor)
        return NotImplemented

    def __mod__(self, o):
        if _both_int(self, o):
            return SymInt(iterm(self) % iterm(o))
        return NotImplemented

    def __pow__(self, o):
        return sym_pow(self, o)

    def __rpow__(self, o):
        return sym_pow(o, self)

    def __neg__(self):
        return SymInt(-self.t)

    def __pos__(self):
        return self

    def __abs__(self):
        return SymInt(z3.If(self.t >= 0, self.t, -self.t))

    def _cmp(self, o, op):
        if not (is_sym(o) or _is_num(o)):
            return NotImplemented
        if _both_int(self, o):
            a, b = iterm(self), iterm(o)
        else:
            a, b = rterm(self), rterm(o)
        return concrete(SymBool({"<": a < b, "<=": a <= b, ">": a > b, ">=": a >= b, "==": a == b, "!=": a != b}[op]))

    def __lt__(self, o):
        return self._cmp(o, "<")

    def __le__(self, o):
        return self._cmp(o, "<=")

    def __gt__(self, o):
        return self._cmp(o, ">")

    def __ge__(self, o):
        return self._cmp(o, ">=")

    def __eq__(self, o):
        return self._cmp(o, "==")

    def __ne__(self, o):
        return self._cmp(o, "!=")

    __hash__ = _Num.__hash__


# --------------------------------------------------------------------------- model -> python values


def model_value(model, term):
    v = model.eval(term, model_completion=True)
    if z3.is_int_value(v):
        return v.as_long()
    if z3.is_rational_value(v):
        return fractions.Fraction(v.numerator_as_long(), v.denominator_as_long())
    if z3.is_algebraic_value(v):
        a = v.approx(20)
        return fractions.Fraction(a.numerator_as_long(), a.denominator_as_long())
    if z3.is_true(v):
        return True
    if z3.is_false(v):
        return False
    return str(v)


class ConstSeq:
    """[x] * n for symbolic n: a list of n copies of x"""

    _pretend = (list,)

    def __init__(self, value, n):
        self.value, self.n = value, n

    def _sym_len(self):
        return self.n

    def __getitem__(self, k):
        return self.value
