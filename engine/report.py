"""Evidence, verdicts, known findings, replay files.  Shared by every property check.

Exit codes (DESIGN §3): 0 held / 1 violation / 2 undecided / 3 checker crash.
"""
from __future__ import annotations

import json
import os
import random
import re
import sys
import time
from contextlib import contextmanager
from pathlib import Path

ROOT = Path(__file__).resolve().parent.parent
KNOWN = ROOT / "KNOWN_FINDINGS.txt"

COMMON_ASSUMPTIONS = [
    "IEEE doubles treated as mathematical reals, integers as mathematical integers (no overflow) in every "
    "discharged obligation; run-time sweeps use the real floating-point code with stated tolerances",
    "CPython evaluation order / attribute lookup / operator dispatch are those of the interpreter running the "
    "real function objects (not modelled)",
    "sidecar contracts (the specification) are reviewed against the property statement, not verified",
    "termination is not proved",
]


def _jsonable(x, depth=0):
    import numpy as np

    if depth > 6:
        return repr(x)[:200]
    if isinstance(x, (str, int, float, bool)) or x is None:
        return x
    if isinstance(x, (np.integer,)):
        return int(x)
    if isinstance(x, (np.floating,)):
        return float(x)
    if isinstance(x, (np.bool_,)):
        return bool(x)
    if isinstance(x, np.ndarray):
        return _jsonable(x.tolist(), depth + 1)
    if isinstance(x, dict):
        return {str(k): _jsonable(v, depth + 1) for k, v in x.items()}
    if isinstance(x, (list, tuple, set, frozenset)):
        return [_jsonable(v, depth + 1) for v in x]
    return repr(x)[:300]


class Sweep:
    """A bounded run-time contract sweep (tier B)."""

    def __init__(self, rep, name, rule, bound, exhaustive):
        self.rep, self.name, self.rule, self.bound, self.exhaustive = rep, name, rule, bound, exhaustive
        self.evaluations = 0
        self.nontrivial_keys = set()
        self.samples = []
        self.skipped = 0

    def case(self, key, nontrivial=True, sample=None):
        """Count one evaluated case.  ``key`` identifies it (distinctness is measured on keys)."""
        self.evaluations += 1
        if nontrivial:
            self.nontrivial_keys.add(key if isinstance(key, (str, int, tuple)) else repr(key))
        if sample is not None and len(self.samples) < 3:
            self.samples.append(_jsonable(sample))
        elif sample is None and len(self.samples) < 2:
            self.samples.append(_jsonable(key))

    def skip(self):
        self.skipped += 1

    def summary(self):
        return {
            "name": self.name,
            "evaluations": self.evaluations,
            "distinct_nontrivial": len(self.nontrivial_keys),
            "rule": self.rule,
            "bound": self.bound,
            "exhaustive": self.exhaustive,
            "skipped_by_requires": self.skipped,
            "samples": self.samples,
        }


class Report:
    def __init__(self, pid: str, tier: str, seed: int):
        self.pid, self.tier, self.seed = pid, tier, seed
        self.rng = random.Random(seed)
        self.t0 = time.time()
        self.obligations = []  # dicts name,tier,backend,result,solver_s
        self.sweeps: list[Sweep] = []
        self.violations = []  # dicts
        self.known_hits = []
        self.functions = []
        self.trusted = []
        self.assumptions = list(COMMON_ASSUMPTIONS)
        self.notes = []
        self.canaries_refuted = 0
        self.canaries_total = 0
        self.crosschecks = 0
        self.paths = 0
        self.undecided = []
        self.fallbacks = []  # proof not re-established -> bounded fallback
        self.level_hint = None
        self.explanation = ""
        self.extra = {}

    # ------------------------------------------------------------------ declarations
    def under_contract(self, *names):
        for n in names:
            if n not in self.functions:
                self.functions.append(n)

    def trust(self, *items):
        for i in items:
            if i not in self.trusted:
                self.trusted.append(i)

    def assume(self, *items):
        for i in items:
            if i not in self.assumptions:
                self.assumptions.append(i)

    def note(self, s):
        self.notes.append(s)
        print(f"note: {s}")

    # ------------------------------------------------------------------ obligations
    def obligation(self, name, result, tier="P", backend="z3", solver_s=0.0, detail=None):
        """result in {'discharged','refuted','undecided'}"""
        assert result in ("discharged", "refuted", "undecided"), result
        self.obligations.append(
            {"name": name, "tier": tier, "backend": backend, "result": result, "solver_s": round(solver_s, 4)}
        )
        if detail:
            self.obligations[-1]["detail"] = str(detail)[:400]
        if result == "undecided":
            self.undecided.append(name)

    def canary(self, name, refuted: bool):
        self.canaries_total += 1
        if refuted:
            self.canaries_refuted += 1
        else:
            raise CheckerError(f"canary obligation {name} was NOT refuted: the pipeline cannot see failures")

    @contextmanager
    def sweep(self, name, rule, bound, exhaustive=False):
        sw = Sweep(self, name, rule, bound, exhaustive)
        self.sweeps.append(sw)
        yield sw

    # ------------------------------------------------------------------ violations
    def violation(self, obligation, signature, inputs=None, detail="", confirmed=True, solver_output=None):
        """Record a violated obligation.  ``signature`` is a short stable description of the failing
        input / call site class used to match KNOWN_FINDINGS entries."""
        for v in self.violations:
            if v["obligation"] == obligation and v["signature"] == signature:
                v["count"] += 1
                return
        self.violations.append(
            {
                "obligation": obligation,
                "signature": signature,
                "inputs": _jsonable(inputs),
                "detail": str(detail)[:2000],
                "confirmed_on_real_code": bool(confirmed),
                "solver_output": (str(solver_output)[:4000] if solver_output is not None else None),
                "count": 1,
            }
        )

    # ------------------------------------------------------------------ finish
    def _known(self):
        out = {"finding": [], "fixed": []}
        if KNOWN.exists():
            for line in KNOWN.read_text().splitlines():
                line = line.strip()
                m = re.match(r"^(finding|fixed):\s+property=(\S+)\s+(.*)$", line)
                if m and m.group(2) == self.pid:
                    out[m.group(1)].append(m.group(3))
        return out

    def finish(self) -> int:
        known = self._known()
        new_viol = []
        for v in self.violations:
            tag = f"obligation={v['obligation']} signature={v['signature']}"
            hit = None
            for k in known["finding"]:
                if k.startswith(tag + " ") or k == tag:
                    hit = k
                    break
            if hit is not None:
                self.known_hits.append(hit)
                print(f"KNOWN-FINDING: property={self.pid} {hit}")
            else:
                new_viol.append(v)
        # replay files
        lines = []
        for v in new_viol:
            d = ROOT / "replays" / self.pid
            d.mkdir(parents=True, exist_ok=True)
            fn = d / (re.sub(r"[^A-Za-z0-9_.-]+", "_", f"{v['obligation']}__{v['signature']}")[:120] + ".json")
            fn.write_text(json.dumps({"property": self.pid, **v}, indent=1))
            tail = "" if (v["confirmed_on_real_code"] and v["inputs"] is not None) else " no-failing-input-found"
            lines.append(f"VIOLATION property={self.pid} replay={fn}{tail}")
        wall = time.time() - self.t0
        self._write_evidence(wall, len(new_viol))
        for l in lines:
            print(l)
        n_ob = len(self.obligations)
        n_dis = sum(1 for o in self.obligations if o["result"] == "discharged")
        n_ev = sum(s.evaluations for s in self.sweeps)
        print(
            f"{self.pid} [{self.tier}] obligations {n_dis}/{n_ob} discharged, sweep evaluations {n_ev}, "
            f"violations {len(new_viol)}, known findings {len(self.known_hits)}, wall {wall:.1f}s"
        )
        if new_viol:
            return 1
        if n_ob == 0 and n_ev == 0:
            print(f"CHECKER-ERROR: {self.pid} produced no obligation and no evaluation")
            return 3
        # refuted-but-known obligations are fine; undecided ones are not
        if self.undecided:
            print(f"UNDECIDED property={self.pid} obligations={self.undecided[:10]}")
            return 2
        return 0

    def _write_evidence(self, wall, nviol):
        obs = self.obligations
        n_ob = len(obs)
        n_dis = sum(1 for o in obs if o["result"] == "discharged")
        p_obs = [o for o in obs if o["tier"] == "P"]
        ps_obs = [o for o in obs if o["tier"] == "Ps"]
        n_ev = sum(s.evaluations for s in self.sweeps)
        n_nt = sum(len(s.nontrivial_keys) for s in self.sweeps)
        known_refuted = sum(1 for o in obs if o["result"] == "refuted")
        if self.level_hint:
            level = self.level_hint
        elif n_ob and not self.sweeps and n_dis == n_ob and not ps_obs:
            level = "proof"
        elif n_ob:
            level = "other"
        else:
            level = "exploration"
        cov = {
            "obligations": n_ob,
            "discharged": n_dis,
            "obligations_tier_P": len(p_obs),
            "discharged_tier_P": sum(1 for o in p_obs if o["result"] == "discharged"),
            "obligations_tier_Ps_bounded_shape": len(ps_obs),
            "discharged_tier_Ps": sum(1 for o in ps_obs if o["result"] == "discharged"),
            "refuted_listed_as_known_finding": known_refuted if not nviol else None,
            "undecided": list(self.undecided),
            "checker_cmd": f"./check {self.pid} --tier {self.tier}",
            "trusted_base": self.trusted,
            "functions_under_contract": self.functions,
            "paths": self.paths,
            "canaries_refuted": self.canaries_refuted,
            "canaries_total": self.canaries_total,
            "crosscheck_evaluations": self.crosschecks,
            "solver_time_s": round(sum(o["solver_s"] for o in obs), 3),
            "obligation_list": obs[:400],
            "evaluations": n_ev,
            "distinct_nontrivial": n_nt,
            "rule": " || ".join(f"[{s.name}] {s.rule} (bound: {s.bound})" for s in self.sweeps) or "no sweep",
            "exhaustive": bool(self.sweeps) and all(s.exhaustive for s in self.sweeps),
            "sweeps": [s.summary() for s in self.sweeps],
            "samples": [x for s in self.sweeps for x in s.samples][:6]
            or [o["name"] for o in obs[:6]],
            "bounded_fallbacks": self.fallbacks,
            "known_findings_reported": self.known_hits,
            "notes": self.notes,
            "explanation": self.explanation
            or (
                "tier P = obligations discharged for all inputs incl. all sizes; tier Ps = all values symbolic, "
                "container shapes bounded (counted as bounded, not proved); sweeps = run-time contract evaluation "
                "on the real functions over the enumerated family in 'rule' (bounded stand-in)."
            ),
        }
        cov.update(self.extra)
        ev = {
            "property_id": self.pid,
            "tier": self.tier,
            "seed": int(self.seed),
            "level": level,
            "coverage": cov,
            "assumptions": self.assumptions,
            "wall_s": round(wall, 2),
            "violations": nviol,
        }
        d = ROOT / "evidence"
        d.mkdir(exist_ok=True)
        (d / f"{self.pid}.json").write_text(json.dumps(ev, indent=1))


class CheckerError(Exception):
    pass
