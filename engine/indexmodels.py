"""Models of the numpy / scipy index-set idioms used by vectorised discretisation code (C17):

    idx = np.where(mask)[0]            -> IndexSet(n, mask)            (engine.arrays)
    np.r_[idx1, idx2], np.sort(...)    -> IndexBag: a multiset of indices of 0..n-1 known only through its support mask
    np.delete(a, bag)                  -> MaskedSel(n, not support, a)  (the entries of a that are kept, aligned to the base index)
    idx.size                           -> SymCount (number of indices in the set)
    np.ones(idx.size)                  -> MaskedSel(n, mask, 1)
    sps.coo_matrix((v, (r, c)), shape) -> SymMat with entry (i, j) = v(i) if mask(i) and c(i) == j else 0, *provided* r is the
                                          base index itself (r(i) == i, decided syntactically after z3 simplification), so
                                          that no two stored triplets share a position; a 'requires' obligation states that
                                          every stored column index lies in [0, ncols) (scipy raises otherwise)
    sps.kron(M, sps.eye(k)), k concrete -> SymMat with entry (i, j) = M(i // k, j // k) if i % k == j % k else 0

Each model states its semantics next to it and registers itself in the trusted base of the run (shims._used).
"""
from __future__ import annotations

import contextlib

import numpy as np
import scipy.sparse as sps
import z3

from . import sym
from .arrays import I0, IndexSet, MaskedSel, SymArray, SymMat, _sort_of_term
from .shims import _used
from .sym import EngineLimit, SymBool, SymInt, iterm


class SymCount(SymInt):
    """number of elements of an IndexSet"""

    def __init__(self, term, of):
        super().__init__(term)
        self.of = of


def _size_of(self):
    c = sym.Ctx.current
    reg = c.__dict__.setdefault("_counts", {})
    if id(self) not in reg:
        t = c.int("count")
        c.assume(t >= 0)
        c.assume(SymBool(t.t <= iterm(self.n)))
        reg[id(self)] = (SymCount(t.t, self), self)
    return reg[id(self)][0]


def _same(a, b):
    return z3.is_true(z3.simplify(iterm(a) == iterm(b)))


class IndexBag:
    """multiset of indices into 0..n-1, possibly unsorted / with repetitions, known through its support"""

    _pretend = (np.ndarray,)
    ndim = 1

    def __init__(self, n, support):
        self.n, self.support = n, support

    def __array_function__(self, func, types, args, kwargs):
        return indexset_function(func, args, kwargs)

    def __hash__(self):
        return id(self)


def indexset_function(func, args, kwargs):
    """numpy functions applied to index sets / index multisets (the __array_function__ protocol of IndexSet and IndexBag)"""
    if func is np.sort:
        _used("np.sort of an index multiset keeps its support")
        a = args[0]
        return a if isinstance(a, IndexBag) else IndexBag(a.n, a.mask)
    if func is np.delete:
        return m_delete(*args, **kwargs)
    if func in (np.concatenate, np.hstack):
        if kwargs.get("axis", 0) not in (0, None) or len(args) > 1 and args[1] not in (0, None):
            raise EngineLimit("concatenation of index sets along another axis")
        return _union(tuple(args[0]), func.__name__)
    raise EngineLimit(f"numpy function {getattr(func, '__name__', func)} on an index multiset")


def _union(items, what):
    if not all(isinstance(x, (IndexSet, IndexBag)) for x in items):
        raise EngineLimit(f"np.{what} mixing index sets and other arrays")
    _used("np.r_[idx1, idx2, ...] / np.concatenate / np.hstack of index sets: a multiset whose support is the union of the supports")
    n = items[0].n
    sups = []
    for x in items:
        if not _same(x.n, n):
            raise EngineLimit(f"np.{what} of index sets over different base lengths")
        sups.append(x.mask if isinstance(x, IndexSet) else x.support)
    return IndexBag(n, lambda i: z3.Or(*[s(i) for s in sups]))


class _R:
    """np.r_[...] on index sets: concatenation = multiset union"""

    def __init__(self, orig):
        self.orig = orig

    def __getitem__(self, key):
        items = key if isinstance(key, tuple) else (key,)
        if not any(isinstance(x, (IndexSet, IndexBag)) for x in items):
            return self.orig[key]
        return _union(items, "r_")


def m_delete(arr, obj, axis=None):
    if isinstance(obj, IndexSet):
        sup = obj.mask
    elif isinstance(obj, IndexBag):
        sup = obj.support
    else:
        raise EngineLimit("np.delete with indices that are not an index set")
    if not isinstance(arr, SymArray):
        raise EngineLimit("np.delete of a non-1-D-proxy array")
    if not _same(arr.n, obj.n):
        raise EngineLimit("np.delete: index set over a different base length")
    _used("np.delete(a, idx): the entries a[i] with i not in idx, in order (repetitions in idx are irrelevant)")
    return MaskedSel(arr.n, lambda i: z3.Not(sup(i)), arr._elem, arr.sort)


def as_sel(x):
    if isinstance(x, MaskedSel):
        return x
    if isinstance(x, IndexSet):
        return MaskedSel(x.n, x.mask, lambda i: i, "int")
    raise EngineLimit(f"coo_matrix triplet component of type {type(x).__name__}")


def _coo_full(v, r, c, shape):
    """sps.coo_matrix((v, (r, c)), shape) for three full 1-D arrays of one length n where the COLUMN index array is the base index
    itself (c[k] == k, decided syntactically): column k holds exactly one stored entry, v[k] at row r[k]."""
    if not (_same(v.n, r.n) and _same(v.n, c.n)):
        raise EngineLimit("coo_matrix triplet arrays of different lengths")
    if not z3.simplify(c._elem(I0)).eq(I0):
        raise EngineLimit("coo_matrix: column indices are not the base index (duplicates cannot be excluded)")
    if shape is None:
        raise EngineLimit("coo_matrix without shape")
    nr, nc = shape
    ctx = sym.Ctx.current
    k = ctx.int("k_coo")
    inside = z3.Implies(z3.And(k.t >= 0, k.t < iterm(v.n)), z3.And(r._elem(k.t) >= 0, r._elem(k.t) < iterm(nr), k.t < iterm(nc)))
    ctx.prove("requires of sps.coo_matrix: every stored (row, column) index lies inside the shape", SymBool(inside))
    _used("sps.coo_matrix((v, (r, c)), shape) with c the base index 0..n-1: entry (i, j) = v[j] if 0 <= j < n and r[j] == i, else 0; "
          ".tocsr()/.tocsc() keep the entries")
    n = iterm(v.n)
    rv, vv = r._elem, v._elem

    def entry(i, j):
        val = vv(j)
        if val.sort() == z3.IntSort():
            val = z3.ToReal(val)
        return z3.If(z3.And(j >= 0, j < n, rv(j) == i), val, z3.RealVal(0))

    m = SymMat(nr, nc, entry, "coo")
    m.stored = v.n  # one stored entry per column 0..n-1 (explicit zeros are kept by the format conversions)
    return m


def m_coo_matrix(orig):
    def coo(arg1, shape=None, dtype=None, copy=False):
        if not (isinstance(arg1, tuple) and len(arg1) == 2 and isinstance(arg1[1], tuple)
                and any(isinstance(x, (MaskedSel, IndexSet, SymArray)) for x in (arg1[0],) + tuple(arg1[1]))):
            return orig(arg1, shape=shape, dtype=dtype, copy=copy)
        v, (r, c) = arg1
        if all(isinstance(x, SymArray) for x in (v, r, c)):
            return _coo_full(v, r, c, shape)
        v, r, c = as_sel(v), as_sel(r), as_sel(c)
        m0 = z3.simplify(v.mask(I0))
        for s in (r, c):
            if not z3.simplify(s.mask(I0)).eq(m0):
                raise EngineLimit("coo_matrix triplets selected by different masks")
        if not z3.simplify(r.val(I0)).eq(I0):
            raise EngineLimit("coo_matrix: row indices are not the base index (duplicates cannot be excluded)")
        if shape is None:
            raise EngineLimit("coo_matrix without shape")
        nr, nc = shape
        ctx = sym.Ctx.current
        k = ctx.int("k_coo")
        # requires of scipy: stored indices inside the shape (checked at a Skolem triplet)
        inside = z3.Implies(z3.And(k.t >= 0, k.t < iterm(v.n), v.mask(k.t)),
                            z3.And(c.val(k.t) >= 0, c.val(k.t) < iterm(nc), k.t < iterm(nr)))
        ctx.prove("requires of sps.coo_matrix: every stored (row, column) index lies inside the shape", SymBool(inside))
        _used("sps.coo_matrix((v, (r, c)), shape) with r the base index of the selection: entry (i, j) = v[i] if i is selected and "
              "c[i] == j, else 0; .tocsr() keeps the entries")
        n = iterm(v.n)
        mask, cv, vv = v.mask, c.val, v.val

        def entry(i, j):
            val = vv(i)
            zero = z3.RealVal(0)
            if val.sort() == z3.IntSort():
                val = z3.ToReal(val)
            return z3.If(z3.And(i >= 0, i < n, mask(i), cv(i) == j), val, zero)

        return SymMat(nr, nc, entry, "coo")

    return coo


def m_ones(cur):
    def ones(shape, dtype=float, *a, **k):
        if isinstance(shape, SymCount):
            _used("np.ones(idx.size): one entry 1 per index of the set")
            srt = "int" if dtype in (int, np.int64, np.int32) else "real"
            one = z3.IntVal(1) if srt == "int" else z3.RealVal(1)
            return MaskedSel(shape.of.n, shape.of.mask, lambda i: one, srt)
        return cur(shape, dtype, *a, **k)

    return ones


def m_kron(orig):
    def kron(A, B, format=None):
        if not isinstance(A, SymMat):
            return orig(A, B, format=format)
        if isinstance(B, SymMat):
            raise EngineLimit("kron of two symbolic matrices")
        Bd = np.asarray(B.todense() if sps.issparse(B) else B)
        k = Bd.shape[0]
        if Bd.shape != (k, k) or not np.array_equal(Bd, np.eye(k)):
            raise EngineLimit("kron with something else than a concrete identity")
        _used("sps.kron(M, I_k), k concrete: entry (i, j) = M[i // k, j // k] if i % k == j % k else 0")
        e = A._entry
        kk = z3.IntVal(k)
        if k == 1:
            return SymMat(A.nr, A.nc, e, "csr")
        return SymMat(A.nr * k, A.nc * k, lambda i, j: z3.If(i % kk == j % kk, e(i / kk, j / kk), z3.RealVal(0)), "csr")

    return kron


def m_vstack(orig):
    def vstack(blocks, format=None, dtype=None):
        blocks = list(blocks)
        if not any(isinstance(b, SymMat) for b in blocks):
            return orig(blocks, format=format, dtype=dtype)
        from .arrays import _m_bmat

        _used("sps.vstack(blocks) = sps.bmat([[b] for b in blocks])")
        return _m_bmat([[b] for b in blocks], format=format)

    return vstack


@contextlib.contextmanager
def index_shims():
    saved = [(np, "r_", np.r_), (sps, "coo_matrix", sps.coo_matrix), (sps, "kron", sps.kron), (np, "ones", np.ones), (sps, "vstack", sps.vstack),
             (IndexSet, "size", IndexSet.__dict__.get("size"))]
    sps.vstack = m_vstack(sps.vstack)
    np.r_ = _R(np.r_)
    coo = m_coo_matrix(sps.coo_matrix)
    sps.coo_matrix = coo
    sps.kron = m_kron(sps.kron)
    np.ones = m_ones(np.ones)
    IndexSet.size = property(_size_of)
    from . import arrays

    fm = arrays.FUNCTION_MODELS  # make sure the table exists, then extend it for the run
    if arrays._FM is None:
        arrays._FM = fm()
    added = []
    for f, m in ((np.delete, m_delete),):
        if f not in arrays._FM:
            arrays._FM[f] = m
            added.append(f)
    try:
        yield
    finally:
        for f in added:
            del arrays._FM[f]
        for mod, name, val in saved:
            setattr(mod, name, val)
