#!/bin/bash
# usage: tools/runall.sh [quick|thorough] [jobs]   -- runs every check in MANIFEST.json, prints id exit wall
cd "$(dirname "$0")/.."
TIER=${1:-quick}; J=${2:-4}
mkdir -p /var/tmp/verif_logs
ids=$(.venv/bin/python -c "import json; print(' '.join(c['property_id'] for c in json.load(open('MANIFEST.json'))['checks']))")
run() { p=$1; s=$(date +%s); ./check $p --tier $2 > /var/tmp/verif_logs/$p.log 2>&1; e=$?; echo "$p exit=$e wall=$(( $(date +%s)-s ))s $(grep -c '^VIOLATION' /var/tmp/verif_logs/$p.log) violations, $(grep -c '^KNOWN-FINDING' /var/tmp/verif_logs/$p.log) known"; }
export -f run
printf "%s\n" $ids | xargs -P $J -I{} bash -c "run {} $TIER" | sort
