"""Print the as-built status table (markdown) from MANIFEST.json and the evidence files of the last run."""
import json
import pathlib

ROOT = pathlib.Path(__file__).resolve().parent.parent
man = json.load(open(ROOT / "MANIFEST.json"))
print("| id | claimed level | P obligations | Ps obligations (bounded shape) | back ends | run-time sweep evaluations (quick) | functions under contract | known findings | quick wall |")
print("|---|---|---|---|---|---|---|---|---|")
for c in man["checks"]:
    pid = c["property_id"]
    f = ROOT / "evidence" / f"{pid}.json"
    if not f.exists():
        print(f"| {pid} | {c.get('level')} | - | - | - | - | - | - | - |")
        continue
    e = json.load(open(f))
    cov = e["coverage"]
    backs = sorted({b for o in cov.get("obligation_list", []) for b in o["backend"].split("+")})
    print(
        f"| {pid} | {e['level']} | {cov.get('discharged_tier_P', 0)}/{cov.get('obligations_tier_P', 0)} "
        f"| {cov.get('discharged_tier_Ps', 0)}/{cov.get('obligations_tier_Ps_bounded_shape', 0)} | {', '.join(backs) or '-'} "
        f"| {cov.get('evaluations', 0)}{' (exhaustive)' if cov.get('exhaustive') else ''} | {len(cov.get('functions_under_contract', []))} "
        f"| {len(cov.get('known_findings_reported', []))} | {e.get('wall_s', 0):.0f} s |"
    )
