#!/bin/bash
# Evaluate the seeded changes a sub-agent left in /tmp/seed_out/<ID>/m1..m3 (tools/seed_eval2.sh, scratch copy) and keep those that are
# confirmed (demo 0 on the unchanged tree, 1 on the changed one) AND caught, as seeded/<ID>-m<next free index>.  Missed or unconfirmed
# ones are only reported.   usage: tools/seed_round.sh <ID> [extra check ids...]
set -u
ID=$1; shift
EXTRA="$@"
cd /verif
for k in 1 2 3; do
  d=/tmp/seed_out/$ID/m$k
  [ -f $d/patch.diff ] || continue
  [ -f $d/KEPT ] && continue
  out=$(tools/seed_eval2.sh $d $ID $EXTRA 2>&1)
  demo=$(echo "$out" | grep '^demo:')
  caught=$(echo "$out" | grep -c 'quick exit=1')
  if [ "$demo" != "demo: unchanged exit=0 changed exit=1" ]; then echo "$ID m$k UNCONFIRMED: $demo"; continue; fi
  if [ "$caught" = "0" ]; then echo "$ID m$k MISSED: $(/venv/bin/python -c "import json;print(json.load(open('$d/meta.json'))['summary'][:300])")"; continue; fi
  n=1; while [ -d seeded/$ID-m$n ]; do n=$((n+1)); done
  .venv/bin/python tools/seed_keep.py $d $ID-m$n > /dev/null; touch $d/KEPT
  echo "$ID m$k caught -> seeded/$ID-m$n :: $(echo "$out" | grep 'quick exit=1' | head -1 | cut -c1-200)"
done
ls /tmp/seed_out/$ID/NOTE_unchanged_violation.md 2>/dev/null
