#!/bin/bash
# Like tools/seed_eval.sh, but on a scratch copy of /repo's source tree (outside /repo and /verif, removed afterwards) instead of
# patching /repo itself, so that several seeded changes can be evaluated at the same time.  The final confirmation of every kept
# seed is done with tools/seed_eval.sh (git -C /repo apply ... ; checks ; git -C /repo checkout -- .).
#   tools/seed_eval2.sh <dir with patch.diff demo.py meta.json> <property id> [more check ids...]
set -u
D=$(realpath "$1"); shift
IDS="$@"
cd /verif
W=/var/tmp/seed_eval2.$$; mkdir -p $W/tree
rsync -a /repo/src $W/tree/
trap 'rm -rf $W' EXIT
(cd $W && PYTHONPATH=/repo/src timeout 1800 /venv/bin/python $D/demo.py > $W/demo0.log 2>&1); d0=$?
if ! patch -s -p1 -d $W/tree < $D/patch.diff > $W/apply.log 2>&1; then echo "patch does not apply: $(head -3 $W/apply.log)"; exit 3; fi
(cd $W && PYTHONPATH=$W/tree/src timeout 1800 /venv/bin/python $D/demo.py > $W/demo1.log 2>&1); d1=$?
echo "demo: unchanged exit=$d0 changed exit=$d1"
res="{\"demo_unchanged_exit\": $d0, \"demo_changed_exit\": $d1, \"scratch_copy\": true, \"checks\": {"
sep=""
for id in $IDS; do
  s=$(date +%s)
  POREPY_SRC=$W/tree/src ./check $id --tier quick > $W/$id.quick.log 2>&1; e=$?
  nv=$(grep -c '^VIOLATION' $W/$id.quick.log)
  first=$(grep -m1 '^VIOLATION' $W/$id.quick.log | sed 's/.*replay=[^ ]*\///' | cut -c1-160 | sed 's/"/'"'"'/g; s/\\/\//g')
  echo "$id quick exit=$e violations=$nv wall=$(( $(date +%s)-s ))s :: $first"
  res="$res$sep\"$id.quick\": {\"exit\": $e, \"violations\": $nv, \"first\": \"$first\"}"; sep=", "
  cp $W/$id.quick.log $D/check_$id.quick.log
  git -C /verif checkout -- evidence/$id.json 2>/dev/null
done
echo "$res}}" > $D/result.json
