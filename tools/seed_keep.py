"""Keep an evaluated seeded change:  tools/seed_keep.py <dir from the sub-agent> <seed id, e.g. C07-m1> [note]
Copies patch.diff, demo.py, meta.json (+ the evaluation result of tools/seed_eval.sh) to /verif/seeded/<seed id>/."""
import json
import pathlib
import shutil
import sys

src = pathlib.Path(sys.argv[1])
sid = sys.argv[2]
note = sys.argv[3] if len(sys.argv) > 3 else ""
dst = pathlib.Path(__file__).resolve().parent.parent / "seeded" / sid
dst.mkdir(parents=True, exist_ok=True)
shutil.copy(src / "patch.diff", dst / "patch.diff")
shutil.copy(src / "demo.py", dst / "demo.py")
meta = json.load(open(src / "meta.json"))
res = json.load(open(src / "result.json")) if (src / "result.json").exists() else {}
meta["seed_id"] = sid
meta["confirmed"] = {"demo_unchanged_exit": res.get("demo_unchanged_exit"), "demo_changed_exit": res.get("demo_changed_exit")}
meta["checks"] = res.get("checks", {})
meta["caught"] = any(v.get("exit") == 1 for v in meta["checks"].values())
if note:
    meta["note"] = note
json.dump(meta, open(dst / "meta.json", "w"), indent=1)
print(sid, "caught" if meta["caught"] else "MISSED", {k: v.get("exit") for k, v in meta["checks"].items()})
