#!/usr/bin/env python3
import json, sys
from pathlib import Path
import jsonschema
sch = json.loads(Path("/root/.vp/EVIDENCE.schema.json").read_text())
bad = 0
for f in sorted(Path(__file__).resolve().parent.parent.glob("evidence/*.json")):
    try:
        jsonschema.validate(json.loads(f.read_text()), sch)
    except Exception as e:
        bad += 1
        print("INVALID", f, str(e)[:300])
print("evidence files checked; invalid:", bad)
sys.exit(1 if bad else 0)
