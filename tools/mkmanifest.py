#!/usr/bin/env python3
"""Regenerates MANIFEST.json from the META dicts of props/C*.py and tools/not_applicable.json."""
import ast, json, sys
from pathlib import Path

ROOT = Path(__file__).resolve().parent.parent
props = [json.loads(l) for l in (ROOT / "properties.jsonl").read_text().splitlines() if l.strip()]
ids = [p["id"] for p in props]
na_reasons = json.loads((ROOT / "tools" / "not_applicable.json").read_text())
checks, na = [], []
for pid in ids:
    f = ROOT / "props" / f"{pid}.py"
    meta = None
    if f.exists():
        tree = ast.parse(f.read_text())
        for node in tree.body:
            if isinstance(node, ast.Assign) and getattr(node.targets[0], "id", None) == "META":
                meta = ast.literal_eval(node.value)
    if meta is None:
        na.append({"property_id": pid, "reason": na_reasons.get(pid, "no check built (see DESIGN.md §8)")})
        continue
    checks.append({
        "property_id": pid,
        "quick_cmd": f"./check {pid} --tier quick",
        "thorough_cmd": f"./check {pid} --tier thorough",
        "evidence_file": f"evidence/{pid}.json",
        "replay_cmd_template": f"./check {pid} --replay {{path}}",
        "engine": meta.get("engine", "pse"),
        "level_claimed": {"category": meta["level"], "text": meta["text"], "design_ref": f"DESIGN.md §8 {pid}"},
        "level_note": meta["note"],
        "technique": meta["technique"],
    })
m = {
    "version": 1,
    "setup_cmd": "./setup.sh",
    "hooks": {
        "guard": "POREPY_VERIF",
        "enable": "no hook or instrumentation is compiled into /repo; checks import the working tree /repo/src (or POREPY_SRC) and call the real functions with proxy or concrete arguments",
        "baseline_off_cmd": "cd /repo && /venv/bin/python -m pytest -ra -q -p no:cacheprovider --timeout=900 --continue-on-collection-errors",
        "source_commits": [],
        "add_only": True,
    },
    "engines": [
        {"name": "pse", "path": "engine/", "serves_properties": [c["property_id"] for c in checks if c["engine"] == "pse"],
         "kind_free_text": "proxy symbolic execution of the real porepy function objects + sidecar contracts; VCs discharged by z3 (cvc5 on unknown); bounded run-time contract sweeps as labelled stand-ins"},
        {"name": "sweep", "path": "engine/report.py", "serves_properties": [c["property_id"] for c in checks if c["engine"] == "sweep"],
         "kind_free_text": "run-time evaluation of the sidecar contracts on the real functions over enumerated input families (bounded stand-in, never counted as proved)"},
    ],
    "checks": checks,
    "not_applicable": na,
    "notes": "See DESIGN.md. Exit codes: 0 held, 1 violation, 2 undecided, 3 checker error. KNOWN_FINDINGS.txt lists fixed defects and recorded findings.",
}
(ROOT / "MANIFEST.json").write_text(json.dumps(m, indent=1))
import jsonschema
jsonschema.validate(m, json.loads(Path("/root/.vp/MANIFEST.schema.json").read_text()))
print(f"MANIFEST.json: {len(checks)} checks, {len(na)} not applicable; valid")
