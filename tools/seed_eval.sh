#!/bin/bash
# Evaluate one seeded change against the checks.
#   tools/seed_eval.sh <dir with patch.diff demo.py meta.json> <property id> [more check ids...]
# 1. demo on the unchanged tree must exit 0;  2. apply the patch to /repo;  3. demo must exit 1;
# 4. run the quick check(s) (thorough too when SEED_THOROUGH=1);  5. undo the patch straight away.
# Prints one summary line per check; writes <dir>/result.json.
set -u
D=$(realpath "$1"); shift
IDS="$@"
cd /verif
if [ -n "$(git -C /repo status --porcelain)" ]; then echo "/repo not clean"; exit 3; fi
W=/var/tmp/seed_eval.$$; mkdir -p $W
(cd $W && PYTHONPATH=/repo/src timeout 900 /venv/bin/python $D/demo.py > $W/demo0.log 2>&1); d0=$?
if ! git -C /repo apply --check $D/patch.diff 2>$W/apply.log; then echo "patch does not apply: $(head -3 $W/apply.log)"; rm -rf $W; exit 3; fi
git -C /repo apply $D/patch.diff
trap 'git -C /repo checkout -- . ; rm -rf $W' EXIT
(cd $W && PYTHONPATH=/repo/src timeout 900 /venv/bin/python $D/demo.py > $W/demo1.log 2>&1); d1=$?
echo "demo: unchanged exit=$d0 changed exit=$d1"
res="{\"demo_unchanged_exit\": $d0, \"demo_changed_exit\": $d1, \"checks\": {"
sep=""
for id in $IDS; do
  for tier in quick ${SEED_THOROUGH:+thorough}; do
    s=$(date +%s)
    ./check $id --tier $tier > $W/$id.$tier.log 2>&1; e=$?
    nv=$(grep -c '^VIOLATION' $W/$id.$tier.log)
    first=$(grep -m1 '^VIOLATION' $W/$id.$tier.log | sed 's/.*replay=[^ ]*\///' | cut -c1-160 | sed 's/"/'"'"'/g; s/\\/\//g')
    echo "$id $tier exit=$e violations=$nv wall=$(( $(date +%s)-s ))s :: $first"
    res="$res$sep\"$id.$tier\": {\"exit\": $e, \"violations\": $nv, \"first\": \"$first\"}"; sep=", "
    cp $W/$id.$tier.log $D/check_$id.$tier.log
    [ $e -eq 1 ] && break
  done
  git -C /verif checkout -- evidence/$id.json 2>/dev/null
done
echo "$res}}" > $D/result.json
