#!/bin/bash
# Prepare a scratch worktree of /repo for a seeding sub-agent (outside /repo and /verif) holding nothing from /verif
# but the text of one property.  usage: tools/seed_setup.sh C07 [C08 ...];  tools/seed_setup.sh --remove C07 ...
set -e
if [ "$1" = "--remove" ]; then
  shift
  for id in "$@"; do
    git -C /repo worktree remove --force /tmp/seed/$id 2>/dev/null || rm -rf /tmp/seed/$id
  done
  git -C /repo worktree prune
  exit 0
fi
mkdir -p /tmp/seed /tmp/seed_out
for id in "$@"; do
  [ -d /tmp/seed/$id ] && continue
  git -C /repo worktree add -q --detach /tmp/seed/$id HEAD
  mkdir -p /tmp/seed_out/$id
  /venv/bin/python - "$id" <<'EOF'
import json, sys
pid = sys.argv[1]
for line in open('/verif/properties.jsonl'):
    d = json.loads(line)
    if d['id'] == pid:
        json.dump(d, open(f'/tmp/seed_out/{pid}/PROPERTY.json', 'w'), indent=1)
EOF
done
for id in "$@"; do
  sed "s/@ID@/$id/g" /verif/tools/seed_prompt.txt > /tmp/seed_out/$id/TASK.md
done
