"""Print the markdown table of the kept seeded changes (seeded/*/meta.json) for DESIGN.md §10.5."""
import json
import pathlib
import re

ROOT = pathlib.Path(__file__).resolve().parent.parent
rows = []
for d in sorted((ROOT / "seeded").iterdir(), key=lambda p: (p.name.split("-")[0], p.name)):
    mf = d / "meta.json"
    if not mf.exists():
        continue
    m = json.load(open(mf))
    checks = m.get("checks", {})
    caught = sorted({k.split(".")[0] for k, v in checks.items() if v.get("exit") == 1})
    summ = re.sub(r"\s+", " ", str(m.get("summary", ""))).replace("|", "/")
    if len(summ) > 150:
        summ = summ[:147] + "..."
    funcs = m.get("functions") or m.get("files") or []
    if isinstance(funcs, str):
        funcs = [funcs]
    where = ", ".join(str(f).split("/")[-1] for f in funcs[:2]).replace("|", "/")[:60]
    note = str(m.get("note", ""))
    first = bool(note)  # a note is written exactly when the check had to be strengthened (or another check reports the change)
    rows.append((m.get("seed_id", d.name), where, summ, ", ".join(caught) if caught else "**not caught**", "strengthened" if first else "as built"))
print("| seed | where | change | caught by | check |")
print("|---|---|---|---|---|")
for r in rows:
    print("| " + " | ".join(r) + " |")
n = len(rows)
nc = sum(1 for r in rows if "not caught" not in r[3])
ns = sum(1 for r in rows if r[4] == "strengthened")
print(f"\n{n} seeded changes kept; {nc} caught by the committed checks ({n - nc} not caught), of which {ns} only after the check was strengthened.")
