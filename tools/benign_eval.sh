#!/bin/bash
# Evaluate a behaviour-preserving change: apply <dir>/patch.diff to a scratch copy of /repo's source tree (outside /repo and /verif,
# removed afterwards) and run the quick check of the given properties against it.  Every check must exit 0.
#   tools/benign_eval.sh <dir with patch.diff meta.json> <property id> [more ids...]
set -u
D=$(realpath "$1"); shift
IDS="$@"
cd /verif
W=/var/tmp/benign_eval.$$; mkdir -p $W/tree
rsync -a /repo/src $W/tree/
trap 'rm -rf $W' EXIT
if ! patch -s -p1 -d $W/tree < $D/patch.diff > $W/apply.log 2>&1; then echo "$(basename $D): patch does not apply: $(head -3 $W/apply.log)"; exit 3; fi
files=$(grep '^+++ ' $D/patch.diff | sed 's/^+++ b\///' | tr '\n' ' ')
res="{\"files\": \"$files\", \"checks\": {"
sep=""
for id in $IDS; do
  s=$(date +%s)
  POREPY_SRC=$W/tree/src VERIF_EVIDENCE_DIR=$W/ev ./check $id --tier quick > $W/$id.quick.log 2>&1; e=$?
  nv=$(grep -c '^VIOLATION' $W/$id.quick.log)
  nf=$(grep -c 'not re-established\|UNDECIDED\|undecided' $W/$id.quick.log)
  echo "$(basename $D) $id quick exit=$e violations=$nv undecided-notes=$nf wall=$(( $(date +%s)-s ))s files=$files"
  res="$res$sep\"$id.quick\": {\"exit\": $e, \"violations\": $nv}"; sep=", "
  cp $W/$id.quick.log $D/check_$id.quick.log
  git -C /verif checkout -- evidence/$id.json 2>/dev/null
done
echo "$res}}" > $D/result.json
