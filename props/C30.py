"""C30 -- distance computations are exact (pp.distances).

Tier B (bounded run-time contract sweep).  The tier-Ps proof of the point-segment kernel mentioned in DESIGN is not
part of this check.

Contracts (from the statement: "return the true Euclidean distance, and the returned closest points lie on the
respective objects at that distance"); TOL = 1e-9 * max(1, largest |coordinate|):
  point_pointset(p, P)               d[j] = |p - P_j|.
  points_segments(p, s, e)           d[i,j] = min_t |p_i - s_j - t (e_j - s_j)|, t in [0,1]; cp[i,j] is THE closest
                                     point (unique), i.e. lies on segment j and |p_i - cp[i,j]| = d[i,j].
  segment_segment_set(s, e, S, E)    d[j] = min distance of the two closed segments; cp1[:,j] lies on [s,e], cp2[:,j]
                                     lies on [S_j,E_j], |cp1 - cp2| = d[j]  (closest points need not be unique).
  points_polygon(p, poly)            d[i] = distance from p_i to the filled planar polygon; cp[:,i] lies on the polygon
                                     and |p_i - cp[:,i]| = d[i].
  segments_polygon(s, e, poly)       d[j] = min distance between segment j and the filled polygon; cp[:,j] lies on one
                                     of the two objects and its distance to the other one is d[j] (the docstring does
                                     not say on which object the point lies; the weaker reading is used).
  requires  integer coordinates; segments of non-zero length; simple planar polygons with integer vertices (catalogue).
            No tolerance band has to be excluded: a distance is continuous in the data, and TOL absorbs the effect of
            the code's own tolerances (SMALL_TOLERANCE = 1e-8 * |d|^2 etc.) only when these are not *mis*-applied;
            for integer data every quantity compared with such a tolerance is 0 or >= 1/100.

Oracles (exact, fractions.Fraction, squared distances so that no square root is needed):
  point-segment: clamped projection parameter; segment-segment: the convex quadratic on [0,1]^2 attains its minimum at
  the interior critical point (if it lies in the square) or on one of the four sides (= four point-segment problems);
  point-polygon: orthogonal projection onto the plane + exact crossing-number test (boundary detected exactly), else
  minimum over the edges; segment-polygon: 0 if the segment pierces the plane inside/on the polygon, else the minimum
  of end-point-to-polygon and segment-to-edge distances.
A returned distance d matches an exact squared distance D2 when (d - TOL)^2 <= D2 <= (d + TOL)^2.

Enumeration:
  points_segments     2-D, EXHAUSTIVE: all 25 points x all 600 directed segments of [-2,2]^2, through both loop
                      orders of the implementation (one point vs. all segments; all points vs. one segment) and the
                      single point / single segment reshape path; 3-D seeded from [-2,2]^3.
  point_pointset      inside the above (exhaustive 2-D point pairs) + 3-D seeded, exponent 2.
  segment_segment_set 2-D: every directed main segment of [-1,2]^2 (240) against all 240 (quick) -- exhaustive 57 600
                      pairs; thorough [-2,2]^2 (600 x 600); 3-D seeded incl. forced parallel / intersecting / skew.
  points_polygon      catalogue of 6 planar polygons (convex, non-convex, cw and ccw, oblique planes) x all integer
                      points of the box [-1,5]^3 (343), exhaustive.
  segments_polygon    same catalogue x seeded integer segments of the box, a third forced in-plane or parallel.

Unchanged tree: point_pointset, points_segments, segment_segment_set satisfy the contract on every case; so does
points_polygon / segments_polygon for convex polygons except (b).  Violations kept strict and reported to the lead:
  (a) non-convex polygons, signatures containing "[edge-collinear interior point]"
      ("points_polygon: distance is exact", "segments_polygon: distance is exact"): a point of the polygon's interior
      that is collinear with one of the polygon's edges (lies on the extension of an edge) is treated as "on the
      boundary -> not inside" by pp.geometry_property_checks.point_in_polygon (root cause, see C31), so the distance
      is taken to the edges instead of to the plane:  L-shaped polygon (0,1,0),(4,1,0),(4,1,2),(2,1,2),(2,1,4),(0,1,4),
      point p=(2,1,1) lies in it, points_polygon returns d=1 (exact 0).
  (b) "segments_polygon: closest point on one object at distance d from the other" / "... segment in-plane touching":
      for a segment in the polygon's plane whose END point is in the polygon but whose START point is not, d=0 is
      returned together with cp = start point, which is neither on the polygon nor at distance 0 from it
      (square (0,0,0),(2,0,0),(2,2,0),(0,2,0); segment (-2,2,0)->(1,1,0): cp=(-2,2,0)).

Detection power (scratch copy of /repo/src under /var/tmp, POREPY_SRC=<copy>, one bug at a time in distances.py, quick
tier; each gave exit 1 with VIOLATION lines whose (obligation, signature) do not occur on the unchanged tree):
  M1  points_segments, 'one point' loop: `cp[pi, above, :] = ...end...` -> `start` (swapped end point)
        -> "points_segments: closest point is exact" (2d/3d closest point at end) and "points_polygon: closest point realises d"
  M2  segment_segment_set: `tN[s1_visible] = dot_1_2 + dot_2_starts` -> `-`
        -> "segment_segment_set: distance is exact" (non-parallel apart)
  M3  segment_segment_set: parallel case dropped (`parallel = discr < -1`)
        -> "segment_segment_set: distance is exact" (parallel apart / touching, 2d and 3d)
  M4  points_polygon: `d[in_poly] = np.abs(p[2, in_poly])` -> without abs
        -> "points_polygon: distance is exact", "... closest point realises d" (projection inside), segments_polygon distances
  M5  segments_polygon: `if d_end_poly[si] < md` -> `>`
        -> "segments_polygon: distance is exact" (convex polygon, segment one side apart)
  M6  segment_segment_set: `-dot_1_starts > dot_1_1` -> `> dot_2_2` (wrong clamp bound)
        -> "segment_segment_set: distance is exact", "... cp1 lies on the main segment"
"""
from __future__ import annotations

import itertools
import math
from fractions import Fraction

META = {
    "level": "exploration",
    "engine": "sweep",
    "technique": "run-time contract sweep (bounded stand-in for deduction): integer point/segment/polygon configurations through "
                 "the real pp.distances functions, results compared with exact rational squared-distance oracles",
    "text": "Tier B only: distance value, closest-point membership and closest-point distance are checked on the real functions "
            "for all 2-D point-segment configurations of [-2,2]^2 (exhaustive), all segment pairs of [-1,2]^2 (quick) / [-2,2]^2 "
            "(thorough), a catalogue of 6 planar polygons against all integer points of [-1,5]^3, and seeded 3-D segment and "
            "segment-polygon configurations. The Ps proof of the clamped-projection kernel (DESIGN) is not included.",
    "note": "oracles in fractions.Fraction on squared distances; returned floats compared at 1e-9 relative to the coordinate magnitude",
}

RTOL = 1e-9

# ----------------------------------------------------------------------------- exact oracles


def sub(p, q):
    return tuple(a - b for a, b in zip(p, q))


def dot(u, v):
    return sum(a * b for a, b in zip(u, v))


def cross3(u, v):
    return (u[1] * v[2] - u[2] * v[1], u[2] * v[0] - u[0] * v[2], u[0] * v[1] - u[1] * v[0])


def d2_point_seg(p, s, e):
    """-> (squared distance, closest point) of p to the closed segment [s,e] (s != e)"""
    d, w = sub(e, s), sub(p, s)
    L, c = dot(d, d), dot(w, d)
    if c <= 0:
        return Fraction(dot(w, w)), tuple(Fraction(x) for x in s)
    if c >= L:
        w2 = sub(p, e)
        return Fraction(dot(w2, w2)), tuple(Fraction(x) for x in e)
    t = Fraction(c) / L
    cp = tuple(a + t * b for a, b in zip(s, d))
    r = sub(p, cp)
    return dot(r, r), cp


def d2_seg_seg(a0, a1, b0, b1):
    """squared distance of two closed non-degenerate segments (any dimension)"""
    best = min(d2_point_seg(a0, b0, b1)[0], d2_point_seg(a1, b0, b1)[0], d2_point_seg(b0, a0, a1)[0], d2_point_seg(b1, a0, a1)[0])
    d1, d2, w = sub(a1, a0), sub(b1, b0), sub(a0, b0)
    A, B, C = dot(d1, d1), dot(d1, d2), dot(d2, d2)
    D, E = dot(d1, w), dot(d2, w)
    den = A * C - B * B  # > 0 iff not parallel (Cauchy-Schwarz)
    if den != 0:
        s, t = Fraction(B * E - C * D, den), Fraction(A * E - B * D, den)
        if 0 <= s <= 1 and 0 <= t <= 1:
            r = tuple(wi + s * x - t * y for wi, x, y in zip(w, d1, d2))
            best = min(best, dot(r, r))
    return Fraction(best)


def newell_normal(poly):
    n = (0, 0, 0)
    k = len(poly)
    for i in range(k):
        c = cross3(poly[i], poly[(i + 1) % k])
        n = (n[0] + c[0], n[1] + c[1], n[2] + c[2])
    return n


def on_segment(q, a, b):
    """q on the closed segment [a,b] (exact, any dimension)"""
    d, w = sub(b, a), sub(q, a)
    c, L = dot(w, d), dot(d, d)
    if c < 0 or c > L:
        return False
    return dot(w, w) * L == c * c  # Cauchy-Schwarz equality <=> w parallel to d


def point_in_polygon_2d(poly2, q):
    """'on' / 'in' / 'out' by the crossing-number rule with exact arithmetic"""
    k = len(poly2)
    for i in range(k):
        if on_segment(q, poly2[i], poly2[(i + 1) % k]):
            return "on"
    inside = False
    for i in range(k):
        a, b = poly2[i], poly2[(i + 1) % k]
        if (a[1] > q[1]) != (b[1] > q[1]):
            xi = a[0] + Fraction(q[1] - a[1]) * (b[0] - a[0]) / (b[1] - a[1])
            if xi > q[0]:
                inside = not inside
    return "in" if inside else "out"


class Polygon:
    def __init__(self, verts):
        self.v = [tuple(x) for x in verts]
        self.n = newell_normal(self.v)
        assert any(self.n)
        self.nn = dot(self.n, self.n)
        assert all(dot(self.n, sub(x, self.v[0])) == 0 for x in self.v), "catalogue polygon not planar"
        k = max(range(3), key=lambda i: abs(self.n[i]))
        self.keep = [i for i in range(3) if i != k]
        self.v2 = [tuple(x[i] for i in self.keep) for x in self.v]
        k = len(self.v2)
        turn = [(self.v2[(i + 1) % k][0] - self.v2[i][0]) * (self.v2[(i + 2) % k][1] - self.v2[(i + 1) % k][1])
                - (self.v2[(i + 1) % k][1] - self.v2[i][1]) * (self.v2[(i + 2) % k][0] - self.v2[(i + 1) % k][0]) for i in range(k)]
        self.kind = "convex polygon" if (all(t > 0 for t in turn) or all(t < 0 for t in turn)) else "non-convex polygon"

    def status_in_plane(self, q):
        return point_in_polygon_2d(self.v2, tuple(q[i] for i in self.keep))

    def on_edge_line(self, q):
        """q (in the plane) is collinear with some edge (lies on the edge or on its extension)"""
        q2 = tuple(q[i] for i in self.keep)
        k = len(self.v2)
        for i in range(k):
            a, b = self.v2[i], self.v2[(i + 1) % k]
            if (q2[0] - a[0]) * (b[1] - a[1]) == (q2[1] - a[1]) * (b[0] - a[0]):
                return True
        return False

    def d2_point(self, p):
        h = dot(self.n, sub(p, self.v[0]))
        q = tuple(Fraction(a) - Fraction(h * b, self.nn) for a, b in zip(p, self.n))
        if self.status_in_plane(q) != "out":
            return Fraction(h * h, 1) / self.nn
        k = len(self.v)
        return min(d2_point_seg(p, self.v[i], self.v[(i + 1) % k])[0] for i in range(k))

    def d2_segment(self, s, e):
        hs, he = dot(self.n, sub(s, self.v[0])), dot(self.n, sub(e, self.v[0]))
        if hs != he and (hs <= 0 <= he or he <= 0 <= hs):
            t = Fraction(hs) / (hs - he)
            x = tuple(a + t * (b - a) for a, b in zip(s, e))
            if self.status_in_plane(x) != "out":
                return Fraction(0)
        k = len(self.v)
        best = min(self.d2_point(s), self.d2_point(e))
        for i in range(k):
            best = min(best, d2_seg_seg(s, e, self.v[i], self.v[(i + 1) % k]))
        return best


# catalogue of planar polygons (integer vertices)
POLYGONS = {
    "square z=0 ccw": [(0, 0, 0), (2, 0, 0), (2, 2, 0), (0, 2, 0)],
    "square z=1 cw": [(0, 0, 1), (0, 2, 1), (2, 2, 1), (2, 0, 1)],
    "triangle x+y+z=2": [(2, 0, 0), (0, 2, 0), (0, 0, 2)],
    "L-shape y=1 (non-convex)": [(0, 1, 0), (4, 1, 0), (4, 1, 2), (2, 1, 2), (2, 1, 4), (0, 1, 4)],
    "arrow in z=x (non-convex)": [(0, 0, 0), (4, 0, 4), (2, 2, 2), (4, 4, 4), (0, 4, 0)],
    "quadrilateral x=y": [(0, 0, 0), (2, 2, 0), (2, 2, 2), (0, 0, 1)],
}

# ----------------------------------------------------------------------------- comparison helpers


def F(x):
    return tuple(Fraction(float(c)) for c in x)


def dist_matches(d, D2, tol):
    d = float(d)
    if not d == d or d < -tol:
        return False
    lo = max(0.0, d - tol)
    return Fraction(lo) ** 2 <= D2 <= Fraction(d + tol) ** 2


def pts_close(p, q, tol):
    return all(abs(float(a) - float(b)) <= tol for a, b in zip(p, q))


def scale_of(*pts):
    return max([1.0] + [abs(float(c)) for p in pts for c in p])


# ----------------------------------------------------------------------------- sweeps


def _sweep_points_segments(rep, pp, quick):
    import numpy as np

    ps = pp.distances.points_segments
    name = "points_segments"

    def check(dim, pts, segs, d, cp, how):
        """pts: list of points, segs: list of (s,e); d (np,ns), cp (np,ns,nd)"""
        for i, p in enumerate(pts):
            for j, (s, e) in enumerate(segs):
                D2, C = d2_point_seg(p, s, e)
                tol = RTOL * scale_of(p, s, e)
                region = "start" if C == tuple(map(Fraction, s)) else ("end" if C == tuple(map(Fraction, e)) else "interior")
                if not dist_matches(d[i, j], D2, tol):
                    rep.violation(f"{name}: distance is exact", f"{dim}d closest point at {region} [{how}]",
                                  inputs={"fn": name, "p": p, "s": s, "e": e, "how": how},
                                  detail=f"returned d={float(d[i, j])!r}, exact d^2={D2}", confirmed=True)
                if not pts_close(cp[i, j], C, tol):
                    rep.violation(f"{name}: closest point is exact", f"{dim}d closest point at {region} [{how}]",
                                  inputs={"fn": name, "p": p, "s": s, "e": e, "how": how},
                                  detail=f"returned cp={cp[i, j].tolist()}, exact {[str(c) for c in C]}", confirmed=True)

    pts2 = list(itertools.product(range(-2, 3), repeat=2))
    segs2 = [(a, b) for a in pts2 for b in pts2 if a != b]
    A = lambda L: np.array(L, dtype=float).T  # noqa: E731
    with rep.sweep(
        "points_segments 2-D exhaustive",
        rule="all 25 integer points x all 600 directed integer segments of [-2,2]^2; each (point, segment) evaluated through the "
             "'one point, many segments' loop, the 'many points, one segment' loop and the single-point/single-segment reshape path; "
             "non-trivial = the closest point is interior to the segment or the point lies on the segment's line; distinct by "
             "(path, point, segment)",
        bound="[-2,2]^2: 15000 (point, segment) pairs x 3 call paths",
        exhaustive=True,
    ) as sw:
        S, E = A([s for s, e in segs2]), A([e for s, e in segs2])
        P = A(pts2)

        def count(how, p, s, e):
            D2, C = d2_point_seg(p, s, e)
            nt = (C != tuple(map(Fraction, s)) and C != tuple(map(Fraction, e))) or D2 == 0
            sw.case(key=(how, p, s, e), nontrivial=nt, sample={"path": how, "p": p, "segment": [s, e], "exact_d2": str(D2)})

        for i, p in enumerate(pts2):  # num_p < num_l branch
            d, cp = ps(P[:, [i]], S, E)
            check(2, [p], segs2, d, cp, "one point, all segments")
            for s, e in segs2:
                count("1xN", p, s, e)
        for j, (s, e) in enumerate(segs2):  # num_p >= num_l branch
            d, cp = ps(P, S[:, [j]], E[:, [j]])
            check(2, pts2, [(s, e)], d, cp, "all points, one segment")
            for p in pts2:
                count("Nx1", p, s, e)
        for j, (s, e) in enumerate(segs2):
            if j % (7 if quick else 1):
                continue
            for p in pts2:
                d, cp = ps(np.array(p, dtype=float), np.array(s, dtype=float), np.array(e, dtype=float))
                check(2, [p], [(s, e)], d, cp, "single point, single segment (1-D arrays)")
                count("1x1", p, s, e)
    n3 = 400 if quick else 6000
    with rep.sweep(
        "points_segments / point_pointset 3-D seeded",
        rule="seeded batches of 6 integer points x 5 segments (and 5 x 6) from [-2,2]^3, a third of the points placed on a segment's "
             "line; point_pointset checked on the same points; non-trivial as above; distinct by the batch content",
        bound=f"{n3} batches",
        exhaustive=False,
    ) as sw:
        rng = rep.rng
        for b in range(n3):
            npnt, nseg = (6, 5) if b % 2 else (5, 6)
            segs = []
            while len(segs) < nseg:
                s, e = tuple(rng.randint(-2, 2) for _ in range(3)), tuple(rng.randint(-2, 2) for _ in range(3))
                if s != e:
                    segs.append((s, e))
            pts = []
            for k in range(npnt):
                if k % 3 == 0:
                    s, e = segs[k % nseg]
                    t = rng.choice([-1, 0, 1, 2])
                    pts.append(tuple(a + t * (c - a) for a, c in zip(s, e)))
                else:
                    pts.append(tuple(rng.randint(-2, 2) for _ in range(3)))
            d, cp = ps(A(pts), A([s for s, e in segs]), A([e for s, e in segs]))
            check(3, pts, segs, d, cp, "batch")
            sw.case(key=(tuple(pts), tuple(segs)), nontrivial=True, sample={"points": pts, "segments": segs})
            # point_pointset on the same data
            dd = pp.distances.point_pointset(np.array(pts[0], dtype=float), A(pts))
            for k, q in enumerate(pts):
                D2 = Fraction(dot(sub(pts[0], q), sub(pts[0], q)))
                if not dist_matches(dd[k], D2, RTOL * scale_of(pts[0], q)):
                    rep.violation("point_pointset: distance is exact", "3d integer points",
                                  inputs={"fn": "point_pointset", "p": pts[0], "set": pts}, detail=f"d[{k}]={dd[k]!r}, exact d^2={D2}")
            # pointset (all mutual distances) on the same points, and on a copy of the cloud far away from the origin with small mutual
            # distances (offsets k * 1e-3 around (3000.1, -7000.3, 1000.7))
            for far in (False, True):
                Q = [tuple(Fraction(c) for c in q) for q in pts]
                if far:
                    # (the oracle takes the exact rational value of each float coordinate; the coordinates are deliberately not dyadic)
                    Q = [tuple(Fraction(float(bb) + 1e-3 * float(c)) for bb, c in zip((3000.1, -7000.3, 1000.7), q)) for q in Q]
                M = pp.distances.pointset(np.array([[float(c) for c in q] for q in Q]).T)
                for i1, a in enumerate(Q):
                    for i2, b in enumerate(Q):
                        D2 = dot(sub(a, b), sub(a, b))
                        # relative to the distance itself (the inputs are exact): a distance of 1e-3 must not be off by 1e-8
                        if np.shape(M) != (len(Q), len(Q)) or abs(float(M[i1, i2]) - math.sqrt(float(D2))) > 1e-9 * max(math.sqrt(float(D2)), 1e-300) + 1e-13:
                            rep.violation("pointset: mutual distances are exact", "3d cloud far from the origin" if far else "3d integer points",
                                          inputs={"fn": "pointset", "points": [[float(c) for c in q] for q in Q]},
                                          detail=f"d[{i1},{i2}]={float(M[i1, i2]) if np.shape(M) == (len(Q), len(Q)) else np.shape(M)!r}, exact d^2={float(D2)!r}")
                            break
                    else:
                        continue
                    break
    with rep.sweep(
        "point_pointset 2-D exhaustive",
        rule="every integer point of [-2,2]^2 against the set of all 25 points (and against a single point: the reshape path); "
             "non-trivial = non-zero distance; distinct by the ordered point pair",
        bound="25 x 25 ordered pairs x 2 call shapes",
        exhaustive=True,
    ) as sw:
        P = A(pts2)
        for p in pts2:
            dd = pp.distances.point_pointset(np.array(p, dtype=float), P)
            for k, q in enumerate(pts2):
                D2 = Fraction(dot(sub(p, q), sub(p, q)))
                d1 = pp.distances.point_pointset(np.array(p, dtype=float).reshape((-1, 1)), np.array(q, dtype=float))
                sw.case(key=(p, q), nontrivial=(p != q))
                for how, val in (("set", dd[k]), ("single", d1[0])):
                    if not dist_matches(val, D2, RTOL * scale_of(p, q)):
                        rep.violation("point_pointset: distance is exact", f"2d integer points [{how}]",
                                      inputs={"fn": "point_pointset", "p": p, "set": [q]}, detail=f"d={val!r}, exact d^2={D2}")


def _seg_class(a0, a1, b0, b1):
    d1, d2 = sub(a1, a0), sub(b1, b0)
    A, B, C = dot(d1, d1), dot(d1, d2), dot(d2, d2)
    par = A * C == B * B
    z = d2_seg_seg(a0, a1, b0, b1) == 0
    return ("parallel" if par else "non-parallel") + (" touching/intersecting" if z else " apart")


def check_segment_segment(rep, pp, dim, main, others, how, scale=1.0):
    """scale: the whole configuration is multiplied by this factor before the call and the results divided by it afterwards (the
    distance of segments is homogeneous of degree one): millimetre- and kilometre-size segments must be as exact as unit-size ones"""
    import numpy as np

    name = "segment_segment_set"
    A = lambda L: np.array(L, dtype=float).T * scale  # noqa: E731
    s, e = main
    if scale != 1.0:
        how = f"{how}, scaled by {scale:g}"
    try:
        d, cp1, cp2 = pp.distances.segment_segment_set(np.array(s, dtype=float) * scale, np.array(e, dtype=float) * scale,
                                                       A([a for a, b in others]), A([b for a, b in others]))
        d, cp1, cp2 = d / scale, cp1 / scale, cp2 / scale
    except Exception as ex:  # noqa: BLE001
        rep.violation(f"{name}: does not raise on admissible input", f"{dim}d [{how}]", inputs={"fn": name, "main": main, "set": others},
                      detail=f"{type(ex).__name__}: {ex}")
        return
    for j, (a, b) in enumerate(others):
        D2 = d2_seg_seg(s, e, a, b)
        tol = RTOL * scale_of(s, e, a, b)
        cls = _seg_class(s, e, a, b)
        inp = {"fn": name, "main": main, "set": [(a, b)], "how": how}
        if not dist_matches(d[j], D2, tol):
            rep.violation(f"{name}: distance is exact", f"{dim}d {cls} [{how}]", inputs=inp,
                          detail=f"main {main}, other {(a, b)}: returned d={float(d[j])!r}, exact d^2={D2}")
        c1, c2 = F(cp1[:, j]), F(cp2[:, j])
        if d2_point_seg(c1, s, e)[0] > Fraction(tol) ** 2:
            rep.violation(f"{name}: cp1 lies on the main segment", f"{dim}d {cls} [{how}]", inputs=inp,
                          detail=f"main {main}, other {(a, b)}: cp1={cp1[:, j].tolist()}")
        if d2_point_seg(c2, a, b)[0] > Fraction(tol) ** 2:
            rep.violation(f"{name}: cp2 lies on the other segment", f"{dim}d {cls} [{how}]", inputs=inp,
                          detail=f"main {main}, other {(a, b)}: cp2={cp2[:, j].tolist()}")
        r = sub(c1, c2)
        if not dist_matches(d[j], dot(r, r), 2 * tol):
            rep.violation(f"{name}: closest points realise d", f"{dim}d {cls} [{how}]", inputs=inp,
                          detail=f"main {main}, other {(a, b)}: |cp1-cp2|^2={float(dot(r, r))!r}, d={float(d[j])!r}")


def check_segment_set(rep, pp, segs):
    """distances.segment_set: the symmetric matrix of pairwise segment distances and the matching closest points"""
    import numpy as np

    name = "segment_set"
    S = np.array([a for a, b in segs], dtype=float).T
    E = np.array([b for a, b in segs], dtype=float).T
    inp = {"fn": name, "set": segs}
    try:
        d, cp = pp.distances.segment_set(S, E)
    except Exception as ex:  # noqa: BLE001
        rep.violation(f"{name}: does not raise on admissible input", f"{len(segs)} segments in 3d", inputs=inp, detail=f"{type(ex).__name__}: {ex}")
        return
    n = len(segs)
    for i in range(n):
        for j in range(n):
            if i == j:
                continue
            D2 = d2_seg_seg(segs[i][0], segs[i][1], segs[j][0], segs[j][1])
            tol = RTOL * scale_of(segs[i][0], segs[i][1], segs[j][0], segs[j][1])
            if np.shape(d) != (n, n) or not dist_matches(d[i, j], D2, tol):
                rep.violation(f"{name}: pairwise distances are exact", "3d", inputs=inp, detail=f"pair {(i, j)}: returned {np.asarray(d).tolist()}, exact d^2={D2}")
                return
            r = sub(F(cp[i, j]), F(cp[j, i]))
            if not dist_matches(d[i, j], dot(r, r), 2 * tol):
                rep.violation(f"{name}: closest points realise the distance", "3d", inputs=inp, detail=f"pair {(i, j)}: cp {cp[i, j].tolist()} / {cp[j, i].tolist()}")
                return


def _sweep_segment_segment(rep, pp, quick):
    lo, hi = (-1, 2) if quick else (-2, 2)
    pts2 = list(itertools.product(range(lo, hi + 1), repeat=2))
    segs2 = [(a, b) for a in pts2 for b in pts2 if a != b]
    with rep.sweep(
        "segment_segment_set 2-D exhaustive",
        rule=f"every directed integer segment of [{lo},{hi}]^2 as main segment against the set of all directed segments of the box "
             "(one vectorised call per main segment) and, for every 11th pair, as a single-segment set (reshape path); non-trivial = "
             "parallel, touching or intersecting pair; distinct by the ordered pair of directed segments",
        bound=f"{len(segs2)} x {len(segs2)} ordered pairs",
        exhaustive=True,
    ) as sw:
        for i, m in enumerate(segs2):
            check_segment_segment(rep, pp, 2, m, segs2, "set of all segments")
            for j, o in enumerate(segs2):
                sw.case(key=(m, o), nontrivial=(_seg_class(m[0], m[1], o[0], o[1]) != "non-parallel apart"),
                        sample={"main": m, "other": o, "class": _seg_class(m[0], m[1], o[0], o[1])})
                if (i * len(segs2) + j) % 11 == 0:
                    check_segment_segment(rep, pp, 2, m, [o], "single segment")
    n3 = 1500 if quick else 20000
    with rep.sweep(
        "segment_segment_set 3-D seeded",
        rule="seeded main segment and sets of 6 segments from [-2,2]^3; per set one segment forced parallel to the main one, one forced "
             "to share a point with it, one forced coplanar; non-trivial = parallel / touching / intersecting; distinct by content",
        bound=f"{n3} sets of 6",
        exhaustive=False,
    ) as sw:
        rng = rep.rng
        rp = lambda: tuple(rng.randint(-2, 2) for _ in range(3))  # noqa: E731
        for _ in range(n3):
            s, e = rp(), rp()
            if s == e:
                continue
            d = sub(e, s)
            others = []
            while len(others) < 6:
                k = len(others)
                a, b = rp(), rp()
                if k == 0:
                    b = tuple(x + rng.choice([-2, -1, 1, 2]) * y for x, y in zip(a, d))
                elif k == 1:
                    t = rng.choice([0, 1, 2])
                    a = tuple(x + (t * y) // 2 if (t * y) % 2 == 0 else x for x, y in zip(s, d))
                elif k == 2:
                    b = tuple(x + rng.choice([-1, 1]) * y + (u - v) for x, y, u, v in zip(a, d, a, s))
                if a != b and all(abs(c) <= 6 for c in b):
                    others.append((a, b))
            check_segment_segment(rep, pp, 3, (s, e), others, "set of 6")
            if _ % 5 == 0:
                check_segment_segment(rep, pp, 3, (s, e), others, "set of 6", scale=1e-4 if _ % 10 == 0 else 1e3)
            if _ % 25 == 0:
                check_segment_set(rep, pp, [(s, e)] + others[:3])
            sw.case(key=((s, e), tuple(others)), nontrivial=any(_seg_class(s, e, a, b) != "non-parallel apart" for a, b in others),
                    sample={"main": (s, e), "set": others})


def check_points_polygon(rep, pp, pname, pts):
    import numpy as np

    name = "points_polygon"
    poly = Polygon(POLYGONS[pname])
    try:
        d, cp, _in = pp.distances.points_polygon(np.array(pts, dtype=float).T, np.array(poly.v, dtype=float).T)
    except Exception as ex:  # noqa: BLE001
        rep.violation(f"{name}: does not raise on admissible input", pname, inputs={"fn": name, "polygon": pname, "points": pts},
                      detail=f"{type(ex).__name__}: {ex}")
        return
    for i, p in enumerate(pts):
        D2 = poly.d2_point(p)
        tol = RTOL * scale_of(p, *poly.v)
        h = dot(poly.n, sub(p, poly.v[0]))
        q = tuple(Fraction(a) - Fraction(h * b, poly.nn) for a, b in zip(p, poly.n))
        where = {"in": "projection inside", "on": "projection on the boundary", "out": "projection outside"}[poly.status_in_plane(q)]
        if where == "projection inside" and poly.on_edge_line(q):
            where += " [edge-collinear interior point]"
        inp = {"fn": name, "polygon": pname, "points": [p]}
        if not dist_matches(d[i], D2, tol):
            rep.violation(f"{name}: distance is exact", f"{poly.kind}, {where}", inputs=inp,
                          detail=f"p={p}: returned d={float(d[i])!r}, exact d^2={D2}")
        c = F(cp[:, i])
        if poly.d2_point(c) > Fraction(tol) ** 2:
            rep.violation(f"{name}: closest point lies on the polygon", f"{poly.kind}, {where}", inputs=inp,
                          detail=f"p={p}: cp={cp[:, i].tolist()} has squared distance {float(poly.d2_point(c))!r} to the polygon")
        r = sub(c, p)
        if not dist_matches(d[i], dot(r, r), 2 * tol):
            rep.violation(f"{name}: closest point realises d", f"{poly.kind}, {where}", inputs=inp,
                          detail=f"p={p}: cp={cp[:, i].tolist()}, |p-cp|^2={float(dot(r, r))!r}, d={float(d[i])!r}")


def check_segments_polygon(rep, pp, pname, segs):
    import numpy as np

    name = "segments_polygon"
    poly = Polygon(POLYGONS[pname])
    A = lambda L: np.array(L, dtype=float).T  # noqa: E731
    try:
        d, cp = pp.distances.segments_polygon(A([s for s, e in segs]), A([e for s, e in segs]), np.array(poly.v, dtype=float).T)
    except Exception as ex:  # noqa: BLE001
        rep.violation(f"{name}: does not raise on admissible input", pname, inputs={"fn": name, "polygon": pname, "segments": segs},
                      detail=f"{type(ex).__name__}: {ex}")
        return
    for j, (s, e) in enumerate(segs):
        D2 = poly.d2_segment(s, e)
        tol = RTOL * scale_of(s, e, *poly.v)
        hs, he = dot(poly.n, sub(s, poly.v[0])), dot(poly.n, sub(e, poly.v[0]))
        cls = ("in-plane" if hs == 0 == he else ("parallel" if hs == he else ("crossing" if hs * he <= 0 else "one side")))
        cls += ", touching" if D2 == 0 else ", apart"
        special = []  # points whose in/out status decides the distance
        if hs != he and hs * he <= 0:
            t = Fraction(hs) / (hs - he)
            special.append(tuple(a + t * (b - a) for a, b in zip(s, e)))
        for pt, h in ((s, hs), (e, he)):
            special.append(tuple(Fraction(a) - Fraction(h * b, poly.nn) for a, b in zip(pt, poly.n)))
        if any(poly.status_in_plane(x) == "in" and poly.on_edge_line(x) for x in special):
            cls += " [edge-collinear interior point]"
        inp = {"fn": name, "polygon": pname, "segments": [(s, e)]}
        if not dist_matches(d[j], D2, tol):
            rep.violation(f"{name}: distance is exact", f"{poly.kind}, segment {cls}", inputs=inp,
                          detail=f"segment {(s, e)}: returned d={float(d[j])!r}, exact d^2={D2}")
            continue
        c = F(cp[:, j])
        t2 = Fraction(tol) ** 2
        on_poly, on_seg = poly.d2_point(c) <= t2, d2_point_seg(c, s, e)[0] <= t2
        ok = (on_poly and dist_matches(d[j], d2_point_seg(c, s, e)[0], 2 * tol)) or (on_seg and dist_matches(d[j], poly.d2_point(c), 2 * tol))
        if not ok:
            rep.violation(f"{name}: closest point on one object at distance d from the other", f"{poly.kind}, segment {cls}",
                          inputs=inp, detail=f"segment {(s, e)}: d={float(d[j])!r}, cp={cp[:, j].tolist()}: on polygon={on_poly}, "
                          f"on segment={on_seg}, dist(cp,segment)^2={float(d2_point_seg(c, s, e)[0])!r}, dist(cp,polygon)^2={float(poly.d2_point(c))!r}")


def _sweep_polygons(rep, pp, quick):
    box = list(itertools.product(range(-1, 6), repeat=3))
    with rep.sweep(
        "points_polygon catalogue x box",
        rule="each of the 6 catalogue polygons against all 343 integer points of [-1,5]^3 (one vectorised call per polygon plus one call "
             "per point for every 5th point); non-trivial = the point is not a vertex of the polygon; distinct by (polygon, point)",
        bound="6 polygons x 343 points",
        exhaustive=True,
    ) as sw:
        for pname in POLYGONS:
            check_points_polygon(rep, pp, pname, box)
            for k, p in enumerate(box):
                sw.case(key=(pname, p), nontrivial=(p not in POLYGONS[pname]), sample={"polygon": pname, "vertices": POLYGONS[pname], "point": p})
                if k % 5 == 0:
                    check_points_polygon(rep, pp, pname, [p, p])
    n = 250 if quick else 4000
    with rep.sweep(
        "segments_polygon catalogue x seeded segments",
        rule="per catalogue polygon, seeded integer segments of [-1,5]^3: a third arbitrary, a third with both end points in the polygon's "
             "plane or parallel to it, a third through an integer point of the polygon's plane; non-trivial = the segment is in-plane, "
             "parallel, or touches the polygon; distinct by (polygon, segment)",
        bound=f"6 polygons x {n} segments",
        exhaustive=False,
    ) as sw:
        rng = rep.rng
        for pname in POLYGONS:
            poly = Polygon(POLYGONS[pname])
            plane_pts = [p for p in itertools.product(range(-2, 7), repeat=3) if dot(poly.n, sub(p, poly.v[0])) == 0]
            segs = []
            while len(segs) < n:
                k = len(segs) % 3
                if k == 0:
                    s, e = rng.choice(box), rng.choice(box)
                elif k == 1:
                    s, e = rng.choice(plane_pts), rng.choice(plane_pts)
                    if rng.random() < 0.4:  # shift off the plane -> parallel
                        sh = rng.choice([(1, 0, 0), (0, 1, 0), (0, 0, 1), (0, 0, -1), (1, 1, 0)])
                        if dot(sh, poly.n) != 0:
                            s, e = tuple(a + b for a, b in zip(s, sh)), tuple(a + b for a, b in zip(e, sh))
                else:
                    m, dlt = rng.choice(plane_pts), tuple(rng.randint(-2, 2) for _ in range(3))
                    s, e = tuple(a - b for a, b in zip(m, dlt)), tuple(a + b for a, b in zip(m, dlt))
                if s != e:
                    segs.append((s, e))
            for i in range(0, n, 25):
                check_segments_polygon(rep, pp, pname, segs[i:i + 25])
            for s, e in segs:
                hs, he = dot(poly.n, sub(s, poly.v[0])), dot(poly.n, sub(e, poly.v[0]))
                sw.case(key=(pname, s, e), nontrivial=(hs == he or poly.d2_segment(s, e) == 0), sample={"polygon": pname, "segment": (s, e)})


def run(rep):
    import porepy as pp

    rep.under_contract("pp.distances.points_segments", "pp.distances.segment_segment_set", "pp.distances.point_pointset",
                       "pp.distances.points_polygon", "pp.distances.segments_polygon")
    rep.trust("d2_point_seg / d2_seg_seg / Polygon.d2_point / Polygon.d2_segment (props/C30.py): exact rational squared-distance oracles")
    rep.assume(
        "requires: integer coordinates, non-degenerate segments, simple planar catalogue polygons; arrays passed as float64 in the "
        "documented (nd, n) shapes (1-D arrays only where the functions document/handle them)",
        "a returned distance d matches the exact squared distance D2 iff (d-TOL)^2 <= D2 <= (d+TOL)^2, TOL = 1e-9*max(1,|coordinates|)",
        "segments_polygon: the returned point may lie on either object (the documentation does not say which)",
    )
    quick = rep.tier == "quick"
    _sweep_points_segments(rep, pp, quick)
    _sweep_segment_segment(rep, pp, quick)
    _sweep_polygons(rep, pp, quick)


def replay(data):
    import porepy as pp
    from engine.report import Report

    inp = data.get("inputs") or {}
    fn = inp.get("fn")
    T = lambda x: tuple(tuple(int(c) for c in q) for q in x)  # noqa: E731
    rep = Report("C30", "quick", 0)
    if fn == "segment_segment_set":
        m = T(inp["main"])
        check_segment_segment(rep, pp, len(m[0]), m, [T(o) for o in inp["set"]], inp.get("how", "replay"))
    elif fn == "points_polygon":
        check_points_polygon(rep, pp, inp["polygon"], list(T(inp["points"])))
    elif fn == "segments_polygon":
        check_segments_polygon(rep, pp, inp["polygon"], [T(s) for s in inp["segments"]])
    elif fn == "points_segments":
        import numpy as np

        p, s, e = (tuple(int(c) for c in inp[k]) for k in ("p", "s", "e"))
        d, cp = pp.distances.points_segments(np.array(p, float).reshape((-1, 1)), np.array(s, float).reshape((-1, 1)), np.array(e, float).reshape((-1, 1)))
        D2, C = d2_point_seg(p, s, e)
        tol = RTOL * scale_of(p, s, e)
        print("replay: d", d, "exact d^2", D2, "cp", cp, "exact", C)
        return (not dist_matches(d[0, 0], D2, tol)) or (not pts_close(cp[0, 0], C, tol))
    elif fn == "point_pointset":
        import numpy as np

        p = tuple(int(c) for c in inp["p"])
        bad = False
        for q in inp["set"]:
            q = tuple(int(c) for c in q)
            d = pp.distances.point_pointset(np.array(p, float), np.array(q, float))
            bad |= not dist_matches(d[0], Fraction(dot(sub(p, q), sub(p, q))), RTOL * scale_of(p, q))
        return bad
    for v in rep.violations:
        print("replay:", v["obligation"], "|", v["signature"], "|", v["detail"])
    return bool(rep.violations)
