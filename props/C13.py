"""C13 -- MPSA reproduces linear displacement fields exactly.

Tier B (bounded run-time contract sweep; deduction not applicable, DESIGN section 8/C13).

Contract on the real ``pp.Mpsa(kw).discretize(sd, data)``:

requires  sd a valid 2-D/3-D grid (Cartesian, structured simplex, node-perturbed / affine image); constant isotropic
          stiffness (mu > 0, lambda >= 0); every boundary face entirely Dirichlet or entirely Neumann, >= 1 Dirichlet
          face; and (the statement's restriction) all-Dirichlet, or 2-D, or 3-D with no two Neumann boundary faces
          sharing an edge (= two common nodes).  Generated layouts violating the restriction are skipped.
ensures   for u(x) = u0 + G x, sigma = 2 mu sym(G) + lambda tr(G) I, u_c = u(cell centres), boundary data u(x_f) on
          Dirichlet faces and the outward traction s_f sigma n_f on Neumann faces (porepy convention, integrated over
          the face), with the face-major ordering [f*nd + i]:
            (1) stress u_c + bound_stress u_b = sigma n_f            on every non-Neumann face (interior + Dirichlet),
            (2) G = 0 (rigid translation)    => zero traction on every face,
            (3) bound_displacement_cell u_c + bound_displacement_face u_b = u(x_f) on Dirichlet faces.
          Linear in (u0, G): the basis of nd translations + nd*nd unit gradients (6 fields in 2-D, 12 in 3-D, rotations
          are differences of unit gradients) covers ALL affine displacement fields.  Expected values are computed in
          dense numpy from geometry arrays and Hooke's law, never from the discretisation.

Detection power (scratch copy, one mutant at a time, POREPY_SRC=<copy>):
  M1 mpsa.py _create_bound_rhs: Neumann coefficient ``neu_val = 1/num_face_nodes`` -> ``-1/num_face_nodes``   caught by (1)
  M2 mpsa.py _create_bound_rhs: Dirichlet coefficient ``dir_val = sgn_nd[dir_ind_all]`` -> ``np.abs(...)``     caught by (1),(2),(3)
  M3 _fvutils.py compute_dist_face_cell: ``eta_vec[bnd] = 0`` dropped                                           caught by (1),(3) on simplex grids
  M4 mpsa.py _create_inverse_gradient_matrix: ``pair_over_subfaces_nd(ncsym_all + ncasym)`` -> ``(ncsym_all)`` (asymmetric part of
     the stiffness dropped from the stress-continuity / Neumann rows)                                          caught by (1) (Neumann layouts)
  M5 mpsa.py _unique_hooks_law: ``hook_sym + hook_asym`` -> ``hook_sym - hook_asym``                            caught by (1)
  (A mutant that only changes the symmetric/asymmetric *split* of the stiffness is equivalent w.r.t. this property: for a linear
  field all sub-cell gradients coincide, so the split does not matter -- not counted.)
"""
from __future__ import annotations

META = {
    "level": "exploration",
    "engine": "sweep",
    "technique": "run-time contract sweep (bounded stand-in for deduction): postconditions of the real Mpsa.discretize on an enumerated "
                 "family of grids x Lame parameters x admissible per-face Dirichlet/Neumann layouts; the affine-displacement quantifier "
                 "is discharged completely by the basis of nd translations + nd*nd unit gradients (linearity)",
    "text": "Bounded assurance only on the enumerated family. Deduction not applicable (floating-point local inverses). Not covered: "
            "component-wise mixed conditions on one face, Robin conditions, heterogeneous or anisotropic stiffness (outside the statement).",
    "note": "oracle = Hooke's law sigma(G) n_f from grid geometry arrays (C19); tolerance 1e-9 x (2mu+lambda)*area/h*max|u|",
}

import warnings

import numpy as np

KW = "mechanics"
O_TRAC = "Mpsa.discretize: exact traction of a linear displacement on every non-Neumann face"
O_TRANS = "Mpsa.discretize: rigid translation gives zero traction"
O_TRACE = "Mpsa.discretize: boundary displacement reconstruction exact on Dirichlet faces"
O_RUN = "Mpsa.discretize: terminates without exception on an admissible input"


# ----------------------------------------------------------------------------- grids (JSON-able specs)


def build_grid(pp, spec):
    if spec["kind"] == "prism":
        # extruded triangle grid: triangular faces (3 nodes) and quadrilateral faces (4 nodes) in one grid
        n, phys = spec["n"], spec["phys"]
        g2 = pp.StructuredTriangleGrid(np.array(n[:2]), np.array(phys[:2], dtype=float))
        g2.compute_geometry()
        g, _, _ = pp.grid_extrusion.extrude_grid(g2, np.linspace(0.0, float(phys[2]), n[2] + 1))
    else:
        ctor = {"cart": pp.CartGrid, "tri": pp.StructuredTriangleGrid, "tet": pp.StructuredTetrahedralGrid}[spec["kind"]]
        g = ctor(np.array(spec["n"]), np.array(spec["phys"], dtype=float))
    if spec.get("nodes") is not None:
        g.nodes = np.array(spec["nodes"], dtype=float)
    with warnings.catch_warnings():
        warnings.simplefilter("ignore")
        g.compute_geometry()
    return g


def cells_valid(g):
    if not np.all(g.cell_volumes > 0) or not np.all(g.face_areas > 0):
        return False
    cf = g.cell_faces.tocoo()
    d = g.face_centers[:, cf.row] - g.cell_centers[:, cf.col]
    return bool(np.all(np.sum(d * g.face_normals[:, cf.row], axis=0) * cf.data > 0))


def perturbed(pp, rng, spec, rate):
    g0 = build_grid(pp, spec)
    h = min(p / k for p, k in zip(spec["phys"], spec["n"]))
    for _ in range(20):
        nodes = g0.nodes.copy()
        for i in range(g0.dim):
            nodes[i] += np.array([rng.uniform(-rate, rate) * h for _ in range(g0.num_nodes)])
        s = dict(spec, nodes=np.round(nodes, 12).tolist(), pert=rate)
        if cells_valid(build_grid(pp, s)):
            return s
    return None


def sheared(pp, spec, A):
    g0 = build_grid(pp, spec)
    return dict(spec, nodes=np.round(np.array(A, dtype=float) @ g0.nodes, 12).tolist(), pert="affine")


def grid_specs(pp, rng, quick):
    base = [("cart", [2, 2], [2.0, 2.0]), ("cart", [3, 2], [1.5, 1.0]), ("tri", [2, 2], [1.0, 1.0]), ("tri", [3, 2], [3.0, 1.0]),
            ("cart", [2, 2, 2], [1.0, 2.0, 1.5]), ("tet", [1, 1, 1], [1.0, 1.0, 1.0]), ("tet", [2, 1, 1], [2.0, 1.0, 1.5]),
            ("prism", [2, 2, 2], [1.0, 1.0, 1.5])]
    if not quick:
        base += [("cart", [3, 3], [3.0, 1.5]), ("cart", [1, 1], [1.0, 1.0]), ("tri", [1, 1], [1.0, 1.0]), ("tri", [3, 3], [1.0, 2.0]),
                 ("cart", [3, 2, 2], [1.0, 1.0, 1.0]), ("cart", [1, 1, 1], [1.0, 1.0, 1.0]), ("tet", [2, 2, 1], [1.0, 1.0, 1.0])]
    out = []
    for kind, n, phys in base:
        s = {"kind": kind, "n": n, "phys": phys, "nodes": None, "pert": 0}
        out.append(s)
        for rate in ((0.2,) if quick else (0.1, 0.25)):
            p = perturbed(pp, rng, s, rate)
            if p is not None:
                out.append(p)
        if len(n) == 3:
            out.append(sheared(pp, s, [[1, 0.3, 0.1], [0, 1, 0.2], [0.1, 0, 1.2]]))
        elif not quick:
            out.append(sheared(pp, s, [[1, 0.4, 0], [0.2, 1.1, 0], [0, 0, 1]]))
    return out


LAME = [("mu1-lam1", 1.0, 1.0), ("mu2.5-lam0.3", 2.5, 0.3), ("mu0.7-lam10", 0.7, 10.0)]


# ----------------------------------------------------------------------------- boundary layouts + the statement's restriction


def neumann_faces_share_edge(g, bf, layout):
    """True iff two Neumann boundary faces have >= 2 common nodes (3-D: an edge)."""
    neu = bf[np.array([c == "n" for c in layout])]
    if neu.size < 2:
        return False
    fn = g.face_nodes.tocsc()[:, neu].astype(int)
    common = (fn.T @ fn).toarray()
    np.fill_diagonal(common, 0)
    return bool(common.max() >= 2)


def admissible(g, bf, layout):
    if "d" not in layout:
        return False
    if "n" not in layout or g.dim == 2:
        return True
    return not neumann_faces_share_edge(g, bf, layout)


def bc_layouts(g, rng, n_random):
    bf = g.get_all_boundary_faces()
    nb = bf.size
    out = [("all-dir", "d" * nb)]
    k = rng.randrange(nb)
    out.append(("one-neu", "d" * k + "n" + "d" * (nb - k - 1)))
    if np.unique(np.asarray(g.face_nodes.sum(axis=0)).ravel()).size > 1:
        # faces with different numbers of nodes (prisms): more single-Neumann-face layouts, on faces of both kinds
        for k in rng.sample(range(nb), min(nb, 8)):
            out.append(("one-neu", "d" * k + "n" + "d" * (nb - k - 1)))
    for _ in range(n_random):
        if g.dim == 2:
            s = "".join(rng.choice("dn") for _ in range(nb))
            if "d" not in s:
                k = rng.randrange(nb)
                s = s[:k] + "d" + s[k + 1:]
            out.append(("mix", s))
        else:
            # greedy random set of Neumann faces, pairwise not sharing an edge (maximal w.r.t. a random order)
            order = list(range(nb))
            rng.shuffle(order)
            s = ["d"] * nb
            for k in order[: rng.randrange(2, nb + 1)]:
                s[k] = "n"
                if neumann_faces_share_edge(g, bf, "".join(s)):
                    s[k] = "d"
            out.append(("mix-no-shared-edge", "".join(s)))
            # and an unconstrained draw: exercised only if it happens to satisfy the requires (else skipped)
            out.append(("mix", "".join(rng.choice("ddn") for _ in range(nb))))
    return out


# ----------------------------------------------------------------------------- contract


def evaluate(pp, spec, mu, lam, layout):
    g = build_grid(pp, spec)
    nd, nf, nc = g.dim, g.num_faces, g.num_cells
    bf = g.get_all_boundary_faces()
    is_dir_b = np.array([c == "d" for c in layout])
    bc = pp.BoundaryConditionVectorial(g, bf, ["dir" if d else "neu" for d in is_dir_b])
    C = pp.FourthOrderTensor(mu * np.ones(nc), lam * np.ones(nc))
    data = pp.initialize_data({}, KW, {"bc": bc, "fourth_order_tensor": C})
    try:
        with warnings.catch_warnings():
            warnings.simplefilter("ignore")
            pp.Mpsa(KW).discretize(g, data)
    except Exception as e:
        return [(O_RUN, f"{type(e).__name__}: {e}")]
    M = data[pp.DISCRETIZATION_MATRICES][KW]
    S, BS = M["stress"].toarray(), M["bound_stress"].toarray()
    DC, DF = M["bound_displacement_cell"].toarray(), M["bound_displacement_face"].toarray()
    if S.shape != (nd * nf, nd * nc) or BS.shape != (nd * nf, nd * nf):
        return [(O_TRAC, f"shapes stress {S.shape} bound_stress {BS.shape}")]

    xc, xf, nrm = g.cell_centers[:nd], g.face_centers[:nd], g.face_normals[:nd]
    sgn_b = np.asarray(g.cell_faces[bf].sum(axis=1)).ravel()
    is_dir = np.zeros(nf, dtype=bool)
    is_dir[bf[is_dir_b]] = True
    is_neu = np.zeros(nf, dtype=bool)
    is_neu[bf[~is_dir_b]] = True
    sgn = np.zeros(nf)
    sgn[bf] = sgn_b
    cf = g.cell_faces.tocoo()
    hmin = np.linalg.norm(g.face_centers[:, cf.row] - g.cell_centers[:, cf.col], axis=0).min()
    tscale = (2 * mu + lam) * g.face_areas.max() / hmin
    L = max(1.0, np.abs(g.nodes).max())

    fields = [(np.eye(nd)[i], np.zeros((nd, nd))) for i in range(nd)]
    for i in range(nd):
        for j in range(nd):
            G = np.zeros((nd, nd))
            G[i, j] = 1.0
            fields.append((np.zeros(nd), G))
    bad = []
    for u0, G in fields:
        u = lambda x: u0[:, None] + G @ x  # noqa: E731
        sigma = mu * (G + G.T) + lam * np.trace(G) * np.eye(nd)
        T = sigma @ nrm  # (nd, nf) exact traction in the direction of each face normal
        ub = np.zeros((nd, nf))
        ub[:, is_dir] = u(xf[:, is_dir])
        ub[:, is_neu] = sgn[is_neu] * T[:, is_neu]
        got = (S @ u(xc).ravel("F") + BS @ ub.ravel("F")).reshape((nd, nf), order="F")
        umax = 1.0 if not G.any() else L
        tol = 1e-9 * tscale * umax
        translation = not G.any()
        faces = np.ones(nf, dtype=bool) if translation else ~is_neu
        err = np.abs(got - T).max(axis=0) * faces
        if err.max() > tol:
            f = int(err.argmax())
            kind = "Neumann" if is_neu[f] else ("Dirichlet" if is_dir[f] else "interior")
            bad.append((O_TRANS if translation else O_TRAC,
                        f"u0={u0.tolist()} G={G.tolist()}: face {f} ({kind}) traction {got[:, f].tolist()} expected {T[:, f].tolist()} (tol {tol:.1e})"))
        tr = (DC @ u(xc).ravel("F") + DF @ ub.ravel("F")).reshape((nd, nf), order="F")
        terr = np.abs(tr - u(xf)).max(axis=0) * is_dir
        if terr.max() > 1e-9 * umax:
            f = int(terr.argmax())
            bad.append((O_TRACE, f"u0={u0.tolist()} G={G.tolist()}: Dirichlet face {f} trace {tr[:, f].tolist()} expected {u(xf)[:, f].tolist()}"))
    return bad


def _signature(spec, lname):
    pert = "regular" if spec["pert"] == 0 else ("affine" if spec["pert"] == "affine" else "perturbed")
    return f"{len(spec['n'])}d {spec['kind']} {pert} bc={lname}"


def run(rep):
    import os

    os.environ.setdefault("NUMBA_NUM_THREADS", "4")
    import porepy as pp

    rep.under_contract("pp.Mpsa.discretize", "pp.Mpsa._stress_discretization", "pp.Mpsa._create_bound_rhs",
                       "pp.fvutils.ExcludeBoundaries (vectorial)", "pp.fvutils.compute_dist_face_cell")
    rep.trust("grid geometry arrays (face_normals, face_centers, cell_centers, cell_faces, face_nodes) -- properties C19/C21",
              "dense numpy Hooke's law as oracle")
    rep.assume("Neumann data: traction by the outward normal integrated over the face (porepy convention); "
               "vector quantities ordered face-major / cell-major [k*nd + i]")
    quick = rep.tier == "quick"
    rng = rep.rng
    with rep.sweep(
        "mpsa linear exactness",
        rule="grids {Cartesian, structured triangle/tetrahedral} x {unperturbed, seeded perturbation of all nodes, affine image} x Lame "
             "pairs {(1,1),(2.5,0.3),(0.7,10)} x layouts {all Dirichlet, one Neumann face, seeded mixes; in 3-D greedy random Neumann sets "
             "with no shared edge plus unconstrained draws that are skipped when they violate the statement's restriction}; per case the "
             "complete affine basis (nd translations + nd*nd unit gradients) is checked = all linear displacement fields incl. rotations; "
             "distinct by (grid, Lame, layout); non-trivial = not (unperturbed Cartesian, all-Dirichlet)",
        bound="2-D <= 3x3 cells, 3-D <= 3x2x2 hexahedra / 24 tetrahedra; perturbation <= 0.25 h; "
              + ("2" if quick else "4") + " random layouts per (grid, Lame)",
        exhaustive=False,
    ) as sw:
        for spec in grid_specs(pp, rng, quick):
            g = build_grid(pp, spec)
            if not cells_valid(g):
                sw.skip()
                continue
            bf = g.get_all_boundary_faces()
            lames = LAME
            for tname, mu, lam in lames:
                for lname, layout in bc_layouts(g, rng, 2 if quick else 4):
                    if not admissible(g, bf, layout):
                        sw.skip()
                        continue
                    key = (spec["kind"], tuple(spec["n"]), str(spec["pert"]), hash(str(spec["nodes"])), tname, layout)
                    trivial = spec["kind"] == "cart" and spec["pert"] == 0 and lname == "all-dir"
                    sw.case(key, nontrivial=not trivial,
                            sample={"grid": {k: v for k, v in spec.items() if k != "nodes"}, "lame": [mu, lam], "layout": layout})
                    for ob, detail in evaluate(pp, spec, mu, lam, layout):
                        rep.violation(ob, _signature(spec, lname), inputs={"grid": spec, "mu": mu, "lam": lam, "layout": layout},
                                      detail=detail, confirmed=True)


def replay(data):
    import porepy as pp

    inp = data["inputs"]
    bad = evaluate(pp, inp["grid"], inp["mu"], inp["lam"], inp["layout"])
    for b in bad:
        print("replay:", b)
    return bool(bad)
