"""C34 -- point-set uniquification and set membership (tier B, run-time contract sweep).

Functions under contract (real porepy, imported from POREPY_SRC or /repo/src):
  pp.array_operations.uniquify_point_set, pp.fracs.utils.uniquify_points (its edge bookkeeping on top of
  uniquify_point_set), pp.array_operations.ismember_columns, pp.array_operations.intersect_sets.

Oracles (written from the property statement, O(n^2) brute force, never from the code):
  * clusters  = connected components of the graph "distance < tol" computed by union-find over all pairs;
    requires  = every component has diameter <= tol/100 and components are >= 100*tol apart (otherwise skip);
    ensures   = one representative per cluster, the first-occurring member (exact index and exact coordinates),
                in order of first occurrence; old_2_new maps every point to the rank of its cluster;
                unique[:, old_2_new] within tol of points; points[:, new_2_old] == unique.
  * ismember_columns: ismem[i] <=> exists j: col_i(a) == col_j(b) (columns sorted first when sort=True);
                ia[k] indexes a column of b equal to the k-th member column of a (any such column is accepted).
  * intersect_sets: pairs (i, j) with |a_i - b_j| <= tol by brute force, on inputs where every pairwise distance
                is either <= tol/2 or >= 2*tol (requires; the boundary is left to floating point).
                Consequence of this requires: a pair that is within tol in every coordinate but NOT within tol in the Euclidean
                distance (distance in (tol, sqrt(nd) tol]) is admissible only when sqrt(nd) tol > 2 tol, i.e. for nd >= 5; for
                nd <= 3 the whole interval lies in the excluded band (nd = 4: only its end point).  Such pairs are therefore
                enumerated in dimensions 4-6 (the function is dimension-independent; SparseNdArray and the interpolation tables
                call it with arbitrary nd), with all coordinate differences 0.95 tol (distance >= 2.12 tol for nd >= 5).

Input classes of the uniquify sweeps: (1) clusters in distinct directions whose 2-norms are placed around anchor + tol;
(2) integer / seeded sets; (3) an axis cluster and a diagonal cluster whose 1-norms (resp. max-norms) are placed around each
other's 1-norm (max-norm) + tol in the same way while their 2-norms are far apart -- every cluster inside one 2-norm bin, so
the statement demands the plain result and the known defect below is not involved.

Expected on the unchanged tree (DESIGN section 7, F8): the norm pre-clustering of uniquify_point_set is anchored at the
first (smallest) norm of a bin; a cluster whose member norms lie on both sides of anchor+tol is split into two
representatives.  Signature "cluster norms straddle pre-cluster threshold".  The signature classifier re-computes the
greedy norm bins only to *name* the failing input class; it takes no part in the verdict.

Detection power (scratch copy of /repo/src under /var/tmp, POREPY_SRC=<copy>, quick tier, all exit 1 with VIOLATION):
  M1 uniquify_point_set: drop the final "reordering to preserve the first-encountered order" (ordering = arange)
       -> caught by "uniquify_point_set: representatives in order of first occurrence".
  M2 _unique_points_in_cluster: `if sorted_idx[i] < new_2_old[idx]` -> `>` (keeps the last member instead of the first)
       -> caught by "uniquify_point_set: representative is the first-occurring member".
  M3 ismember_columns: `if sort and a.ndim > 1` -> `if False` (never sorts) -> caught by "ismember_columns: membership mask".
  M4 intersect_sets: a_in_b[ia] -> a_in_b[ib] -> caught by "intersect_sets: a_in_b mask" (and, where ib is out of range for a,
       by "intersect_sets: returns normally on admissible input": exceptions of the code under test are violations, not crashes).
  M5 fracs.utils.uniquify_points: np.diff(e_unique_p[:2]...) == 0 -> == 1 -> caught by "uniquify_points: degenerate edges removed".
  M6 intersect_sets: query_ball_tree(b_tree, tol) -> (..., tol, p=np.inf) (max norm instead of Euclidean distance) -> caught by all four
       intersect_sets obligations with signature "5-d ... close in every coordinate, far in Euclidean distance" (and 6-d); not
       observable for nd <= 3 under the requires of this file (see above).
  M7 uniquify_point_set: pre-clustering norm sqrt(sum(p**2)) -> sum(abs(p)) (1-norm) -> caught by "uniquify_point_set: one
       representative per cluster" with signature "clusters inside one 2-norm bin each, but cluster 1-norms on both sides of
       (a smaller 1-norm + tol)" (input class 3).
"""
from __future__ import annotations

META = {
    "level": "exploration",
    "engine": "sweep",
    "technique": "run-time contract sweep (bounded stand-in for deduction): requires/ensures of the statement evaluated on the real "
                 "functions over exhaustively enumerated small clustered point sets (all norm placements around the pre-clustering "
                 "threshold -- in the 2-norm, and for axis/diagonal cluster pairs in the 1-norm and the max-norm --, all orders of the "
                 "points), exhaustive small integer column sets, 4-6 dimensional sets with pairs close in every coordinate but far in "
                 "Euclidean distance, plus seeded samples",
    "text": "Bounded assurance only: the contract is evaluated natively on every enumerated input; the data-dependent Python/numba "
            "loops over numpy slices and KDTree keep the bodies out of the symbolic engine. Covers uniquify_point_set (count, "
            "first-occurring representative, order, both index maps), fracs.utils.uniquify_points, ismember_columns (sort on/off, "
            "1-d and 2-d) and intersect_sets (all four outputs; dimensions 1-6). Not demanded: which of several equal columns of b "
            "ismember_columns returns (the statement only says 'agree with brute-force comparison'). Not covered: intersect_sets on pairs "
            "at a distance in (tol/2, 2 tol) -- in particular, for nd <= 3, pairs within tol in every coordinate but further than tol "
            "apart (distance in (tol, sqrt(nd) tol]) are excluded by the requires; that distinction (Euclidean vs. max-norm ball) is "
            "exercised in 5 and 6 dimensions only.",
    "note": "trusted: numpy, brute-force O(n^2) oracles in this file; cluster requires: diameter <= tol/100, separation >= 100 tol; "
            "intersect_sets requires all pair distances <= tol/2 or >= 2 tol",
}

import itertools
import math

import numpy as np

SIG_STRADDLE = "cluster norms straddle pre-cluster threshold"


# ----------------------------------------------------------------------------- oracle: clusters


def _clusters(P, tol):
    """Connected components of 'distance < tol' (union-find over all pairs).  Returns (label per point in order of first
    occurrence, max cluster diameter, min inter-cluster distance)."""
    n = P.shape[1]
    par = list(range(n))

    def find(i):
        while par[i] != i:
            par[i] = par[par[i]]
            i = par[i]
        return i

    D = np.zeros((n, n))
    for i in range(n):
        for j in range(i + 1, n):
            d = math.sqrt(float(sum((float(P[k, i]) - float(P[k, j])) ** 2 for k in range(P.shape[0]))))
            D[i, j] = D[j, i] = d
            if d < tol:
                ri, rj = find(i), find(j)
                if ri != rj:
                    par[max(ri, rj)] = min(ri, rj)
    roots = [find(i) for i in range(n)]
    order = []
    for r in roots:
        if r not in order:
            order.append(r)
    lab = [order.index(r) for r in roots]
    diam, sep = 0.0, math.inf
    for i in range(n):
        for j in range(i + 1, n):
            if lab[i] == lab[j]:
                diam = max(diam, D[i, j])
            else:
                sep = min(sep, D[i, j])
    return lab, diam, sep


def _requires_clusters(P, tol):
    lab, diam, sep = _clusters(P, tol)
    ok = diam <= tol / 100 * (1 + 1e-9) and sep >= 100 * tol * (1 - 1e-9)
    return ok, lab


def _straddles(P, tol, lab, p=2):
    """Signature classifier only: does some cluster have members in different greedy norm bins (bins anchored at the
    smallest norm not yet binned, width tol)?  p selects the norm (2, 1 or 'max')."""
    Pf = np.asarray(P, dtype=float)
    if Pf.shape[1] == 0:
        return False
    norms = np.sqrt(np.sum(Pf ** 2, axis=0)) if p == 2 else (np.sum(np.abs(Pf), axis=0) if p == 1 else np.max(np.abs(Pf), axis=0))
    idx = np.argsort(norms, kind="stable")
    bins = np.zeros(len(norms), dtype=int)
    anchor, b = norms[idx[0]], 0
    for i in idx:
        if abs(norms[i] - anchor) > tol:
            b += 1
            anchor = norms[i]
        bins[i] = b
    for c in set(lab):
        if len({bins[i] for i in range(len(lab)) if lab[i] == c}) > 1:
            return True
    return False


def check_uniquify(pp, P, tol):
    """Evaluate the ensures of uniquify_point_set on P (nd x n, C-contiguous).  Returns list of (obligation, detail)."""
    ao = pp.array_operations
    ok, lab = _requires_clusters(P, tol)
    if not ok:
        return None
    n = P.shape[1]
    try:
        U, n2o, o2n = ao.uniquify_point_set(P.copy(), tol)
    except Exception as e:  # an admissible input must not raise
        return [("uniquify_point_set: returns normally on admissible input", f"{type(e).__name__}: {e}")]
    U, n2o, o2n = np.asarray(U), np.asarray(n2o), np.asarray(o2n)
    ncl = (max(lab) + 1) if n else 0
    first = [lab.index(c) for c in range(ncl)]
    bad = []
    if U.shape != (P.shape[0], ncl) or n2o.shape != (ncl,):
        bad.append(("uniquify_point_set: one representative per cluster",
                    f"{ncl} clusters, got unique.shape={U.shape}, new_2_old={n2o.tolist()}"))
        return bad  # the remaining clauses presuppose the right number of representatives
    if o2n.shape != (n,):
        bad.append(("uniquify_point_set: old_2_new has one entry per point", f"shape {o2n.shape} for {n} points"))
        return bad
    if not bad:
        if sorted(n2o.tolist()) != sorted(first):
            bad.append(("uniquify_point_set: representative is the first-occurring member",
                        f"expected new_2_old={first}, got {n2o.tolist()}"))
        elif n2o.tolist() != first:
            bad.append(("uniquify_point_set: representatives in order of first occurrence",
                        f"expected new_2_old={first}, got {n2o.tolist()}"))
        if not bad and not np.array_equal(U, P[:, first]):
            bad.append(("uniquify_point_set: points[:, new_2_old] == unique", f"unique={U.tolist()} expected {P[:, first].tolist()}"))
        if o2n.tolist() != lab:
            bad.append(("uniquify_point_set: old_2_new maps every point to its cluster", f"expected {lab}, got {o2n.tolist()}"))
    # the weaker clauses, evaluated on whatever came back (they localise the failure)
    if n and (o2n.min() < 0 or o2n.max() >= U.shape[1]):
        bad.append(("uniquify_point_set: old_2_new in range", f"{o2n.tolist()} with {U.shape[1]} unique points"))
    elif n:
        d = np.sqrt(np.sum((U[:, o2n].astype(float) - P.astype(float)) ** 2, axis=0))
        if np.any(d > tol):
            bad.append(("uniquify_point_set: unique[:, old_2_new] within tol of points", f"max distance {d.max()} tol {tol}"))
        for i in range(n):
            for j in range(n):
                if (lab[i] == lab[j]) != (o2n[i] == o2n[j]):
                    bad.append(("uniquify_point_set: points share a representative iff they share a cluster",
                                f"points {i},{j}: same cluster={lab[i] == lab[j]}, old_2_new={o2n[i]},{o2n[j]}"))
                    break
            else:
                continue
            break
    return bad


def check_uniquify_points(pp, P, E, tol):
    """fracs.utils.uniquify_points(pts, edges, tol): edges re-indexed to cluster representatives, degenerate edges removed."""
    ok, lab = _requires_clusters(P, tol)
    if not ok:
        return None
    ncl = (max(lab) + 1) if P.shape[1] else 0
    first = [lab.index(c) for c in range(ncl)]
    try:
        pu, eu, removed = pp.fracs.utils.uniquify_points(P.copy(), E.copy(), tol)
    except Exception as e:
        return [("uniquify_points: returns normally on admissible input", f"{type(e).__name__}: {e}")]
    bad = []
    lab_a = np.array(lab, dtype=int)
    mapped = np.vstack((lab_a[E[:2]], E[2:]))
    degenerate = [k for k in range(E.shape[1]) if mapped[0, k] == mapped[1, k]]
    keep = [k for k in range(E.shape[1]) if k not in degenerate]
    if not np.array_equal(np.asarray(pu), P[:, first]):
        bad.append(("uniquify_points: unique points are the first-occurring cluster members",
                    f"expected {P[:, first].tolist()}, got {np.asarray(pu).tolist()}"))
        return bad  # edge clauses presuppose the right point set
    if sorted(np.asarray(removed).ravel().tolist()) != degenerate:
        bad.append(("uniquify_points: degenerate edges removed", f"expected removed {degenerate}, got {np.asarray(removed).ravel().tolist()}"))
    elif not np.array_equal(np.asarray(eu), mapped[:, keep]):
        bad.append(("uniquify_points: edges re-indexed to cluster representatives, tags kept",
                    f"expected {mapped[:, keep].tolist()}, got {np.asarray(eu).tolist()}"))
    return bad


# ----------------------------------------------------------------------------- generators


def _directions(nd):
    if nd == 1:
        return [np.array([1.0]), np.array([-1.0])]
    if nd == 2:
        s = math.sqrt(0.5)
        return [np.array(v) for v in ([1.0, 0.0], [0.0, 1.0], [-1.0, 0.0], [0.0, -1.0], [s, s], [-s, s])]
    return [np.array(v) for v in ([1.0, 0, 0], [0, 1.0, 0], [0, 0, 1.0], [-1.0, 0, 0], [0, -1.0, 0], [0.6, 0, 0.8])]


# radial position of a cluster centre relative to the anchor norm r0, in units of tol, and what it is meant to hit
PLACEMENTS = {
    "same": 0.0,  # same norm as the anchor cluster
    "inside": 0.5,  # well inside the anchor's bin
    "below": 1.0 - 0.02,  # whole cluster just below anchor + tol
    "straddle": 1.0,  # members on both sides of anchor + tol
    "above": 1.0 + 0.02,  # whole cluster just above
    "second": 2.018,  # straddles the threshold of a bin anchored one tol higher (when such a bin exists)
    "far": 7.3,
}
# radial offsets of members relative to the cluster centre, in units of tol (diameter <= 2*0.004 = tol/125)
MEMBER_OFFSETS = (-0.004, 0.0, 0.004)


def _build(nd, tol, r0, spec):
    """spec: list of (direction index, placement name, tuple of member offsets).  Points in cluster-major order."""
    dirs = _directions(nd)
    cols, lab = [], []
    for c, (di, plc, offs) in enumerate(spec):
        for o in offs:
            cols.append(dirs[di] * (r0 + (PLACEMENTS[plc] + o) * tol))
            lab.append(c)
    return np.ascontiguousarray(np.array(cols).T), lab


def _orders(n, rng, limit):
    perms = list(itertools.permutations(range(n)))
    if len(perms) <= limit:
        return perms
    out = [tuple(range(n)), tuple(reversed(range(n)))]
    while len(out) < limit:
        p = list(range(n))
        rng.shuffle(p)
        out.append(tuple(p))
    return out


def _member_sets(quick):
    sets = [(0.0,), (-0.004, 0.004), (0.004, -0.004), (-0.004, 0.0, 0.004)]
    return sets[:3] if quick else sets


def _sig(P, tol, lab):
    if _straddles(P, tol, lab):
        return SIG_STRADDLE
    if _straddles(P, tol, lab, 1):
        return "clusters inside one 2-norm bin each, but cluster 1-norms on both sides of (a smaller 1-norm + tol)"
    if _straddles(P, tol, lab, "max"):
        return "clusters inside one 2-norm bin each, but cluster max-norms on both sides of (a smaller max-norm + tol)"
    return "clusters inside one norm bin each"


def _report(rep, bad, P, tol, lab, extra=None):
    for ob, detail in bad:
        inp = {"points": P.tolist(), "tol": tol}
        if extra:
            inp.update(extra)
        rep.violation(ob, _sig(P, tol, lab), inputs=inp, detail=detail, confirmed=True)


def _sweep_uniquify(rep, pp):
    quick = rep.tier == "quick"
    rng = rep.rng
    with rep.sweep(
        "uniquify_point_set: clusters around the norm pre-clustering threshold",
        rule="nd in {1,2,3} x tol in {1e-3, 1e-8, 0.25} x anchor norm r0 = 1000 tol (and 1.0 for tol 1e-3) x 1-3 clusters in distinct "
             "directions, the first at norm r0, the others at r0 + p*tol for every placement p in {same, inside, below, straddle, above, "
             "second, far} x member radial offsets from {-.004, 0, +.004} tol x all orders of the points (<= 5 points: all "
             "permutations; more: 24 seeded); requires re-checked by brute force (diameter <= tol/100, separation >= 100 tol); "
             "nontrivial = at least two clusters whose norms differ by less than 3 tol or a cluster with > 1 member; distinct by "
             "(nd, tol, r0, spec, order)",
        bound="<= 3 clusters, <= 3 members per cluster, <= 7 points",
        exhaustive=True,
    ) as sw:
        tols = [(1e-3, 1.0), (1e-3, None), (1e-8, None), (0.25, None)]
        if quick:
            tols = [(1e-3, 1.0), (1e-8, None), (0.25, None)]
        msets = _member_sets(quick)
        plcs = list(PLACEMENTS)
        for nd in (1, 2, 3):
            ndir = len(_directions(nd))
            for tol, r0 in tols:
                r0 = 1000 * tol if r0 is None else r0
                specs = []
                # one cluster
                for m in msets:
                    specs.append([(0, "same", m)])
                # two clusters: anchor cluster (single or pair) + a placed cluster
                for plc in plcs:
                    for m0 in msets[:2]:
                        for m1 in msets:
                            for d1 in ((1,) if (quick or nd == 1) else (1, 4)):
                                specs.append([(0, "same", m0), (d1, plc, m1)])
                # three clusters (needs >= 3 directions)
                if ndir >= 3:
                    for p1 in plcs:
                        for p2 in (("straddle", "second", "above") if quick else plcs):
                            for m1, m2 in (((0.0,), (-0.004, 0.004)), ((-0.004, 0.004), (0.004, -0.004))):
                                specs.append([(0, "same", (0.0,)), (1, p1, m1), (2, p2, m2)])
                for spec in specs:
                    P0, lab0 = _build(nd, tol, r0, spec)
                    n = P0.shape[1]
                    for order in _orders(n, rng, 120 if n <= 5 else 24):
                        P = np.ascontiguousarray(P0[:, list(order)])
                        bad = check_uniquify(pp, P, tol)
                        if bad is None:
                            sw.skip()
                            continue
                        _, lab = _requires_clusters(P, tol)
                        close = len(spec) > 1 and any(PLACEMENTS[s[1]] < 3 for s in spec[1:])
                        nontrivial = close or any(len(s[2]) > 1 for s in spec)
                        sw.case((nd, tol, r0, tuple((a, b, c) for a, b, c in spec), order), nontrivial=nontrivial,
                                sample={"points": P.tolist(), "tol": tol})
                        _report(rep, bad, P, tol, lab)

    with rep.sweep(
        "uniquify_point_set: integer and seeded point sets",
        rule="(a) all integer 2 x n arrays with entries 0..2, n <= 4 (int64 and float64), tol = 0.005: equivalent to np.unique up to "
             "order; empty array; (b) seeded: 2-6 random cluster centres in [-5,5]^nd at mutual distance >= 100 tol, 1-4 members "
             "each displaced by <= tol/250 per coordinate, random interleaving; sets violating the requires are skipped; "
             "nontrivial = some cluster has > 1 member; distinct by the point array",
        bound="(a) n <= 4 exhaustive; (b) %d seeded sets" % (300 if quick else 6000),
        exhaustive=False,
    ) as sw:
        for n in range(0, 5):
            for vals in itertools.product(range(3), repeat=2 * n):
                for dt in (np.int64, np.float64):
                    if dt is np.int64 and quick and n == 4:
                        continue
                    P = np.ascontiguousarray(np.array(vals, dtype=dt).reshape(2, n))
                    bad = check_uniquify(pp, P, 0.005)
                    if bad is None:
                        sw.skip()
                        continue
                    _, lab = _requires_clusters(P, 0.005)
                    sw.case(("int", dt.__name__, vals, n), nontrivial=len(set(lab)) < n, sample={"points": P.tolist(), "tol": 0.005})
                    _report(rep, bad, P, 0.005, lab)
        for it in range(300 if quick else 6000):
            nd = rng.choice((1, 2, 3))
            tol = rng.choice((1e-2, 1e-4, 1e-6))
            k = rng.randint(2, 6)
            cols = []
            for c in range(k):
                cen = [rng.uniform(-5, 5) for _ in range(nd)]
                for _ in range(rng.randint(1, 4)):
                    cols.append([x + rng.uniform(-1, 1) * tol / 250 for x in cen])
            rng.shuffle(cols)
            P = np.ascontiguousarray(np.array(cols).T)
            bad = check_uniquify(pp, P, tol)
            if bad is None:
                sw.skip()
                continue
            _, lab = _requires_clusters(P, tol)
            sw.case(("rnd", P.tobytes()), nontrivial=len(set(lab)) < P.shape[1], sample={"points": P.tolist(), "tol": tol})
            _report(rep, bad, P, tol, lab)

    with rep.sweep(
        "fracs.utils.uniquify_points: edge bookkeeping",
        rule="2-d point sets of 2-3 clusters (placements same/straddle/far, 1-2 members) x every edge list of 1-3 edges over the "
             "points incl. edges inside one cluster (degenerate after merging), point edges (i,i) and a tag row; nontrivial = at "
             "least one edge is degenerate after merging or two points merge; distinct by (points, edges)",
        bound="<= 5 points, <= 3 edges (all edge lists when <= 400, else 400 seeded)",
        exhaustive=False,
    ) as sw:
        tol, r0 = 1e-4, 0.1
        for plc in ("same", "straddle", "far"):
            for m0, m1 in (((0.0,), (-0.004, 0.004)), ((-0.004, 0.004), (0.004, -0.004)), ((0.0,), (0.0,))):
                for third in (None, "above"):
                    spec = [(0, "same", m0), (1, plc, m1)] + ([(2, third, (0.0,))] if third else [])
                    P0, _ = _build(2, tol, r0, spec)
                    n = P0.shape[1]
                    order = list(range(n))
                    rng.shuffle(order)
                    P = np.ascontiguousarray(P0[:, order])
                    pairs = [(i, j) for i in range(n) for j in range(n)]
                    elists = [el for ne in (1, 2, 3) for el in itertools.product(pairs, repeat=ne)]
                    if len(elists) > (150 if quick else 400):
                        elists = rng.sample(elists, 150 if quick else 400)
                    for el in elists:
                        E = np.array([[e[0] for e in el], [e[1] for e in el], list(range(10, 10 + len(el)))], dtype=int)
                        bad = check_uniquify_points(pp, P, E, tol)
                        if bad is None:
                            sw.skip()
                            continue
                        _, lab = _requires_clusters(P, tol)
                        deg = any(lab[a] == lab[b] for a, b in el)
                        sw.case((P.tobytes(), el), nontrivial=deg or len(set(lab)) < n, sample={"points": P.tolist(), "edges": E.tolist(), "tol": tol})
                        _report(rep, bad, P, tol, lab, extra={"edges": E.tolist()})

    # "Cluster norms close to each other" with the norm read as the 1-norm or the max-norm: an axis cluster and a diagonal cluster
    # whose p-norms (p = 1, max) are placed around each other's p-norm + tol exactly like the 2-norms in the first sweep, while their
    # 2-norms differ by a factor >= sqrt(2) (so every cluster lies inside one 2-norm bin: not the known 2-norm straddling class).
    with rep.sweep(
        "uniquify_point_set: axis and diagonal clusters with close 1-norms / max-norms",
        rule="nd in {2,3,5} x tol in {1e-3, 1e-8, 0.25} x r0 = 1000 tol (and 1.0 for tol 1e-3) x p in {1, max} x roles {anchor on a "
             "diagonal (all |coordinates| equal, signs alternating or equal), other cluster on a coordinate axis (first/last, +/-); anchor "
             "on the axis, other on the diagonal}: anchor cluster (1-2 members) with p-norm r0, the other cluster with p-norm r0 + (P + o) "
             "tol for every placement P in {same, inside, below, straddle, above, second, far} and member offsets o from {-.0016, 0, "
             "+.0016} (measured in the p-norm along the cluster's ray) x all orders of the points; requires re-checked by brute force "
             "(Euclidean diameter <= tol/100, separation >= 100 tol); nontrivial = P < 3 or a cluster with > 1 member; distinct by "
             "(nd, tol, r0, p, role, spec, order)",
        bound="2 clusters, <= 2 + 3 members, all permutations",
        exhaustive=True,
    ) as sw:
        tols = [(1e-3, 1.0), (1e-8, None), (0.25, None)] if quick else [(1e-3, 1.0), (1e-3, None), (1e-8, None), (0.25, None)]
        msets = _member_sets(quick)
        for nd in (2, 3, 5):
            diags = [np.array([1.0 if k % 2 == 0 else -1.0 for k in range(nd)]), np.ones(nd)]
            axes = []
            for k, s in ((0, 1.0), (nd - 1, -1.0)):
                e = np.zeros(nd)
                e[k] = s
                axes.append(e)
            for tol, r0 in tols:
                r0 = 1000 * tol if r0 is None else r0
                for p in (1, "max"):
                    # unit vectors of the p-norm along the rays
                    rays_d = [d / (nd if p == 1 else 1.0) for d in diags]
                    for role in ("anchor diagonal", "anchor axis"):
                        for vi in range(2):
                            ra, rb = (rays_d[vi], axes[vi]) if role == "anchor diagonal" else (axes[vi], rays_d[vi])
                            for plc in PLACEMENTS:
                                for m0 in msets[:2]:
                                    for m1 in msets:
                                        # offsets scaled by 0.4: a diagonal cluster of max-norm width w has Euclidean diameter sqrt(nd) w
                                        cols = [ra * (r0 + 0.4 * o * tol) for o in m0] + \
                                               [rb * (r0 + (PLACEMENTS[plc] + 0.4 * o) * tol) for o in m1]
                                        P0 = np.ascontiguousarray(np.array(cols).T)
                                        n = P0.shape[1]
                                        assert n <= 5  # all permutations, no seeded orders
                                        for order in itertools.permutations(range(n)):
                                            P = np.ascontiguousarray(P0[:, list(order)])
                                            bad = check_uniquify(pp, P, tol)
                                            if bad is None:
                                                sw.skip()
                                                continue
                                            _, lab = _requires_clusters(P, tol)
                                            sw.case((nd, tol, r0, p, role, vi, plc, m0, m1, order),
                                                    nontrivial=PLACEMENTS[plc] < 3 or len(m0) > 1 or len(m1) > 1,
                                                    sample={"points": P.tolist(), "tol": tol})
                                            _report(rep, bad, P, tol, lab)


# ----------------------------------------------------------------------------- ismember_columns


def check_ismember(pp, a, b, sort):
    try:
        ism, ia = pp.array_operations.ismember_columns(a.copy(), b.copy(), sort=sort)
    except Exception as e:
        return [("ismember_columns: returns normally on admissible input", f"{type(e).__name__}: {e}")]
    ism, ia = np.asarray(ism), np.asarray(ia)
    if a.ndim == 1:
        ca, cb = [(int(x),) for x in a], [(int(x),) for x in b]
    else:
        f = (lambda c: tuple(sorted(int(x) for x in c))) if sort else (lambda c: tuple(int(x) for x in c))
        ca, cb = [f(a[:, i]) for i in range(a.shape[1])], [f(b[:, j]) for j in range(b.shape[1])]
    exp = [c in cb for c in ca]
    bad = []
    if ism.shape != (len(ca),) or ism.tolist() != exp:
        bad.append(("ismember_columns: membership mask", f"expected {exp}, got {ism.tolist()}"))
        return bad
    members = [c for c, e in zip(ca, exp) if e]
    if ia.shape != (len(members),):
        bad.append(("ismember_columns: one index into b per member column of a", f"{len(members)} members, ia={ia.tolist()}"))
        return bad
    for k, c in enumerate(members):
        j = int(ia[k])
        if not (0 <= j < len(cb)) or cb[j] != c:
            bad.append(("ismember_columns: b[:, ia[k]] equals the k-th member column of a", f"k={k} column {c} ia={ia.tolist()}"))
            break
    return bad


def _sweep_ismember(rep, pp):
    quick = rep.tier == "quick"
    rng = rep.rng
    with rep.sweep(
        "ismember_columns",
        rule="all pairs (a, b) of integer arrays: 1-d with entries 0..2 and lengths <= 3; 2 x n with entries 0..1, na, nb <= 3; "
             "2 x n with entries 0..2, na, nb <= 2; each with sort=True and sort=False; plus seeded 3 x n arrays (entries 0..3, "
             "n <= 6) and seeded 1-3 row arrays with entries of either sign and up to 1e9; nontrivial = some but not all columns of a are members, or b holds a repeated column; distinct by (a, b, sort)",
        bound="lengths <= 3 / entries <= 2 exhaustive; %d seeded" % (300 if quick else 5000),
        exhaustive=False,
    ) as sw:
        def one(a, b, sort, key):
            bad = check_ismember(pp, a, b, sort)
            ncols_b = b.shape[-1]
            cb = {tuple(np.atleast_2d(b)[:, j]) for j in range(ncols_b)}
            ism = [tuple(np.atleast_2d(a)[:, i]) in cb for i in range(a.shape[-1])]
            nontrivial = (any(ism) and not all(ism)) or len(cb) < ncols_b
            sw.case(key, nontrivial=nontrivial, sample={"a": a.tolist(), "b": b.tolist(), "sort": sort})
            for ob, detail in bad:
                sig = ("1-d" if a.ndim == 1 else f"{a.shape[0]}-row") + (" sort" if sort else " nosort") + \
                      (" empty" if 0 in (a.shape[-1], b.shape[-1]) else "")
                rep.violation(ob, sig, inputs={"a": a.tolist(), "b": b.tolist(), "sort": sort}, detail=detail, confirmed=True)

        for na in range(0, 4):
            for nb in range(0, 4):
                for va in itertools.product(range(3), repeat=na):
                    for vb in itertools.product(range(3), repeat=nb):
                        a, b = np.array(va, dtype=np.int64), np.array(vb, dtype=np.int64)
                        one(a, b, True, ("1d", va, vb))
        for hi, nmax in ((2, 3), (3, 2)):
            cols = list(itertools.product(range(hi), repeat=2))
            for na in range(0, nmax + 1):
                for nb in range(0, nmax + 1):
                    for ca in itertools.product(cols, repeat=na):
                        for cb in itertools.product(cols, repeat=nb):
                            a = np.array(ca, dtype=np.int64).reshape(na, 2).T
                            b = np.array(cb, dtype=np.int64).reshape(nb, 2).T
                            for sort in (True, False):
                                one(a, b, sort, ("2d", ca, cb, sort))
        for it in range(300 if quick else 5000):
            na, nb = rng.randint(1, 6), rng.randint(1, 6)
            a = np.array([[rng.randint(0, 3) for _ in range(na)] for _ in range(3)], dtype=np.int64)
            b = np.array([[rng.randint(0, 3) for _ in range(nb)] for _ in range(3)], dtype=np.int64)
            if rng.random() < 0.5 and nb:
                # plant columns of a (possibly permuted) in b
                for j in range(nb):
                    if rng.random() < 0.5:
                        c = list(a[:, rng.randrange(na)])
                        rng.shuffle(c)
                        b[:, j] = c
            for sort in (True, False):
                one(a, b, sort, ("3d", a.tobytes(), b.tobytes(), na, sort))
        # entries of either sign and of large magnitude (integer columns are compared as such: no sign or size is special)
        for it in range(150 if quick else 2500):
            nr = rng.choice((1, 2, 2, 3))
            na, nb = rng.randint(1, 6), rng.randint(1, 6)
            vals = rng.choice(([-2, -1, 0, 1, 2], [-3, -1, 0, 2], [-10 ** 9, -1, 0, 1, 10 ** 9]))
            a = np.array([[rng.choice(vals) for _ in range(na)] for _ in range(nr)], dtype=np.int64)
            b = np.array([[rng.choice(vals) for _ in range(nb)] for _ in range(nr)], dtype=np.int64)
            for j in range(nb):
                if rng.random() < 0.4:
                    b[:, j] = a[:, rng.randrange(na)]
            if nr == 1:
                a, b = a[0], b[0]
            for sort in ((True,) if nr == 1 else (True, False)):
                one(a, b, sort, ("signed", nr, a.tobytes(), b.tobytes(), na, sort))


# ----------------------------------------------------------------------------- intersect_sets


def check_intersect(pp, a, b, tol):
    """None if the requires (no pair distance in (tol/2, 2 tol)) fails."""
    A, B = np.atleast_2d(a), np.atleast_2d(b)
    na, nb = A.shape[1], B.shape[1]
    pairs = []
    for i in range(na):
        for j in range(nb):
            d = math.sqrt(float(sum((float(A[k, i]) - float(B[k, j])) ** 2 for k in range(A.shape[0]))))
            if tol / 2 < d < 2 * tol:
                return None
            if d <= tol / 2:
                pairs.append((i, j))
    try:
        ia, ib, a_in_b, inter = pp.array_operations.intersect_sets(a.copy(), b.copy(), tol)
    except Exception as e:
        return [("intersect_sets: returns normally on admissible input", f"{type(e).__name__}: {e}")]
    exp_ia = sorted({i for i, _ in pairs})
    exp_ib = sorted({j for _, j in pairs})
    bad = []
    if np.asarray(ia).tolist() != exp_ia:
        bad.append(("intersect_sets: ia = sorted indices of a found in b", f"expected {exp_ia}, got {np.asarray(ia).tolist()}"))
    if np.asarray(ib).tolist() != exp_ib:
        bad.append(("intersect_sets: ib = sorted indices of b found in a", f"expected {exp_ib}, got {np.asarray(ib).tolist()}"))
    exp_mask = [i in exp_ia for i in range(na)]
    if np.asarray(a_in_b).dtype != bool or np.asarray(a_in_b).tolist() != exp_mask:
        bad.append(("intersect_sets: a_in_b mask", f"expected {exp_mask}, got {np.asarray(a_in_b).tolist()}"))
    exp_l = [sorted(j for i2, j in pairs if i2 == i) for i in range(na)]
    got_l = [sorted(int(j) for j in l) for l in inter]
    if got_l != exp_l:
        bad.append(("intersect_sets: intersection lists all matching columns of b per column of a", f"expected {exp_l}, got {got_l}"))
    return bad


def _sweep_intersect(rep, pp):
    quick = rep.tier == "quick"
    rng = rep.rng
    with rep.sweep(
        "intersect_sets",
        rule="(a) all pairs of integer 1 x n (entries 0..2, n <= 3) and 2 x n (entries 0..1, n <= 3 quick / entries 0..2, n <= 2 "
             "also in thorough) arrays, tol = 1e-10 default and 0.25; (b) seeded float sets in 1-3 dimensions: columns of b are "
             "copies of columns of a displaced by <= tol/4 per axis-norm, or fresh points; inputs with a pair distance in "
             "(tol/2, 2 tol) are skipped; nontrivial = at least one match and one non-match, or a column matched more than once; "
             "distinct by (a, b, tol)",
        bound="n <= 3 exhaustive; %d seeded" % (300 if quick else 5000),
        exhaustive=False,
    ) as sw_first:
        def one(a, b, tol, key, sw=None, tag=""):
            sw = sw_first if sw is None else sw
            bad = check_intersect(pp, a, b, tol)
            if bad is None:
                sw.skip()
                return
            A, B = np.atleast_2d(a), np.atleast_2d(b)
            m = [[float(np.linalg.norm(A[:, i].astype(float) - B[:, j].astype(float))) <= tol for j in range(B.shape[1])] for i in range(A.shape[1])]
            hit = [any(r) for r in m]
            multi = any(sum(r) > 1 for r in m) or any(sum(m[i][j] for i in range(len(m))) > 1 for j in range(B.shape[1]))
            sw.case(key, nontrivial=(any(hit) and not all(hit)) or multi, sample={"a": A.tolist(), "b": B.tolist(), "tol": tol})
            for ob, detail in bad:
                sig = f"{A.shape[0]}-d" + (" empty" if 0 in (A.shape[1], B.shape[1]) else (" multi-match" if multi else "")) + tag
                rep.violation(ob, sig, inputs={"a": a.tolist(), "b": b.tolist(), "tol": tol}, detail=detail, confirmed=True)

        # KDTree needs at least a well-formed (n, nd) array; n = 0 is what SparseNdArray passes on its first add.
        for nd, hi, nmax in ((1, 3, 3), (2, 2, 3)) + (() if quick else ((2, 3, 2),)):
            cols = list(itertools.product(range(hi), repeat=nd))
            for na in range(0, nmax + 1):
                for nb in range(0, nmax + 1):
                    for ca in itertools.product(cols, repeat=na):
                        for cb in itertools.product(cols, repeat=nb):
                            a = np.array(ca, dtype=float).reshape(na, nd).T
                            b = np.array(cb, dtype=float).reshape(nb, nd).T
                            for tol in (1e-10, 0.25):
                                one(a, b, tol, (nd, ca, cb, tol))
        # 1-d arrays passed as 1-d (atleast_2d path)
        for va in itertools.product(range(3), repeat=2):
            for vb in itertools.product(range(3), repeat=2):
                one(np.array(va, dtype=float), np.array(vb, dtype=float), 1e-10, ("flat", va, vb))
        for it in range(300 if quick else 5000):
            nd = rng.choice((1, 2, 3))
            tol = rng.choice((1e-10, 1e-6, 1e-2))
            na, nb = rng.randint(1, 6), rng.randint(1, 6)
            a = np.array([[rng.uniform(-1, 1) for _ in range(na)] for _ in range(nd)])
            bc = []
            for j in range(nb):
                if rng.random() < 0.6:
                    c = a[:, rng.randrange(na)].copy()
                    v = np.array([rng.uniform(-1, 1) for _ in range(nd)])
                    v = v / max(np.linalg.norm(v), 1e-300) * rng.uniform(0, tol / 4)
                    bc.append(c + v)
                else:
                    bc.append(np.array([rng.uniform(-1, 1) for _ in range(nd)]))
            b = np.array(bc).T
            one(a, b, tol, ("rnd", a.tobytes(), b.tobytes(), tol))

    # Displacement types of a column of b relative to "its" column of a, in units of tol; c is the common size of ALL coordinate
    # differences (signs alternate for the "mixed" types).  Euclidean distance = c * sqrt(nd) * tol.
    #   near:  c = 0.2   -> distance <= 0.49 tol for nd <= 6                      (must match)
    #   box :  c = 0.95  -> distance >= 2.12 tol for nd >= 5, but every coordinate differs by less than tol   (must NOT match)
    #   axis-near / axis-far: a single coordinate differs by 0.4 tol / 2.5 tol      (match / no match)
    with rep.sweep(
        "intersect_sets: dimensions 4-6, pairs close in every coordinate but not in Euclidean distance",
        rule="nd in {4,5,6} x tol in {1e-10, 1e-6, 1e-2, 0.25}: a = two fixed well separated columns (and a third one in thorough); every "
             "column of b is a column of a displaced by one of: nothing (exact copy), c*tol in EVERY coordinate with c = 0.2 (Euclidean "
             "distance <= tol/2: match) or, for nd >= 5, c = 0.95 (every coordinate differs by less than tol but the Euclidean distance is "
             ">= 2.1 tol: no match), all signs equal or alternating, or 0.4 tol / 2.5 tol along a single axis; all assignments of a "
             "displacement type (or 'absent') to the columns; columns of b in given and reversed order; the requires (no distance in "
             "(tol/2, 2 tol)) is re-checked on the floats, which is why the diagonal non-match needs nd >= 5: for nd <= 3 (and nd = 4 "
             "up to rounding) every distance in (tol, sqrt(nd) tol] lies inside the excluded band; nontrivial = at least one match and "
             "one non-match; distinct by (nd, tol, types, order)",
        bound="2 (thorough 3) columns of a, 9 displacement types each",
        exhaustive=True,
    ) as sw2:
        types = ["absent", "copy", "near+", "near+-", "box+", "box+-", "axis-near", "axis-far", "copy twice"]
        for nd in (4, 5, 6):
            base = np.array([[0.5 + 0.125 * k, -0.25 - 0.0625 * k, 0.75 - 0.5 * k][: 2 if quick else 3] for k in range(nd)])
            na = base.shape[1]
            alt = np.array([1.0 if k % 2 == 0 else -1.0 for k in range(nd)])
            for tol in (1e-10, 1e-6, 1e-2, 0.25):
                sc = 1.0 if tol < 0.1 else 40.0  # keep the columns of a >= 2 tol apart for the coarse tolerance
                a = base * sc
                for assign in itertools.product(types, repeat=na):
                    if any(t.startswith("box") for t in assign) and nd < 5:
                        continue
                    cols = []
                    for i, t in enumerate(assign):
                        c0 = a[:, i]
                        if t == "absent":
                            continue
                        elif t == "copy":
                            cols.append(c0.copy())
                        elif t == "copy twice":
                            cols += [c0.copy(), c0 + 0.2 * tol * alt]
                        elif t in ("near+", "near+-"):
                            cols.append(c0 + 0.2 * tol * (np.ones(nd) if t == "near+" else alt))
                        elif t in ("box+", "box+-"):
                            cols.append(c0 + 0.95 * tol * (np.ones(nd) if t == "box+" else alt))
                        else:
                            v = np.zeros(nd)
                            v[(i + 1) % nd] = (0.4 if t == "axis-near" else 2.5) * tol
                            cols.append(c0 + v)
                    for rev in (False, True):
                        cc = cols[::-1] if rev else cols
                        if rev and len(cols) < 2:
                            continue
                        b = np.array(cc).T.reshape(nd, len(cc))
                        one(a, b, tol, ("hd", nd, tol, assign, rev), sw=sw2,
                            tag=" close in every coordinate, far in Euclidean distance" if any(t.startswith("box") for t in assign) else "")


# ----------------------------------------------------------------------------- entry


def run(rep):
    import porepy as pp

    rep.under_contract("pp.array_operations.uniquify_point_set", "pp.array_operations._unique_points_in_cluster (through its caller)",
                       "pp.fracs.utils.uniquify_points", "pp.array_operations.ismember_columns", "pp.array_operations.intersect_sets")
    rep.assume(
        "requires (uniquify): the point set splits into clusters of diameter <= tol/100 that are >= 100 tol apart (re-checked by brute "
        "force on every input; other inputs are skipped)",
        "requires (intersect_sets): no pairwise distance in (tol/2, 2 tol)",
        "ismember_columns: when several columns of b equal a column of a, any of their indices is accepted",
        "numba-compiled functions are exercised as compiled (the run-time sweep does not rely on Python semantics of njit code)",
    )
    rep.trust("numpy array construction and comparison", "brute-force O(n^2) oracles in props/C34.py")
    rep.explanation = ("B only: contracts evaluated natively on exhaustively enumerated small inputs (cluster placements around the norm "
                       "pre-clustering threshold in the 2-norm and, for axis/diagonal pairs, in the 1-norm and max-norm x all point orders; "
                       "all small integer column sets; 4-6 dimensional sets with pairs close per coordinate but far in Euclidean distance) "
                       "plus seeded samples.")
    _sweep_uniquify(rep, pp)
    _sweep_ismember(rep, pp)
    _sweep_intersect(rep, pp)


def replay(data):
    import porepy as pp

    inp = data.get("inputs") or {}
    ob = data.get("obligation", "")
    if "points" in inp and "edges" in inp:
        bad = check_uniquify_points(pp, np.ascontiguousarray(np.array(inp["points"], dtype=float)), np.array(inp["edges"], dtype=int), inp["tol"])
    elif "points" in inp:
        bad = check_uniquify(pp, np.ascontiguousarray(np.array(inp["points"], dtype=float)), inp["tol"])
    elif "sort" in inp:
        bad = check_ismember(pp, np.array(inp["a"], dtype=np.int64), np.array(inp["b"], dtype=np.int64), inp["sort"])
    elif "a" in inp:
        bad = check_intersect(pp, np.array(inp["a"], dtype=float), np.array(inp["b"], dtype=float), inp["tol"])
    else:
        return False
    print("replay:", bad)
    return bool(bad) and any(o == ob for o, _ in bad) or bool(bad)
