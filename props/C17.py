"""C17 -- Upwinding picks the upstream cell and transports conservatively.

This file holds the tier-B part (``sweep(rep, pp)``); a symbolic proof of the selection clause may be added by the lead
in ``run`` before the sweep.

Contract on the real ``pp.Upwind(kw).discretize(sd, data)`` (selection clause):

requires  sd a 1-D/2-D/3-D grid; flux an arbitrary real array on the faces (positive, negative, *zero*); every boundary face
          Dirichlet or Neumann (any assignment, also all-Neumann); num_components k in {1,2,3}.
ensures   with s_{f,c} = cell_faces[f,c] (+1: the normal of f points out of c) and U, D, N the stored matrices
          (upwind, bound_transport_dir, bound_transport_neu), each of them the Kronecker product (x) I_k of a scalar matrix:
          S1  flux[f] != 0, f not Neumann, f not Dirichlet-inflow:  row f of U has a single entry 1, in the column of the cell the
              flux leaves: the c with s_{f,c} = sign(flux[f]);
          S2  f Neumann, or f Dirichlet with inflow (boundary face whose only cell has s_{f,c} = -sign(flux[f])): row f of U empty;
          S3  D is diagonal, D[f,f] = 1 on Dirichlet inflow faces, 0 on every other face with nonzero flux;
          S4  N is diagonal, N[f,f] = s_{f,c(f)} on Neumann faces (the divergence sign), 0 elsewhere -- independent of the flux;
          S5  flux[f] == 0 (the statement does not prescribe a cell): row f of U is empty or a single 1 in a cell adjacent to f, and
              D[f,:] has no entry off the diagonal or on a non-Dirichlet face (boundary data can enter on boundary faces only).
          The expected matrices are built here from the incidence matrix cell_faces (C21), never from cell_faces_as_dense or the code.

Contract on ``Upwind.assemble_matrix_rhs`` + one/several explicit Euler steps (transport clause):

requires  a divergence-free face flux with zero flux on every boundary face (no-flow), any Dirichlet/Neumann typing of the boundary
          with zero Neumann data (arbitrary Dirichlet data: nothing may enter through a face without flux),
          dt <= CFL limit  min_c |c| / (sum of outgoing fluxes of c), unit porosity.
ensures   T1  sum_c |c| u_c is unchanged by  u <- u - dt/|c| (A u - rhs),  A, rhs from assemble_matrix_rhs;
          T2  min(u0) <= u_c <= max(u0) after every step.
          Divergence-free fluxes are taken from the null space of the incidence restricted to interior faces (dense SVD) -- this
          spans ALL admissible flux fields of the grid; the coefficients are seeded random.

Detection power (scratch copy, one mutant at a time, POREPY_SRC=<copy>): see MUTANTS below.
"""
from __future__ import annotations

META = {
    "level": "other",
    "engine": "pse",
    "technique": "contract-based deductive verification of the selection clause: the real Upwind.discretize runs on a stub grid with symbolic "
                 "face / cell counts, flux, cell-face relation and Dirichlet/Neumann typing; postconditions S1-S5 at a Skolem face / column / "
                 "component pair discharged by z3 (num_components 1..3); plus a run-time contract sweep (bounded stand-in) of the same clauses "
                 "exhaustively over all flux-sign patterns {-,0,+} x all typings on tiny grids and seeded samples on larger 1-D/2-D/3-D grids, "
                 "and of the explicit-Euler conservation/bounds postcondition of assemble_matrix_rhs on divergence-free no-flow fluxes",
    "text": "Tier P: upstream selection, empty rows on Neumann / Dirichlet-inflow faces, boundary matrices, for every grid satisfying the C21 "
            "contract of cell_faces_as_dense / divergence and every flux and typing (index-set models of np.where / r_ / delete / coo_matrix / "
            "kron are the trusted base). Transport clause (mass, bounds under CFL): bounded sweep only. Not covered: fracture (internal "
            "boundary) faces, UpwindCoupling, 0-d grids.",
    "note": "oracle = incidence matrix cell_faces (C21) and dense numpy; the only tolerance is 1e-12 relative on mass / bounds",
}

MUTANTS = """
  M1 upwind.py discretize: ``upstream_cell_ind[pos_flux] = cf_dense[0, pos_flux]`` -> ``cf_dense[1, pos_flux]`` (downstream cell for positive flux)
       caught by O_SEL (15 input classes), O_RUN (column -1 -> exception, 45 classes) and the bounds clause O_BND
  M2 upwind.py discretize: inflow test ``np.logical_and(pos_flux, cf_dense[0] < 0)`` -> ``cf_dense[1] < 0``    caught by O_RUN / O_SEL / O_DIR
  M3 upwind.py discretize: ``delete_ind = np.sort(np.r_[neumann_ind, inflow_ind])`` -> ``np.r_[inflow_ind]`` (Neumann faces keep an upstream cell)
       caught by O_SEL (Neumann outflow faces) and O_RUN (Neumann inflow: column -1)
  M4 upwind.py discretize: ``sgn_div[neumann_ind]`` -> ``np.ones(...)`` in bound_transport_neu                     caught by O_NEU
  M5 upwind.py assemble_matrix_rhs: ``bc_discr_dir @ flux_mat`` -> ``bc_discr_dir`` (Dirichlet data enters through flux-free faces)
       caught by O_MASS (transport clause)
  M6 upwind.py discretize: ``pos_flux = darcy_flux >= 0`` -> ``> 0``: NOT flagged, correctly -- it only changes which cell a zero-flux face
       selects, which the statement leaves open (clause S5 accepts either neighbour); listed to document that the contract does not over-demand.
"""

import itertools
import warnings

import numpy as np

KW = "transport"
O_SEL = "Upwind.discretize: upwind matrix selects exactly the upstream cell (none on Neumann and Dirichlet-inflow faces)"
O_DIR = "Upwind.discretize: bound_transport_dir is 1 exactly on Dirichlet inflow faces"
O_NEU = "Upwind.discretize: bound_transport_neu is the divergence sign exactly on Neumann faces"
O_ZERO = "Upwind.discretize: zero-flux faces select at most one adjacent cell and take boundary data on boundary faces only"
O_MASS = "Upwind.assemble_matrix_rhs: explicit step under CFL with divergence-free no-flow flux conserves the total amount"
O_BND = "Upwind.assemble_matrix_rhs: explicit step under CFL with divergence-free no-flow flux keeps values within the initial bounds"
O_RUN = "Upwind.discretize: terminates without exception on an admissible input"


_GRIDS: dict = {}


def build_grid(pp, spec):
    ck = repr(sorted(spec.items()))
    if ck not in _GRIDS:
        _GRIDS[ck] = _build_grid(pp, spec)
    return _GRIDS[ck]


def _build_grid(pp, spec):
    kind = spec["kind"]
    if kind == "line":
        g = pp.TensorGrid(np.array(spec["x"], dtype=float))
    else:
        ctor = {"cart": pp.CartGrid, "tri": pp.StructuredTriangleGrid, "tet": pp.StructuredTetrahedralGrid}[kind]
        g = ctor(np.array(spec["n"]), np.array(spec["phys"], dtype=float))
    if spec.get("nodes") is not None:
        g.nodes = np.array(spec["nodes"], dtype=float)
    with warnings.catch_warnings():
        warnings.simplefilter("ignore")
        g.compute_geometry()
    return g


def _gname(spec):
    return f"{spec['kind']}{spec.get('n', len(spec.get('x', [])) - 1)}"


# ----------------------------------------------------------------------------- selection clause


def expected_matrices(g, flux, is_dir, is_neu):
    """Scalar (k = 1) expected U, D, N and the masks, from the incidence matrix only.  Entries of U on zero-flux faces are
    left 0 here and are checked separately (S5)."""
    cf = g.cell_faces.toarray()  # (nf, nc)
    nf, nc = cf.shape
    U = np.zeros((nf, nc))
    D = np.zeros((nf, nf))
    N = np.zeros((nf, nf))
    inflow = np.zeros(nf, dtype=bool)
    for f in range(nf):
        cells = np.flatnonzero(cf[f])
        boundary = cells.size == 1
        if is_neu[f]:
            N[f, f] = cf[f, cells[0]]
        if flux[f] == 0:
            continue
        sg = 1.0 if flux[f] > 0 else -1.0
        up = [c for c in cells if cf[f, c] == sg]  # the cell the flux leaves
        if boundary and not up:
            inflow[f] = True
        if is_neu[f]:
            continue
        if boundary and is_dir[f] and not up:
            D[f, f] = 1.0
            continue
        if up:
            U[f, up[0]] = 1.0
    return U, D, N, inflow


def check_selection(pp, spec, flux, layout, k, data=None):
    g = build_grid(pp, spec)
    nf, nc = g.num_faces, g.num_cells
    flux = np.asarray(flux, dtype=float)
    bf = g.get_all_boundary_faces()
    is_dir = np.zeros(nf, dtype=bool)
    is_neu = np.zeros(nf, dtype=bool)
    for f, c in zip(bf, layout):
        (is_dir if c == "d" else is_neu)[f] = True
    bc = pp.BoundaryCondition(g, bf, ["dir" if c == "d" else "neu" for c in layout])
    params = {"bc": bc, "darcy_flux": flux.copy()}
    if k is not None:
        params["num_components"] = k
    kk = 1 if k is None else k
    discr = pp.Upwind(KW)
    if data is None:
        data = pp.initialize_data({}, KW, params)
        try:
            discr.discretize(g, data)
        except Exception as e:
            return [(O_RUN, f"{type(e).__name__}: {e}")]
    M = data[pp.DISCRETIZATION_MATRICES][KW]
    U = M[discr.upwind_matrix_key].toarray()
    D = M[discr.bound_transport_dir_matrix_key].toarray()
    N = M[discr.bound_transport_neu_matrix_key].toarray()
    if U.shape != (nf * kk, nc * kk) or D.shape != (nf * kk, nf * kk) or N.shape != (nf * kk, nf * kk):
        return [(O_SEL, f"shapes U {U.shape} D {D.shape} N {N.shape} for nf={nf} nc={nc} k={kk}")]
    Ue, De, Ne, inflow = expected_matrices(g, flux, is_dir, is_neu)
    I = np.eye(kk)
    bad = []
    nz = np.repeat(flux != 0, kk)  # rows of faces with nonzero flux
    dU = np.abs(U - np.kron(Ue, I))[nz]
    if dU.size and dU.max() > 0:
        r = int(np.flatnonzero(nz)[np.unravel_index(dU.argmax(), dU.shape)[0]])
        f = r // kk
        kind = "Neumann" if is_neu[f] else ("Dirichlet " + ("inflow" if inflow[f] else "outflow") if is_dir[f] else "interior")
        bad.append((O_SEL, f"face {f} ({kind}, flux {flux[f]:+.3g}, component {r % kk}): row {np.flatnonzero(U[r]).tolist()} values "
                    f"{U[r][U[r] != 0].tolist()}, expected columns {np.flatnonzero(np.kron(Ue, I)[r]).tolist()}"))
    dD = np.abs(D - np.kron(De, I))[nz]
    if dD.size and dD.max() > 0:
        r = int(np.flatnonzero(nz)[np.unravel_index(dD.argmax(), dD.shape)[0]])
        f = r // kk
        bad.append((O_DIR, f"face {f} (dir={bool(is_dir[f])}, neu={bool(is_neu[f])}, inflow={bool(inflow[f])}, flux {flux[f]:+.3g}): D row "
                    f"{dict(zip(np.flatnonzero(D[r]).tolist(), D[r][D[r] != 0].tolist()))}, expected D[f,f]={De[f, f]}"))
    if np.abs(N - np.kron(Ne, I)).max() > 0:
        r = int(np.unravel_index(np.abs(N - np.kron(Ne, I)).argmax(), N.shape)[0])
        f = r // kk
        bad.append((O_NEU, f"face {f} (neu={bool(is_neu[f])}): N row {dict(zip(np.flatnonzero(N[r]).tolist(), N[r][N[r] != 0].tolist()))}, "
                    f"expected N[f,f]={Ne[f, f]}"))
    # S5: zero-flux faces
    cf = g.cell_faces.toarray()
    for f in np.flatnonzero(flux == 0):
        for a in range(kk):
            r = f * kk + a
            cols = np.flatnonzero(U[r])
            ok = cols.size == 0 or (cols.size == 1 and U[r, cols[0]] == 1 and cols[0] % kk == a and cf[f, cols[0] // kk] != 0)
            dcols = np.flatnonzero(D[r])
            okd = dcols.size == 0 or (dcols.tolist() == [r] and is_dir[f])
            if not (ok and okd):
                bad.append((O_ZERO, f"zero-flux face {f} (dir={bool(is_dir[f])}, neu={bool(is_neu[f])}): U row cols {cols.tolist()}, D row cols {dcols.tolist()}"))
                break
        else:
            continue
        break
    return bad


def _flux_from_signs(signs, rng, wide=False):
    if wide:
        # magnitudes over 30 orders: the upstream cell depends on the SIGN of the flux only, however small it is relative to others
        return [s * float(f"{rng.uniform(1, 9):.3f}e{rng.choice((-18, -13, -6, 0, 5, 12))}") for s in signs]
    return [s * round(rng.uniform(0.1, 3.0), 3) for s in signs]


def check_rediscretisation(pp, spec, flux, layout1, k1, layout2, k2):
    """discretize twice on the SAME data dictionary with the same flux but another boundary typing / number of components: the stored
    matrices must be those of the second call (same clauses S1-S5 as for a fresh discretisation)"""
    g = build_grid(pp, spec)
    bf = g.get_all_boundary_faces()
    mk = lambda lay: pp.BoundaryCondition(g, bf, ["dir" if c == "d" else "neu" for c in lay])  # noqa: E731
    data = pp.initialize_data({}, KW, {"bc": mk(layout1), "darcy_flux": np.asarray(flux, dtype=float), "num_components": k1})
    discr = pp.Upwind(KW)
    fresh = pp.initialize_data({}, KW, {"bc": mk(layout2), "darcy_flux": np.asarray(flux, dtype=float), "num_components": k2})
    try:
        discr.discretize(g, data)
        data[pp.PARAMETERS][KW]["bc"] = mk(layout2)
        data[pp.PARAMETERS][KW]["num_components"] = k2
        discr.discretize(g, data)
        pp.Upwind(KW).discretize(g, fresh)
    except Exception as e:
        return [(O_RUN, f"{type(e).__name__}: {e}")]
    bad = check_selection(pp, spec, flux, layout2, k2, data=data)
    return [(ob, "after re-discretisation with changed boundary types / components: " + d) for ob, d in bad]


def selection_cases(pp, rng, quick):
    """yields (spec, flux list, layout, k, exhaustive_family_name)"""
    tiny = [{"kind": "line", "x": [0, 1.0, 2.5]}, {"kind": "cart", "n": [1, 1], "phys": [1.0, 1.0]}, {"kind": "tri", "n": [1, 1], "phys": [1.0, 1.0]}]
    if not quick:
        tiny += [{"kind": "line", "x": [0, 0.5, 1.0, 3.0]}, {"kind": "cart", "n": [2, 1], "phys": [2.0, 1.0]}]
    for spec in tiny:
        g = build_grid(pp, spec)
        nb = g.get_all_boundary_faces().size
        for signs in itertools.product((-1, 0, 1), repeat=g.num_faces):
            flux = _flux_from_signs(signs, rng)
            layouts = list(map("".join, itertools.product("dn", repeat=nb)))
            if len(layouts) > 16:  # 2x1 Cartesian: all sign patterns, all-Dirichlet, all-Neumann and 8 seeded typings per pattern
                layouts = ["d" * nb, "n" * nb] + ["".join(rng.choice("dn") for _ in range(nb)) for _ in range(8)]
            for layout in layouts:
                yield spec, flux, layout, (None if sum(map(abs, signs)) % 4 == 0 else 1 + (hash(signs) % 3)), "exhaustive"
    larger = [{"kind": "line", "x": [0, 1.0, 1.5, 3.0, 4.0]}, {"kind": "cart", "n": [3, 2], "phys": [3.0, 2.0]},
              {"kind": "tri", "n": [2, 2], "phys": [1.0, 1.0]}, {"kind": "cart", "n": [2, 2, 2], "phys": [1.0, 1.0, 1.0]},
              {"kind": "tet", "n": [1, 1, 1], "phys": [1.0, 1.0, 1.0]}]
    if not quick:
        larger += [{"kind": "cart", "n": [4, 4], "phys": [1.0, 1.0]}, {"kind": "tet", "n": [2, 2, 1], "phys": [1.0, 1.0, 1.0]},
                   {"kind": "tri", "n": [4, 3], "phys": [1.0, 1.0]}, {"kind": "cart", "n": [3, 3, 2], "phys": [1.0, 1.0, 1.0]}]
    nsamp = 40 if quick else 300
    for spec in larger:
        g = build_grid(pp, spec)
        nb = g.get_all_boundary_faces().size
        for i in range(nsamp):
            pz = (0.0, 0.15, 0.5)[i % 3]  # probability of a zero flux
            signs = [0 if rng.random() < pz else rng.choice((-1, 1)) for _ in range(g.num_faces)]
            layout = ("d" * nb, "n" * nb)[i % 2] if i % 5 == 0 else "".join(rng.choice("dn") for _ in range(nb))
            yield spec, _flux_from_signs(signs, rng, wide=(i % 4 == 3)), layout, 1 + i % 3, "sample"


# ----------------------------------------------------------------------------- transport clause


def divergence_free_noflow_flux(g, rng):
    """A random element of {q : div q = 0, q = 0 on boundary faces} (dense null space of the interior incidence)."""
    cf = g.cell_faces.toarray()  # (nf, nc)
    interior = np.flatnonzero(np.count_nonzero(cf, axis=1) == 2)
    if interior.size == 0:
        return None
    Dv = cf[interior].T  # (nc, n_int)
    _, s, vt = np.linalg.svd(Dv)
    rank = int(np.sum(s > 1e-10 * max(s.max(), 1.0)))
    null = vt[rank:]
    if null.shape[0] == 0:
        return None
    coef = np.array([rng.uniform(-1, 1) for _ in range(null.shape[0])])
    q = np.zeros(g.num_faces)
    q[interior] = coef @ null
    q[np.abs(q) < 1e-13] = 0.0
    return q


def check_transport(pp, spec, flux, layout, u0, dir_values, nsteps, cfl_fraction):
    g = build_grid(pp, spec)
    nf, nc = g.num_faces, g.num_cells
    flux = np.asarray(flux, dtype=float)
    u0 = np.asarray(u0, dtype=float)
    bf = g.get_all_boundary_faces()
    bc = pp.BoundaryCondition(g, bf, ["dir" if c == "d" else "neu" for c in layout])
    bcv = np.zeros(nf)
    for f, c, v in zip(bf, layout, dir_values):
        if c == "d":
            bcv[f] = v
    data = pp.initialize_data({}, KW, {"bc": bc, "bc_values": bcv, "darcy_flux": flux.copy()})
    discr = pp.Upwind(KW)
    try:
        discr.discretize(g, data)
        A, rhs = discr.assemble_matrix_rhs(g, data)
    except Exception as e:
        return [(O_RUN, f"{type(e).__name__}: {e}")]
    A = A.toarray()
    cf = g.cell_faces.toarray()
    out = np.maximum(cf * flux[:, None], 0).sum(axis=0)  # outgoing flux per cell
    V = g.cell_volumes
    if out.max() <= 0:
        return []
    dt = cfl_fraction * np.min(V[out > 0] / out[out > 0])
    lo, hi = u0.min(), u0.max()
    span = max(hi - lo, np.abs(u0).max(), 1e-300)
    mass0 = V @ u0
    u = u0.copy()
    bad = []
    for step in range(nsteps):
        u = u - dt / V * (A @ u - rhs)
        if abs(V @ u - mass0) > 1e-11 * V.sum() * span:
            bad.append((O_MASS, f"step {step + 1}: total {V @ u!r} vs initial {mass0!r} (dt {dt:.3g})"))
            break
        if u.min() < lo - 1e-11 * span or u.max() > hi + 1e-11 * span:
            c = int(np.argmax(np.maximum(lo - u, u - hi)))
            bad.append((O_BND, f"step {step + 1}: cell {c} value {u[c]!r} outside [{lo!r}, {hi!r}] (dt {dt:.3g} = {cfl_fraction} x CFL)"))
            break
    return bad


def transport_cases(pp, rng, quick):
    grids = [{"kind": "cart", "n": [3, 3], "phys": [3.0, 2.0]}, {"kind": "tri", "n": [3, 2], "phys": [1.0, 1.0]},
             {"kind": "cart", "n": [2, 2, 2], "phys": [1.0, 2.0, 1.0]}, {"kind": "tet", "n": [2, 1, 1], "phys": [1.0, 1.0, 1.0]},
             {"kind": "cart", "n": [2, 2], "phys": [1.0, 1.0]}]
    if not quick:
        grids += [{"kind": "cart", "n": [5, 4], "phys": [1.0, 1.0]}, {"kind": "tri", "n": [4, 4], "phys": [2.0, 1.0]},
                  {"kind": "cart", "n": [3, 3, 2], "phys": [1.0, 1.0, 1.0]}, {"kind": "tet", "n": [2, 2, 2], "phys": [1.0, 1.0, 1.0]}]
    # seeded perturbation of the interior nodes in 2-D (keeps the boundary, keeps cells valid at this magnitude)
    for s in list(grids):
        if len(s["n"]) == 2 and s["kind"] == "cart" and max(s["n"]) > 2:
            g0 = build_grid(pp, s)
            nodes = g0.nodes.copy()
            h = min(p / k for p, k in zip(s["phys"], s["n"]))
            for j in range(g0.num_nodes):
                for i in range(2):
                    nodes[i, j] += rng.uniform(-0.2, 0.2) * h
            grids.append(dict(s, nodes=np.round(nodes, 12).tolist()))
    for spec in grids:
        g = build_grid(pp, spec)
        if not np.all(g.cell_volumes > 0):
            continue
        nb = g.get_all_boundary_faces().size
        for i in range(6 if quick else 40):
            q = divergence_free_noflow_flux(g, rng)
            if q is None:
                yield spec, None, None, None, None, None, None
                continue
            layout = ("n" * nb, "d" * nb, "".join(rng.choice("dn") for _ in range(nb)))[i % 3]
            u0 = [round(rng.uniform(-1, 2), 6) for _ in range(g.num_cells)]
            dirv = [round(rng.uniform(-5, 5), 3) for _ in range(nb)]
            yield spec, q.tolist(), layout, u0, dirv, (3 if quick else 6), (1.0, 0.9, 0.5)[i % 3]


# ----------------------------------------------------------------------------- entry points


def sweep(rep, pp):
    quick = rep.tier == "quick"
    rng = rep.rng
    rep.under_contract("pp.Upwind.discretize", "pp.Upwind.assemble_matrix_rhs")
    rep.trust("incidence matrix cell_faces / cell volumes of the grid (C19/C21)", "dense numpy SVD for the divergence-free flux basis")
    with rep.sweep(
        "upwind selection",
        rule="EXHAUSTIVE on the tiny grids (2-cell line, 1x1 Cartesian, 1x1 structured triangle; thorough: + 3-cell line, 2x1 Cartesian): all "
             "flux sign patterns in {-,0,+}^faces (seeded magnitudes) x all Dirichlet/Neumann typings of the boundary faces (2x1 Cartesian: 10 typings per pattern), num_components "
             "cycling through {default,1,2,3}; SAMPLED on larger 1-D/2-D/3-D Cartesian/simplex grids: seeded sign patterns with zero-flux "
             "probability in {0,0.15,0.5}, typings all-Dirichlet / all-Neumann / seeded per-face mixes, num_components 1..3; distinct by "
             "(grid, flux signs, typing, components); non-trivial = has a boundary inflow face, a zero flux or k > 1",
        bound="tiny grids <= 7 faces exhaustively; larger grids <= 4x4 / 3x3x2 cells, " + ("40" if quick else "300") + " samples each",
        exhaustive=False,
    ) as sw:
        for spec, flux, layout, k, fam in selection_cases(pp, rng, quick):
            signs = tuple(int(np.sign(x)) for x in flux)
            key = (_gname(spec), signs, layout, k)
            bad = check_selection(pp, spec, flux, layout, k)
            g_nontrivial = (0 in signs) or (k or 1) > 1 or ("d" in layout)
            sw.case(key, nontrivial=g_nontrivial, sample={"grid": spec, "flux": flux, "layout": layout, "num_components": k})
            for ob, detail in bad:
                zero = "zero-flux " if 0 in signs else ""
                rep.violation(ob, f"{_gname(spec)} {zero}k={k or 'default'}", detail=detail, confirmed=True,
                              inputs={"clause": "selection", "grid": spec, "flux": flux, "layout": layout, "k": k})
            if fam == "sample" and hash(key) % 4 == 0:
                # the same data dictionary re-discretised after the boundary typing (and the number of components) changed, flux unchanged
                layout2 = "".join(("n" if c == "d" else "d") if rng.random() < 0.5 else c for c in layout)
                k2 = 1 + ((k or 1) % 3)
                sw.case(key + ("re-discretised", layout2, k2), nontrivial=True)
                for ob, detail in check_rediscretisation(pp, spec, flux, layout, k or 1, layout2, k2):
                    rep.violation(ob, f"{_gname(spec)} re-discretisation", detail=detail, confirmed=True,
                                  inputs={"clause": "rediscretisation", "grid": spec, "flux": flux, "layout": layout, "k": k or 1, "layout2": layout2, "k2": k2})
    with rep.sweep(
        "explicit transport under CFL",
        rule="grids {Cartesian 2-D/3-D, structured triangle/tetrahedral, node-perturbed Cartesian} x seeded random elements of the null space "
             "of the interior incidence (= all divergence-free fluxes with zero boundary flux) x boundary typing {all Neumann, all Dirichlet "
             "with arbitrary data, mixed} x seeded initial values x dt in {1.0, 0.9, 0.5} x CFL limit, several explicit Euler steps; "
             "distinct by (grid, flux, typing, initial values); non-trivial = flux not identically zero",
        bound="<= 5x4 / 3x3x2 cells, " + ("6" if quick else "40") + " fluxes per grid, " + ("3" if quick else "6") + " steps",
        exhaustive=False,
    ) as sw:
        for spec, flux, layout, u0, dirv, nsteps, frac in transport_cases(pp, rng, quick):
            if flux is None:
                sw.skip()  # no divergence-free no-flow flux exists on this grid (requires)
                continue
            key = (_gname(spec), hash(str(spec.get("nodes"))), hash(tuple(flux)), layout, hash(tuple(u0)))
            sw.case(key, nontrivial=bool(np.any(np.asarray(flux) != 0)),
                    sample={"grid": {k: v for k, v in spec.items() if k != "nodes"}, "flux": flux[:8], "layout": layout, "dt_fraction_of_cfl": frac})
            for ob, detail in check_transport(pp, spec, flux, layout, u0, dirv, nsteps, frac):
                rep.violation(ob, f"{_gname(spec)} bc={'neu' if 'd' not in layout else ('dir' if 'n' not in layout else 'mix')}", detail=detail,
                              confirmed=True, inputs={"clause": "transport", "grid": spec, "flux": flux, "layout": layout, "u0": u0,
                                                      "dir_values": dirv, "nsteps": nsteps, "cfl_fraction": frac})


# ----------------------------------------------------------------------------- tier P: the selection clause, all grids


def case_selection(pp, k):
    """The real Upwind.discretize on a stub grid with a symbolic number of faces / cells.  Grid contract (C21, checked there on
    real grids): cell_faces_as_dense()[0, f] / [1, f] = the cell the normal of f points out of / into, or -1; not both -1, both
    in range; divergence(1).sum(axis=0)[f] = [c0(f) >= 0] - [c1(f) >= 0].  BC contract (C39, proved there): is_dir / is_neu are
    disjoint and true on boundary faces only; requires of the statement: every boundary face is Dirichlet or Neumann."""
    import z3

    from engine import sym
    from engine.arrays import SymArray, SymRows
    from engine.sym import SymBool

    def run(ctx):
        nf, nc = ctx.int("nf"), ctx.int("nc")
        ctx.assume(nf >= 2)
        ctx.assume(nc >= 1)
        c0 = SymArray.fresh("c0", nf, "int")
        c1 = SymArray.fresh("c1", nf, "int")
        flux = SymArray.fresh("flux", nf, "real")
        is_dir = SymArray.fresh("is_dir", nf, "bool")
        is_neu = SymArray.fresh("is_neu", nf, "bool")
        C0, C1, FL, DIR, NEU = c0._elem, c1._elem, flux._elem, is_dir._elem, is_neu._elem
        g = z3.Int("__gf")
        inr = z3.And(g >= 0, g < nf.t)
        bnd = lambda t: z3.Or(C0(t) < 0, C1(t) < 0)
        ctx.add_axiom(z3.ForAll([g], z3.Implies(inr, z3.And(C0(g) >= -1, C0(g) < nc.t, C1(g) >= -1, C1(g) < nc.t,
                                                               z3.Or(C0(g) >= 0, C1(g) >= 0), C0(g) != C1(g))), patterns=[C0(g)]))
        ctx.add_axiom(z3.ForAll([g], z3.Implies(inr, z3.And(z3.Not(z3.And(DIR(g), NEU(g))), z3.Implies(z3.Or(DIR(g), NEU(g)), bnd(g)),
                                                               z3.Implies(bnd(g), z3.Or(DIR(g), NEU(g))))), patterns=[DIR(g)]))
        sgn = SymArray(nf, lambda i: z3.If(C0(i) >= 0, 1, 0) - z3.If(C1(i) >= 0, 1, 0), "int")

        class Div:
            def sum(self, axis=None):
                assert axis == 0
                return sgn

        class Grid:
            dim = 2
            num_faces, num_cells = nf, nc

            def cell_faces_as_dense(self):
                return SymRows([c0.copy(), c1.copy()])

            def divergence(self, dim):
                assert dim == 1
                return Div()

        class BC:
            pass

        bc = BC()
        bc.is_dir, bc.is_neu = is_dir, is_neu
        data = {pp.PARAMETERS: {KW: {"bc": bc, "darcy_flux": flux, "num_components": k}}, pp.DISCRETIZATION_MATRICES: {KW: {}}}
        up = pp.Upwind(KW)
        up.discretize(Grid(), data)
        md = data[pp.DISCRETIZATION_MATRICES][KW]
        U, D, N = md[up.upwind_matrix_key], md[up.bound_transport_dir_matrix_key], md[up.bound_transport_neu_matrix_key]
        kk = z3.IntVal(k)
        for M, (r, c_) in ((U, (nf, nc)), (D, (nf, nf)), (N, (nf, nf))):
            ctx.prove("shapes: upwind (k*num_faces, k*num_cells), boundary matrices (k*num_faces, k*num_faces)",
                      SymBool(z3.And(sym.iterm(M.shape[0]) == r.t * kk, sym.iterm(M.shape[1]) == c_.t * kk)))
        # Skolem face f, cell j / face h, components a, b
        f, j, j2, h, a, b = (ctx.int(n) for n in ("f", "j", "j2", "h", "a", "b"))
        ctx.assume((f >= 0) & (f < nf) & (j >= 0) & (j < nc) & (j2 >= 0) & (j2 < nc) & (h >= 0) & (h < nf) & (a >= 0) & (a < k) & (b >= 0) & (b < k))
        ft, jt, j2t, ht, at, bt_ = f.t, j.t, j2.t, h.t, a.t, b.t
        u = U._entry(ft * kk + at, jt * kk + bt_)
        u2 = U._entry(ft * kk + at, j2t * kk + bt_)
        d = D._entry(ft * kk + at, ht * kk + bt_)
        n_ = N._entry(ft * kk + at, ht * kk + bt_)
        fl = FL(ft)
        upstream = z3.If(fl > 0, C0(ft), C1(ft))
        inflow = z3.And(DIR(ft), upstream < 0)
        nz = fl != 0
        one = lambda cond: z3.If(cond, z3.RealVal(1), z3.RealVal(0))
        ctx.prove("S1: nonzero flux, face neither Neumann nor Dirichlet-inflow: row f has a single 1, in the upstream cell (per component)",
                  SymBool(z3.Implies(z3.And(nz, z3.Not(NEU(ft)), z3.Not(inflow)), z3.And(upstream >= 0, u == one(z3.And(at == bt_, jt == upstream))))))
        ctx.prove("S2: Neumann or Dirichlet-inflow face: row f of the upwind matrix is empty",
                  SymBool(z3.Implies(z3.And(nz, z3.Or(NEU(ft), inflow)), u == 0)))
        ctx.prove("S3: bound_transport_dir is diagonal with 1 exactly on Dirichlet inflow faces (nonzero flux)",
                  SymBool(z3.Implies(nz, d == one(z3.And(ft == ht, at == bt_, inflow)))))
        ctx.prove("S4: bound_transport_neu is diagonal with the divergence sign exactly on Neumann faces",
                  SymBool(n_ == z3.If(z3.And(ft == ht, at == bt_, NEU(ft)), z3.ToReal(sgn._elem(ft)), z3.RealVal(0))))
        ctx.prove("S5: zero flux: row f is empty or a single 1 in a cell adjacent to f; boundary data enters on the diagonal of boundary faces only",
                  SymBool(z3.Implies(fl == 0, z3.And(z3.Or(u == 0, z3.And(u == 1, at == bt_, z3.Or(jt == C0(ft), jt == C1(ft)))),
                                                     z3.Implies(z3.And(u != 0, u2 != 0), jt == j2t),
                                                     z3.Implies(d != 0, z3.And(ft == ht, at == bt_, DIR(ft)))))))
        ctx.assume(nz)
        ctx.prove("CANARY: the row of a face with positive flux has its entry in the cell the normal points into",
                  SymBool(z3.Implies(z3.And(fl > 0, C1(ft) >= 0, jt == C1(ft), at == bt_), u == 1)), expect_refuted=True)
        return "ok"

    return run


def prove(rep, pp):
    from engine import indexmodels, shims
    from engine.harness import run_case
    from porepy.numerics.fv import upwind as upmod

    rep.under_contract("pp.Upwind.discretize [tier P: selection clause on a stub grid with symbolic face / cell counts]")
    rep.assume("grid stub = C21 contract of cell_faces_as_dense / divergence(1) (each face has one or two distinct cells in range; "
               "-1 = no cell); BC stub = C39 contract (is_dir, is_neu disjoint, boundary faces only) plus the statement's own requires: "
               "every boundary face is Dirichlet or Neumann; grid has at least 2 faces")
    refuted = []
    with shims.shadow_builtins([upmod]), shims.numpy_shims(), indexmodels.index_shims():
        for k in (1, 2, 3):
            rf, _ = run_case(rep, f"Upwind.discretize[num_components={k}]", case_selection(pp, k))
            refuted += rf
    rep.trust(*sorted(shims.USED_MODELS))
    for name, ctx, r in refuted:
        rep.violation(name, name.split(":")[0], inputs=None, detail=f"z3 counter-model: {r['model']}"[:1500], confirmed=False,
                      solver_output=str(r["model"]))


def run(rep):
    import porepy as pp

    rep.assume("flux given as normal velocity integrated over the face, positive along the face normal; unit porosity / accumulation "
               "term |cell| in the explicit step")
    prove(rep, pp)
    sweep(rep, pp)


def replay(data):
    import porepy as pp

    inp = data["inputs"]
    if inp["clause"] == "rediscretisation":
        bad = check_rediscretisation(pp, inp["grid"], inp["flux"], inp["layout"], inp["k"], inp["layout2"], inp["k2"])
    elif inp["clause"] == "selection":
        bad = check_selection(pp, inp["grid"], inp["flux"], inp["layout"], inp["k"])
    else:
        bad = check_transport(pp, inp["grid"], inp["flux"], inp["layout"], inp["u0"], inp["dir_values"], inp["nsteps"], inp["cfl_fraction"])
    for b in bad:
        print("replay:", b)
    return bool(bad)
