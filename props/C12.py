"""C12 -- TPFA is symmetric, conservative, and exact on K-orthogonal grids.

Tier B (bounded run-time contract sweep).  Contract on the real ``pp.Tpfa(kw).discretize(sd, data)``:

requires  (structural clauses) any valid 1-D/2-D/3-D grid (Cartesian, tensor, structured simplex, node-perturbed), any
          cell-wise SPD permeability (constant or heterogeneous, isotropic / diagonal / full), every boundary face
          Dirichlet or Neumann, >= 1 Dirichlet face.
ensures   S1  A = div flux (div = cell_faces^T) is symmetric;
          S2  single-valued face flux: the row of an interior face has exactly two entries, in the columns of its two
              cells, equal to  s_{f,c} t_f  with one common t_f (s = cell_faces sign) -- so both cells see the same flux;
              a Dirichlet boundary row has exactly one entry (its cell), a Neumann row none;
          S3  constant pressure with matching Dirichlet data (zero Neumann data) gives zero flux on every face.
requires  (K-orthogonal clauses) Cartesian / tensor-product grid, diagonal permeability.
ensures   K1  A has positive diagonal and non-positive off-diagonal entries, and every t_f of S2 is positive;
          K2  flux and bound_flux coincide with those of pp.Mpfa on the same data (1e-10 relative);
          K3  (constant K) linear pressures are reproduced exactly: flux p_c + bound_flux p_b = -(K a).n_f on every
              face and bound_pressure_cell p_c + bound_pressure_face p_b = p(x_f) on boundary faces; checked on the
              affine basis {1,x,y,z}, which covers all linear fields by linearity.
Oracles: incidence matrix, geometry arrays and dense numpy formulas from the statement; K2 is the relational clause
of the statement itself (Mpfa is the other real implementation, not an oracle for the other clauses).

NOT covered here: the tier-P lemma of DESIGN (harmonic mean symmetric/positive for all reals, via pse on np.bincount) --
only its instances are checked (S1/S2/K1).  Periodic boundaries, Robin conditions, vector source matrices.

Detection power (scratch copy, one mutant at a time, POREPY_SRC=<copy>):
  M1 tpfa.py  ``t_b[is_dir] = -t[is_dir]`` -> ``+t[is_dir]``                  caught by S3 (and K2, K3)
  M2 tpfa.py  ``t = 1/np.bincount(fi_periodic, weights=1/t_face)`` -> arithmetic mean ``np.bincount(..., weights=t_face)``
                                                                               caught by K2/K3 (S1, S2 still hold: still symmetric)
  M3 tpfa.py  ``n *= sgn`` dropped (half-transmissibility sign depends on face orientation)   caught by K1/K3/K2
  M4 tpfa.py  ``v_face[bnd.is_neu] = -1/t_full`` -> ``+1/t_full``             caught by K3 (boundary pressure trace)
  M5 tpfa.py  flux entries ``t[fi_periodic] * sgn_periodic`` -> ``* np.abs(sgn_periodic)`` (orientation sign lost)   caught by S2, S1, S3
"""
from __future__ import annotations

META = {
    "level": "exploration",
    "engine": "sweep",
    "technique": "run-time contract sweep (bounded stand-in for deduction): structural postconditions of the real Tpfa.discretize "
                 "(symmetry, single-valued flux, zero flux for constants) over grids x cell-wise SPD tensors x boundary layouts; "
                 "M-matrix signs, equality with Mpfa and linear exactness on the K-orthogonal subset (affine basis = all linear fields)",
    "text": "Bounded assurance only, on the enumerated family. The DESIGN's tier-P lemma (harmonic average symmetric and positive "
            "for all reals) is NOT built here; only its instances are evaluated. Periodic face pairs (non-uniform tensor grids, "
            "heterogeneous K) and the Aavatsmark_transmissibilities variant on K-orthogonal grids are included. Robin boundaries and "
            "vector-source matrices are not covered.",
    "note": "oracle = incidence + geometry arrays (C19/C21) and -(K grad p).n_f in dense numpy; tolerances 1e-10..1e-12 relative to max|t_f|",
}

import warnings

import numpy as np

KW = "flow"
O_SYM = "Tpfa.discretize: div*flux is symmetric"
O_SINGLE = "Tpfa.discretize: each face flux is single-valued (interior rows = +-t_f on the two neighbour cells)"
O_CONST = "Tpfa.discretize: constant pressure with matching Dirichlet data gives zero flux"
O_MMAT = "Tpfa.discretize: K-orthogonal grid gives positive diagonal, non-positive off-diagonal, positive t_f"
O_MPFA = "Tpfa.discretize: flux and bound_flux coincide with Mpfa on K-orthogonal grids"
O_LIN = "Tpfa.discretize: exact flux of a linear pressure on K-orthogonal grids with constant K"
O_TRACE = "Tpfa.discretize: exact boundary pressure of a linear pressure on K-orthogonal grids with constant K"
O_RUN = "Tpfa.discretize: terminates without exception on an admissible input"


# ----------------------------------------------------------------------------- grids (JSON-able specs)


def build_grid(pp, spec):
    kind = spec["kind"]
    if kind == "tensor":
        g = pp.TensorGrid(*[np.array(c, dtype=float) for c in spec["coords"]])
    else:
        ctor = {"cart": pp.CartGrid, "tri": pp.StructuredTriangleGrid, "tet": pp.StructuredTetrahedralGrid}[kind]
        g = ctor(np.array(spec["n"]), np.array(spec["phys"], dtype=float))
    if spec.get("nodes") is not None:
        g.nodes = np.array(spec["nodes"], dtype=float)
    with warnings.catch_warnings():
        warnings.simplefilter("ignore")
        g.compute_geometry()
    return g


def cells_valid(g):
    if not np.all(g.cell_volumes > 0) or not np.all(g.face_areas > 0):
        return False
    cf = g.cell_faces.tocoo()
    d = g.face_centers[:, cf.row] - g.cell_centers[:, cf.col]
    return bool(np.all(np.sum(d * g.face_normals[:, cf.row], axis=0) * cf.data > 0))


def perturbed(pp, rng, spec, rate):
    g0 = build_grid(pp, spec)
    h = min(p / k for p, k in zip(spec["phys"], spec["n"]))
    for _ in range(20):
        nodes = g0.nodes.copy()
        for i in range(g0.dim):
            nodes[i] += np.array([rng.uniform(-rate, rate) * h for _ in range(g0.num_nodes)])
        s = dict(spec, nodes=np.round(nodes, 12).tolist(), pert=rate)
        if cells_valid(build_grid(pp, s)):
            return s
    return None


def grid_specs(pp, rng, quick):
    """(spec, k_orthogonal_grid)"""
    korth = [
        {"kind": "tensor", "coords": [[0, 0.5, 2.0, 2.5]]},
        {"kind": "tensor", "coords": [[0, 1.0]]},
        {"kind": "cart", "n": [2, 2], "phys": [2.0, 2.0]},
        {"kind": "cart", "n": [3, 2], "phys": [1.5, 1.0]},
        {"kind": "cart", "n": [1, 1], "phys": [1.0, 2.0]},
        {"kind": "tensor", "coords": [[0, 0.3, 1.0, 3.0], [0, 1.0, 1.2]]},
        {"kind": "cart", "n": [2, 2, 2], "phys": [1.0, 2.0, 1.5]},
        {"kind": "tensor", "coords": [[0, 0.5, 2.0], [0, 1.0, 1.1], [-1.0, 0, 3.0]]},
    ]
    general = [
        {"kind": "tri", "n": [2, 2], "phys": [1.0, 1.0]},
        {"kind": "tri", "n": [3, 2], "phys": [3.0, 1.0]},
        {"kind": "tet", "n": [1, 1, 1], "phys": [1.0, 1.0, 1.0]},
        {"kind": "tet", "n": [2, 1, 1], "phys": [2.0, 1.0, 1.5]},
    ]
    if not quick:
        korth += [{"kind": "cart", "n": [4, 3], "phys": [1.0, 1.0]}, {"kind": "cart", "n": [3, 2, 2], "phys": [1.0, 1.0, 1.0]},
                  {"kind": "cart", "n": [1, 1, 1], "phys": [1.0, 1.0, 1.0]},
                  {"kind": "tensor", "coords": [[0, 0.1, 0.2, 5.0], [0, 2.0, 2.5, 2.6]]}]
        general += [{"kind": "tri", "n": [3, 3], "phys": [1.0, 2.0]}, {"kind": "tet", "n": [2, 2, 2], "phys": [1.0, 1.0, 1.0]},
                    {"kind": "tri", "n": [1, 1], "phys": [1.0, 1.0]}]
    out = []
    for s in korth:
        s = dict(s, nodes=None, pert=0)
        out.append((s, True))
    for s in general:
        out.append((dict(s, nodes=None, pert=0), False))
    for s in [k for k in korth if k["kind"] == "cart" and len(k["n"]) >= 2 and max(k["n"]) > 1] + general:
        for rate in ((0.2,) if quick else (0.1, 0.25)):
            p = perturbed(pp, rng, dict(s, nodes=None, pert=0), rate)
            if p is not None:
                out.append((p, False))
    return out


# ----------------------------------------------------------------------------- tensors / layouts


def _spd(rng, dim, kind):
    """one 3x3 SPD tensor (only the leading dim x dim block matters)"""
    K = np.eye(3)
    if kind == "iso":
        K[:dim, :dim] *= 10 ** rng.uniform(-1, 1)
    elif kind == "diag":
        for i in range(dim):
            K[i, i] = 10 ** rng.uniform(-1.5, 1.5)
    else:
        A = np.array([[rng.uniform(-1, 1) for _ in range(dim)] for _ in range(dim)])
        K[:dim, :dim] = A @ A.T + 0.2 * np.eye(dim)
    return K


def tensor_cases(rng, dim, nc):
    """(name, per-cell list of 3x3 | single 3x3, is_diagonal, is_constant)"""
    out = []
    for kind in ("iso", "diag", "full"):
        if dim == 1 and kind != "iso":
            continue
        out.append((kind + "-const", _spd(rng, dim, kind), kind != "full", True))
        if nc > 1:
            out.append((kind + "-hetero", np.array([_spd(rng, dim, kind) for _ in range(nc)]), kind != "full", False))
    return out


def make_tensor(pp, K, nc, dim):
    K = np.asarray(K, dtype=float)
    if K.ndim == 2:
        K = np.repeat(K[None], nc, axis=0)
    k = lambda i, j: K[:, i, j].copy()  # noqa: E731
    if dim == 1:
        return pp.SecondOrderTensor(k(0, 0))
    if dim == 2:
        return pp.SecondOrderTensor(k(0, 0), kyy=k(1, 1), kxy=k(0, 1))
    return pp.SecondOrderTensor(k(0, 0), kyy=k(1, 1), kzz=k(2, 2), kxy=k(0, 1), kxz=k(0, 2), kyz=k(1, 2))


def bc_layouts(rng, nb, n_random):
    out = [("all-dir", "d" * nb)]
    k = rng.randrange(nb)
    out.append(("one-neu", "d" * k + "n" + "d" * (nb - k - 1)))
    for _ in range(n_random):
        s = "".join(rng.choice("dn") for _ in range(nb))
        if "d" not in s:
            k = rng.randrange(nb)
            s = s[:k] + "d" + s[k + 1:]
        out.append(("mix", s))
    return out


# ----------------------------------------------------------------------------- contract


O_PER = "Tpfa.discretize: a periodic face pair carries one common harmonic transmissibility of its two cells, with opposite signs on the two sides"


def evaluate_periodic(pp, xs, ys, kxx, aavatsmark):
    """2-D tensor grid periodic in x (left faces identified with right faces), cell-wise diagonal K with K_xx = kxx, K_yy = 1.
    Statement clauses on the periodic pairs: single-valued flux (the two faces of a pair see the same flux, built from BOTH cells)
    and symmetry of div*flux.  Oracle: t = 1 / (1/t_left_cell + 1/t_right_cell), t_cell = K_xx |f| / dist(cell centre, face)."""
    g = pp.TensorGrid(np.asarray(xs, dtype=float), np.asarray(ys, dtype=float))
    g.compute_geometry()
    xf = g.face_centers
    left = np.flatnonzero(np.isclose(xf[0], xs[0]) & (np.abs(g.face_normals[0]) > 0))
    right = np.flatnonzero(np.isclose(xf[0], xs[-1]) & (np.abs(g.face_normals[0]) > 0))
    order_l, order_r = np.argsort(xf[1, left]), np.argsort(xf[1, right])
    left, right = left[order_l], right[order_r]
    with warnings.catch_warnings():
        warnings.simplefilter("ignore")
        g.set_periodic_map(np.array([left, right]))
    nc, nf = g.num_cells, g.num_faces
    kxx = np.asarray(kxx, dtype=float)
    perm = pp.SecondOrderTensor(kxx=kxx, kyy=np.ones(nc), kzz=np.ones(nc))
    bf = g.get_all_boundary_faces()
    bc = pp.BoundaryCondition(g, bf, ["dir"] * bf.size)
    data = pp.initialize_data({}, KW, {"bc": bc, "second_order_tensor": perm})
    if aavatsmark:
        data["Aavatsmark_transmissibilities"] = True
    try:
        with warnings.catch_warnings():
            warnings.simplefilter("ignore")
            pp.Tpfa(KW).discretize(g, data)
    except Exception as e:
        return [(O_RUN, f"{type(e).__name__}: {e}")]
    flux = data[pp.DISCRETIZATION_MATRICES][KW]["flux"].toarray()
    cfm = g.cell_faces.toarray()
    bad = []
    tmax = max(np.abs(flux).max(), 1e-300)
    for fl, fr in zip(left, right):
        cl, cr = int(np.flatnonzero(cfm[fl])[0]), int(np.flatnonzero(cfm[fr])[0])
        th = lambda c, f: kxx[c] * g.face_areas[f] / abs(g.cell_centers[0, c] - g.face_centers[0, f])  # noqa: E731
        t = 1.0 / (1.0 / th(cl, fl) + 1.0 / th(cr, fr))
        for f, own, other in ((fl, cl, cr), (fr, cr, cl)):
            want = np.zeros(nc)
            want[own] += cfm[f, own] * t
            want[other] -= cfm[f, own] * t
            if np.abs(flux[f] - want).max() > 1e-12 * tmax:
                bad.append((O_PER, f"face {int(f)} (pair {int(fl)}/{int(fr)}, cells {cl}/{cr}): row {flux[f].tolist()} expected {want.tolist()}"))
                break
    # symmetry of the cell-to-cell operator: the divergence of a periodic grid sums the pair's flux once per side
    A = cfm.T @ flux
    if np.abs(A - A.T).max() > 1e-12 * tmax:
        bad.append((O_SYM, f"periodic grid: max |A - A^T| = {np.abs(A - A.T).max():.3e}"))
    return bad


def evaluate_periodic_simplex(pp, left_ys, right_ys, kseed):
    """Triangle grid on [0,3]^2, periodic in x; the node numbering on the two periodic sides (left_ys / right_ys = the y-coordinates in
    node order) decides the signs of the periodic faces in cell_faces.  Pure Neumann on top / bottom, scalar K per cell (1, or seeded).
    Clauses: the two faces of a pair see the same flux (seen from their own cells with opposite signs), a constant pressure gives no
    flux, div*flux is symmetric."""
    import random

    pts = [[0.0, float(y)] for y in left_ys] + [[3.0, float(y)] for y in right_ys]
    pts += [[1.0, 0.0], [2.0, 0.0], [1.0, 3.0], [2.0, 3.0]]
    pts += [[0.9, 0.8], [2.1, 0.7], [1.4, 1.5], [0.8, 2.2], [2.2, 2.3], [1.6, 0.4], [1.5, 2.6]]
    g = pp.TriangleGrid(np.array(pts).T)
    g.compute_geometry()
    left = np.where(g.face_centers[0] < 1e-10)[0]
    right = np.where(g.face_centers[0] > 3 - 1e-10)[0]
    left = left[np.argsort(g.face_centers[1, left])]
    right = right[np.argsort(g.face_centers[1, right])]
    sl = np.asarray(g.cell_faces[left].sum(axis=1)).ravel()
    sr = np.asarray(g.cell_faces[right].sum(axis=1)).ravel()
    if kseed is None:
        k = np.ones(g.num_cells)
    else:
        r = random.Random(kseed)
        k = np.array([r.choice([0.5, 1.0, 2.0, 5.0]) for _ in range(g.num_cells)])
    try:
        with warnings.catch_warnings():
            warnings.simplefilter("ignore")
            g.set_periodic_map(np.vstack((left, right)))
            data = pp.initialize_data({}, KW, {"second_order_tensor": pp.SecondOrderTensor(k), "bc": pp.BoundaryCondition(g)})
            pp.Tpfa(KW).discretize(g, data)
    except Exception as e:
        return [(O_RUN, f"periodic triangle grid: {type(e).__name__}: {e}")]
    flux = data[pp.DISCRETIZATION_MATRICES][KW]["flux"].toarray()
    tmax = max(np.abs(flux).max(), 1e-300)
    sig = f"signs of the periodic faces: left {sl.astype(int).tolist()} right {sr.astype(int).tolist()}"
    bad = []
    e_pair = np.abs(sl[:, None] * flux[left] + sr[:, None] * flux[right]).max()
    if e_pair > 1e-12 * tmax:
        bad.append((O_PER, f"{sig}: max |s_l flux[left] + s_r flux[right]| = {e_pair:.3e}"))
    e_const = np.abs(flux @ np.ones(g.num_cells)).max()
    if e_const > 1e-12 * tmax:
        bad.append((O_CONST, f"{sig}: max |flux @ 1| = {e_const:.3e} (no Dirichlet face)"))
    A = g.cell_faces.T.toarray() @ flux
    if np.abs(A - A.T).max() > 1e-12 * tmax:
        bad.append((O_SYM, f"{sig}: max |A - A^T| = {np.abs(A - A.T).max():.3e}"))
    return bad


def evaluate(pp, spec, K, layout, korth_grid, aavatsmark=False):
    g = build_grid(pp, spec)
    dim, nf, nc = g.dim, g.num_faces, g.num_cells
    K = np.asarray(K, dtype=float)
    const_K = K.ndim == 2
    Kc = K if not const_K else np.repeat(K[None], nc, axis=0)
    diagonal = bool(np.all(np.abs(Kc[:, :dim, :dim] - np.einsum("cij,ij->cij", Kc[:, :dim, :dim], np.eye(dim))) == 0))
    bf = g.get_all_boundary_faces()
    is_dir_b = np.array([c == "d" for c in layout])
    bc = pp.BoundaryCondition(g, bf, ["dir" if d else "neu" for d in is_dir_b])
    params = {"bc": bc, "second_order_tensor": make_tensor(pp, K, nc, dim)}
    data = pp.initialize_data({}, KW, params)
    if aavatsmark:
        # alternative half-transmissibility |K n| / |d|; coincides with the default n.K.d / |d|^2 on K-orthogonal grids
        data["Aavatsmark_transmissibilities"] = True
    try:
        with warnings.catch_warnings():
            warnings.simplefilter("ignore")
            pp.Tpfa(KW).discretize(g, data)
    except Exception as e:
        return [(O_RUN, f"{type(e).__name__}: {e}")]
    M = data[pp.DISCRETIZATION_MATRICES][KW]
    flux, bflux = M["flux"].toarray(), M["bound_flux"].toarray()
    bad = []
    if flux.shape != (nf, nc) or bflux.shape != (nf, nf):
        return [(O_SINGLE, f"shapes flux {flux.shape} bound_flux {bflux.shape}, expected {(nf, nc)}, {(nf, nf)}")]
    cfm = g.cell_faces.toarray()  # (nf, nc) signs
    tmax = max(np.abs(flux).max(), 1e-300)
    # S1
    A = cfm.T @ flux
    asym = np.abs(A - A.T).max()
    if asym > 1e-12 * tmax:
        bad.append((O_SYM, f"max |A - A^T| = {asym:.3e} (max |t| = {tmax:.3e})"))
    # S2
    is_dir = np.zeros(nf, dtype=bool)
    is_dir[bf[is_dir_b]] = True
    is_bnd = np.zeros(nf, dtype=bool)
    is_bnd[bf] = True
    tf = np.full(nf, np.nan)
    for f in range(nf):
        nbrs = np.flatnonzero(cfm[f])
        nz = np.flatnonzero(flux[f])
        if is_bnd[f] and not is_dir[f]:
            if nz.size:
                bad.append((O_SINGLE, f"Neumann face {f} has flux entries in columns {nz.tolist()}"))
                break
            continue
        if not set(nz.tolist()) <= set(nbrs.tolist()) or nz.size != nbrs.size:
            bad.append((O_SINGLE, f"face {f}: non-zero columns {nz.tolist()}, neighbour cells {nbrs.tolist()}"))
            break
        t = flux[f, nbrs] * cfm[f, nbrs]
        if np.abs(t - t[0]).max() > 1e-12 * tmax:
            bad.append((O_SINGLE, f"face {f}: s*flux on its cells {t.tolist()} not one common t_f"))
            break
        tf[f] = t[0]
    # S3
    sgn_b = np.asarray(g.cell_faces[bf].sum(axis=1)).ravel()
    c0 = 3.0
    p_b = np.zeros(nf)
    p_b[is_dir] = c0
    q = flux @ (c0 * np.ones(nc)) + bflux @ p_b
    if np.abs(q).max() > 1e-10 * tmax * c0:
        f = int(np.abs(q).argmax())
        bad.append((O_CONST, f"face {f} ({'Dirichlet' if is_dir[f] else ('Neumann' if is_bnd[f] else 'interior')}): flux {q[f]!r} for p = {c0}"))

    if not (korth_grid and diagonal):
        return bad
    # K1
    offd = A - np.diag(np.diag(A))
    if not (np.all(np.diag(A) > 0) and np.all(offd <= 1e-14 * tmax) and np.all(tf[~np.isnan(tf)] > 0)):
        bad.append((O_MMAT, f"diag min {np.diag(A).min():.3e}, offdiag max {offd.max():.3e}, min t_f {np.nanmin(tf):.3e}"))
    # K2
    if dim >= 2:
        data2 = pp.initialize_data({}, KW, dict(params))
        with warnings.catch_warnings():
            warnings.simplefilter("ignore")
            pp.Mpfa(KW).discretize(g, data2)
        M2 = data2[pp.DISCRETIZATION_MATRICES][KW]
        for name, mine in (("flux", flux), ("bound_flux", bflux)):
            other = M2[name].toarray()
            d = np.abs(mine - other).max()
            if d > 1e-10 * tmax:
                i, j = np.unravel_index(np.abs(mine - other).argmax(), mine.shape)
                bad.append((O_MPFA, f"{name}[{i},{j}]: tpfa {mine[i, j]!r} mpfa {other[i, j]!r}"))
    # K3
    if const_K:
        bpc, bpf = M["bound_pressure_cell"].toarray(), M["bound_pressure_face"].toarray()
        xc, xf, nrm = g.cell_centers, g.face_centers, g.face_normals
        L = max(1.0, np.ptp(g.nodes[:dim], axis=1).max(), np.abs(g.nodes).max())
        neu = bf[~is_dir_b]
        for a0, a in [(1.0, np.zeros(3))] + [(0.0, np.eye(3)[i]) for i in range(dim)]:
            p = lambda x: a0 + a @ x  # noqa: E731
            darcy = -(K @ a) @ nrm
            p_b = np.zeros(nf)
            p_b[is_dir] = p(xf[:, is_dir])
            p_b[neu] = sgn_b[~is_dir_b] * darcy[neu]
            got = flux @ p(xc) + bflux @ p_b
            err = np.abs(got - darcy)
            if err.max() > 1e-10 * tmax * L:
                f = int(err.argmax())
                bad.append((O_LIN, f"grad={a.tolist()} a0={a0}: face {f} flux {got[f]!r} expected {darcy[f]!r}"))
            tr = (bpc @ p(xc) + bpf @ p_b)[bf]
            terr = np.abs(tr - p(xf[:, bf]))
            if terr.max() > 1e-10 * L:
                j = int(terr.argmax())
                bad.append((O_TRACE, f"grad={a.tolist()} a0={a0}: boundary face {int(bf[j])} ({'Dirichlet' if is_dir_b[j] else 'Neumann'}) "
                            f"trace {tr[j]!r} expected {p(xf[:, bf])[j]!r}"))
    return bad


def _dim(spec):
    return len(spec["coords"]) if spec["kind"] == "tensor" else len(spec["n"])


def _signature(spec, tname, lname):
    return f"{_dim(spec)}d {spec['kind']} {'regular' if spec['pert'] == 0 else 'perturbed'} K={tname.split('-')[0]} bc={lname}"


def run(rep):
    import os

    os.environ.setdefault("NUMBA_NUM_THREADS", "4")
    import porepy as pp

    rep.under_contract("pp.Tpfa.discretize")
    rep.trust("grid incidence and geometry arrays (cell_faces, face_normals, face_centers, cell_centers) -- properties C19/C21",
              "pp.Mpfa.discretize as the second implementation in the relational clause K2 only")
    rep.assume("Neumann data: flux integrated over the face, outflow positive (porepy convention)")
    quick = rep.tier == "quick"
    rng = rep.rng
    with rep.sweep(
        "tpfa structure and K-orthogonal exactness",
        rule="grids {1-D tensor, Cartesian, non-uniform tensor, structured triangle/tet, seeded node-perturbed} x cell-wise SPD K "
             "{isotropic, diagonal, full} x {constant, heterogeneous (seeded)} x boundary layouts {all Dirichlet, one Neumann, seeded "
             "mixes with >=1 Dirichlet}; S1-S3 on every case; K1-K2 when grid is Cartesian/tensor and K diagonal; K3 additionally needs "
             "constant K and is checked on the full affine basis (= all linear fields by linearity); distinct by (grid, tensor values, "
             "layout); non-trivial = has a Neumann face or non-isotropic/heterogeneous K or a non-Cartesian/perturbed grid",
        bound="<= 4x3 / 3x2x2 cells Cartesian, <= 3x3x2 triangles, <= 48 tetrahedra; " + ("2" if quick else "5") + " random layouts per (grid, tensor)",
        exhaustive=False,
    ) as sw:
        for spec, korth in grid_specs(pp, rng, quick):
            g = build_grid(pp, spec)
            if not cells_valid(g):
                sw.skip()
                continue
            nb = g.get_all_boundary_faces().size
            for tname, K, diag, const in tensor_cases(rng, g.dim, g.num_cells):
                for lname, layout in bc_layouts(rng, nb, 2 if quick else 5):
                    key = (spec["kind"], str(spec.get("n", spec.get("coords"))), str(spec["pert"]), hash(str(spec["nodes"])),
                           tname, hash(np.asarray(K).tobytes()), layout)
                    trivial = spec["kind"] == "cart" and spec["pert"] == 0 and tname == "iso-const" and lname == "all-dir"
                    sw.case(key, nontrivial=not trivial,
                            sample={"grid": {k: v for k, v in spec.items() if k != "nodes"}, "K": tname, "layout": layout, "k_orthogonal": bool(korth and diag)})
                    for ob, detail in evaluate(pp, spec, K, layout, korth):
                        rep.violation(ob, _signature(spec, tname, lname),
                                      inputs={"grid": spec, "K": np.asarray(K).tolist(), "layout": layout, "korth": korth},
                                      detail=detail, confirmed=True)
                    if korth and diag and lname in ("all-dir", "one-neu"):
                        # the Aavatsmark variant of the half transmissibilities must coincide on K-orthogonal grids: all clauses again
                        sw.case(key + ("aavatsmark",), nontrivial=True)
                        for ob, detail in evaluate(pp, spec, K, layout, korth, aavatsmark=True):
                            rep.violation(ob, _signature(spec, tname, lname) + " Aavatsmark_transmissibilities", detail=detail, confirmed=True,
                                          inputs={"grid": spec, "K": np.asarray(K).tolist(), "layout": layout, "korth": korth, "aavatsmark": True})
        # periodic grids: non-uniform tensor grids periodic in x with heterogeneous K_xx
        for xs, ys in (([0, 0.3, 1.0], [0, 1.0, 2.0]), ([0, 0.2, 0.5, 1.0], [0, 0.5]), ([0, 0.5, 1.0], [0, 0.4, 1.0, 1.5])):
            ncell = (len(xs) - 1) * (len(ys) - 1)
            for rep_no in range(2 if quick else 6):
                kxx = [1.0] * ncell if rep_no == 0 else [rng.choice([0.5, 1.0, 2.0, 5.0]) for _ in range(ncell)]
                for aav in (False, True):
                    sw.case(("periodic", str(xs), str(ys), tuple(kxx), aav), nontrivial=True, sample={"periodic tensor grid": [xs, ys], "kxx": kxx, "aavatsmark": aav})
                    for ob, detail in evaluate_periodic(pp, xs, ys, kxx, aav):
                        rep.violation(ob, f"2d periodic tensor grid{' Aavatsmark_transmissibilities' if aav else ''}", detail=detail, confirmed=True,
                                      inputs={"periodic": True, "xs": xs, "ys": ys, "kxx": kxx, "aavatsmark": aav})
        # periodic simplex grids: the numbering of the boundary nodes decides the signs with which the periodic faces enter cell_faces
        # (uniform on a side, equal or opposite on the two sides, or mixed on one side)
        for left_ys, right_ys in (([0, 1, 2, 3], [0, 1, 2, 3]), ([0, 1, 2, 3], [3, 2, 1, 0]), ([0, 2, 1, 3], [0, 1, 2, 3]), ([0, 1, 2, 3], [0, 2, 1, 3]),
                                  ([3, 1, 0, 2], [2, 0, 3, 1])):
            for rep_no in range(1 if quick else 3):
                kseed = None if rep_no == 0 else rng.randrange(10**6)
                sw.case(("periodic simplex", tuple(left_ys), tuple(right_ys), kseed), nontrivial=True, sample={"left": left_ys, "right": right_ys})
                for ob, detail in evaluate_periodic_simplex(pp, left_ys, right_ys, kseed):
                    rep.violation(ob, "2d periodic triangle grid", detail=detail, confirmed=True,
                                  inputs={"periodic_simplex": True, "left_ys": left_ys, "right_ys": right_ys, "kseed": kseed})


def replay(data):
    import porepy as pp

    inp = data["inputs"]
    if inp.get("periodic_simplex"):
        bad = evaluate_periodic_simplex(pp, inp["left_ys"], inp["right_ys"], inp["kseed"])
    elif inp.get("periodic"):
        bad = evaluate_periodic(pp, inp["xs"], inp["ys"], inp["kxx"], inp["aavatsmark"])
    else:
        bad = evaluate(pp, inp["grid"], np.array(inp["K"]), inp["layout"], inp["korth"], aavatsmark=bool(inp.get("aavatsmark")))
    for b in bad:
        print("replay:", b)
    return bool(bad)
