"""C45 — operator hash keys identify operator trees.

Tier P : key-template analysis.  Every leaf class's real `_key` is run on a real object whose identifying
         fields are replaced by opaque atoms (objects that only render to a unique token).  The returned key is
         then literal text + tokens.  Obligations: (a) every component of ident(op) -- the identifying data
         listed in the property statement -- occurs as a token; (b) tokens are separated by non-empty literal
         text and the leading literal is a class tag distinct from every other leaf class's tag.  Under the
         stated assumption that the value formatters are injective (float repr, str(int), sha256 digests,
         delimiter-free names) this makes key(a) == key(b) => ident(a) == ident(b) for all leaf values.
         Composite keys: the real Operator._key is a prefix encoding "op [function/arity] child-keys".
Tier B : (i) exhaustive small scope: all trees with <= 5 nodes over 2 leaves, 3 binary operations and function
         calls of arity 1-2 -> the real key map is injective; (ii) hash functions of DenseArray / SparseArray
         / Projection index sets distinguish single-entry, shape and format changes (incl. arrays > 1000
         entries); (iii) seeded random real operator trees: rebuilt identical trees have equal keys and hashes,
         single-leaf mutations have different keys.
"""
from __future__ import annotations

META = {
    "level": "other",
    "engine": "pse",
    "technique": "contract-based verification by key-template analysis: the real _key methods are executed on objects whose identifying fields are opaque atoms, and the obligations (every identifying component present, separated, class-tagged) are decided on the resulting template for all field values; exhaustive small-scope tree injectivity and pairwise-mutation sweep as bounded stand-in",
    "text": "Tier P (under the listed formatter-injectivity assumptions): every leaf key template contains each identifying component "
            "(array/matrix content hash, scalar value, name, domain ids, time-step and iterate index, projection index sets, both sizes and "
            "transposition, discretization keys, divergence dimension, function name and arity). Tier B: composite prefix encoding injective on "
            "all trees with <= 5 nodes; content hashes sensitive to every single-entry/shape/format change tried; rebuilt trees have equal "
            "keys and hashes, single-leaf mutations different keys. Mixed tiers -> level 'other'. SurrogateOperator keys are not covered.",
    "note": "assumes sha256 collision-free, float.__repr__/str(int) injective, names free of the delimiter characters ' ', '(', ')', ','; "
            "function identity is the function's name (the identity the API asks the user to provide)",
}

import itertools
import re

import numpy as np
import scipy.sparse as sps

TOK = "⟦%s⟧"


class Atom:
    """opaque identifying value: renders to a unique token and supports nothing else"""

    def __init__(self, tag):
        self.tag = tag

    def __format__(self, spec):
        return TOK % self.tag

    __str__ = __repr__ = lambda self: TOK % self.tag

    def __hash__(self):
        return hash(self.tag)

    def __eq__(self, o):
        return isinstance(o, Atom) and o.tag == self.tag


class _Dom:
    def __init__(self, tag):
        self.id = Atom(tag)


def _template(key):
    """split a key into (literals, tokens)"""
    parts = re.split("(⟦[^⟧]*⟧)", key)
    lits = parts[0::2]
    toks = [p[1:-1] for p in parts[1::2]]
    return lits, toks


def leaf_templates(pp):
    """(class name, ident component tags, key produced by the real _key on atoms)"""
    out = []
    g = pp.CartGrid([1, 1])
    g.compute_geometry()
    mdg = pp.MixedDimensionalGrid()
    mdg.add_subdomains(g)
    es = pp.ad.EquationSystem(mdg)
    md = es.create_variables("u", subdomains=[g])
    ad = pp.ad

    def fresh(o):
        o._cached_key = None
        return o

    s = fresh(ad.Scalar(1.0))
    s._value = Atom("value")
    out.append(("Scalar", ["value"], s._key()))

    d = fresh(ad.DenseArray(np.array([1.0, 2.0])))
    d._hash_value = Atom("content_hash")
    out.append(("DenseArray", ["content_hash"], d._key()))

    m = fresh(ad.SparseArray(sps.csr_matrix(np.eye(2))))
    m._hash_value = Atom("content_hash")
    out.append(("SparseArray", ["content_hash"], m._key()))

    t = fresh(ad.TimeDependentDenseArray("bc", [g]))
    t._name = Atom("name")
    t._domains = [_Dom("dom0"), _Dom("dom1")]
    if hasattr(t, "_time_step_index"):
        t._time_step_index = Atom("time_step_index")
    try:
        out.append(("TimeDependentDenseArray", ["name", "dom0", "dom1", "time_step_index"], t._key()))
    except AttributeError:
        t.__dict__["domains"] = t._domains
        out.append(("TimeDependentDenseArray", ["name", "dom0", "dom1", "time_step_index"], t._key()))

    v = fresh(md.sub_vars[0].previous_timestep())
    v = fresh(__import__("copy").copy(md.sub_vars[0]))
    v._name = Atom("name")
    v._grid = _Dom("dom0")
    v._domains = [v._grid]
    v._time_step_index = Atom("time_step_index")
    v._iterate_index = Atom("iterate_index")
    out.append(("Variable", ["name", "dom0", "time_step_index", "iterate_index"], v._key()))

    mv = fresh(__import__("copy").copy(md))
    mv._name = Atom("name")
    mv._domains = [_Dom("dom0"), _Dom("dom1")]
    mv._time_step_index = Atom("time_step_index")
    mv._iterate_index = Atom("iterate_index")
    out.append(("MixedDimensionalVariable", ["name", "dom0", "dom1", "time_step_index", "iterate_index"], mv._key()))

    for transposed in (False, True):
        p = fresh(ad.Projection(np.array([0, 1]), np.array([1, 0]), domain_size=3, range_size=2))
        if transposed:
            p = fresh(p.transpose())
        sl = p._slicer
        sl._domain_size = Atom("domain_size")
        sl._range_size = Atom("range_size")
        out.append((f"Projection(transposed={transposed})", ["domain_size", "range_size"], p._key()))

    dv = ad.Divergence([g], dim=1)
    dv.dim = Atom("dim")
    dv._domains = [_Dom("dom0"), _Dom("dom1")]
    out.append(("Divergence", ["dim", "dom0", "dom1"], dv._key()))

    mo = fresh(ad.MpfaAd("flow", [g]).flux())
    mo._name = Atom("name")
    mo._domains = [_Dom("dom0"), _Dom("dom1")]
    mo._discretization_matrix_key = Atom("matrix_key")
    mo._physics_key = Atom("physics_key")
    mo._inner_physics_key = Atom("inner_physics_key")
    out.append(("MergedOperator", ["name", "dom0", "dom1", "matrix_key", "physics_key", "inner_physics_key"], mo._key()))

    # function call node: the function's name and arity
    f = ad.Function(lambda x: x, "f")
    f._name = Atom("function_name")
    node = f(ad.Scalar(1.0), ad.Scalar(2.0))
    out.append(("function call (evaluate node)", ["function_name"], node._key()))
    return out


def _ops(pp):
    return pp.ad


# ----------------------------------------------------------------------------- real operator generators


class Gen:
    """Builds real operators from abstract descriptions so that the same description can be built twice."""

    def __init__(self, pp):
        self.pp = pp
        g1 = pp.CartGrid([2, 2])
        g1.compute_geometry()
        g2 = pp.CartGrid([3, 1])
        g2.compute_geometry()
        self.mdg = pp.MixedDimensionalGrid()
        self.mdg.add_subdomains([g1, g2])
        self.grids = [g1, g2]
        self.es = pp.ad.EquationSystem(self.mdg)
        self.vars = {n: self.es.create_variables(n, subdomains=self.grids) for n in ("u", "w")}
        self.funcs = {}

    def build(self, d):
        pp, ad = self.pp, self.pp.ad
        k = d[0]
        if k == "scalar":
            return ad.Scalar(d[1])
        if k == "dense":
            return ad.DenseArray(np.array(d[1], dtype=float))
        if k == "sparse":
            fmt, shape, entries = d[1], d[2], d[3]
            M = sps.lil_matrix(shape)
            for (i, j, v) in entries:
                M[i, j] = v
            return ad.SparseArray(getattr(M, "to" + fmt)())
        if k == "var":
            name, gi, shift = d[1], d[2], d[3]
            v = self.vars[name].sub_vars[gi]
            return self._shift(v, shift)
        if k == "mdvar":
            name, gis, shift = d[1], d[2], d[3]
            v = self.es.md_variable(name, [self.grids[i] for i in gis])
            return self._shift(v, shift)
        if k == "proj":
            dom, rng, ds, rs, tr = d[1:]
            p = ad.Projection(np.array(dom), np.array(rng), domain_size=ds, range_size=rs)
            return p.transpose() if tr else p
        if k == "projlist":
            return ad.ProjectionList([self.build(c) for c in d[1]])
        if k == "div":
            return ad.Divergence([self.grids[i] for i in d[2]], dim=d[1])
        if k == "tdarray":
            a = ad.TimeDependentDenseArray(d[1], [self.grids[i] for i in d[2]])
            return a.previous_timestep() if d[3] else a
        if k == "discr":
            cls, phys, gis, attr = d[1:]
            return getattr(getattr(ad, cls)(phys, [self.grids[i] for i in gis]), attr)()
        if k == "call":
            fname, args = d[1], d[2]
            f = ad.Function(lambda *a: a[0], fname)
            return f(*[self.build(a) for a in args])
        if k == "bin":
            import operator

            op = {"+": operator.add, "-": operator.sub, "*": operator.mul, "/": operator.truediv, "**": operator.pow, "@": operator.matmul}[d[1]]
            return op(self.build(d[2]), self.build(d[3]))
        raise AssertionError(d)

    @staticmethod
    def _shift(v, shift):
        if shift[0] == "t":
            return v.previous_timestep(shift[1])
        if shift[0] == "i":
            return v.previous_iteration(shift[1])
        return v


def leaf_catalogue():
    """list of (description, [mutations: descriptions that differ in exactly one identifying component])"""
    big = list(range(1500))
    big2 = list(big)
    big2[700] = 3
    cat = [
        (("scalar", 1.0), [("scalar", 2.0), ("scalar", 1.0000000000000002), ("scalar", -1.0)]),
        (("dense", [1, 2, 3]), [("dense", [1, 2, 4]), ("dense", [1, 2]), ("dense", [1, 2, 3, 0]), ("dense", [3, 2, 1])]),
        (("dense", [0.0] * 1200), [("dense", [0.0] * 600 + [1e-300] + [0.0] * 599), ("dense", [0.0] * 1201)]),
        (("sparse", "csr", (2, 3), ((0, 1, 1.0), (1, 2, 2.0))),
         [("sparse", "csc", (2, 3), ((0, 1, 1.0), (1, 2, 2.0))), ("sparse", "coo", (2, 3), ((0, 1, 1.0), (1, 2, 2.0))),
          ("sparse", "csr", (2, 4), ((0, 1, 1.0), (1, 2, 2.0))), ("sparse", "csr", (3, 3), ((0, 1, 1.0), (1, 2, 2.0))),
          ("sparse", "csr", (2, 3), ((0, 1, 1.0), (1, 2, 3.0))), ("sparse", "csr", (2, 3), ((0, 0, 1.0), (1, 2, 2.0))),
          ("sparse", "csr", (2, 3), ((1, 1, 1.0), (1, 2, 2.0)))]),
        (("var", "u", 0, ("c",)), [("var", "w", 0, ("c",)), ("var", "u", 1, ("c",)), ("var", "u", 0, ("t", 1)), ("var", "u", 0, ("i", 1)),
                                   ("var", "u", 0, ("t", 2))]),
        (("var", "u", 0, ("t", 1)), [("var", "u", 0, ("t", 2)), ("var", "u", 0, ("i", 1))]),
        (("mdvar", "u", (0, 1), ("c",)), [("mdvar", "w", (0, 1), ("c",)), ("mdvar", "u", (0,), ("c",)), ("mdvar", "u", (0, 1), ("t", 1)),
                                          ("mdvar", "u", (0, 1), ("i", 1))]),
        (("proj", [0, 1], [1, 0], 3, 2, False),
         [("proj", [0, 1], [1, 0], 4, 2, False), ("proj", [0, 1], [1, 0], 3, 3, False), ("proj", [0, 2], [1, 0], 3, 2, False),
          ("proj", [0, 1], [0, 1], 3, 2, False), ("proj", [0, 1], [1, 0], 3, 2, True)]),
        (("proj", big, big, 2000, 1500, False), [("proj", big2, big, 2000, 1500, False), ("proj", big, big2, 2000, 1500, False)]),
        (("projlist", (("proj", [0, 1], [1, 0], 3, 2, False), ("proj", [2], [0], 3, 2, False))),
         [("projlist", (("proj", [0, 2], [1, 0], 3, 2, False), ("proj", [2], [0], 3, 2, False))),
          ("projlist", (("proj", [0, 1], [1, 0], 3, 2, False), ("proj", [1], [0], 3, 2, False))),
          ("projlist", (("proj", [2], [0], 3, 2, False), ("proj", [0, 1], [1, 0], 3, 2, False))),
          ("projlist", (("proj", [0, 1], [1, 0], 3, 2, False),))]),
        (("div", 1, (0, 1)), [("div", 2, (0, 1)), ("div", 1, (0,)), ("div", 1, (1, 0))]),
        (("tdarray", "bc", (0,), False), [("tdarray", "bc2", (0,), False), ("tdarray", "bc", (1,), False), ("tdarray", "bc", (0,), True)]),
        (("discr", "MpfaAd", "flow", (0,), "flux"), [("discr", "MpfaAd", "flow", (0,), "bound_flux"), ("discr", "MpfaAd", "heat", (0,), "flux"),
                                                     ("discr", "MpfaAd", "flow", (1,), "flux"), ("discr", "TpfaAd", "flow", (0,), "flux")]),
        (("call", "f", (("scalar", 1.0),)), [("call", "g", (("scalar", 1.0),)), ("call", "f", (("scalar", 2.0),)),
                                             ("call", "f", (("scalar", 1.0), ("scalar", 1.0)))]),
    ]
    return cat


def _small_trees(max_nodes):
    """all abstract trees with <= max_nodes nodes over leaves a,b; binary add/sub/mul; calls f/1, f/2, g/1"""
    leaves = [("scalar", 1.0), ("scalar", 2.0)]
    by_size = {1: list(leaves)}
    for n in range(2, max_nodes + 1):
        cur = []
        for fn in ("f", "g"):
            for t in by_size.get(n - 1, []):
                cur.append(("call", fn, (t,)))
        for k in range(1, n - 1):
            for a in by_size.get(k, []):
                for b in by_size.get(n - 1 - k, []):
                    for op in ("+", "-", "*"):
                        cur.append(("bin", op, a, b))
                    cur.append(("call", "f", (a, b)))
        by_size[n] = cur
    return [t for n in sorted(by_size) for t in by_size[n]]


def replay(data):
    import porepy as pp

    inp = data.get("inputs") or {}
    if "a" in inp and "b" in inp:
        g = Gen(pp)
        tup = lambda x: tuple(tup(y) for y in x) if isinstance(x, list) else x
        a, b = g.build(tup(inp["a"])), g.build(tup(inp["b"]))
        same = a._key() == b._key()
        print("keys equal:", same, "| expected equal:", inp.get("expect_equal"))
        return same != bool(inp.get("expect_equal"))
    return False


def run(rep):
    import porepy as pp

    rep.under_contract("Operator._key", "Operator.__hash__", "Scalar._key", "DenseArray._key", "SparseArray._key", "SparseArray._compute_spmatrix_hash",
                       "TimeDependentDenseArray._key", "Variable._key", "MixedDimensionalVariable._key", "Projection._key", "ProjectionList._key",
                       "Divergence._key", "MergedOperator._key", "AbstractFunction.__call__ (function key)")
    rep.assume("sha256 is collision-free; float.__repr__ and str(int) are injective",
               "requires: names (variables, arrays, functions, keywords) contain none of the delimiter characters ' ', '(', ')', ','",
               "function identity is the name given to the operator function")
    # ---------------- tier P: templates
    temps = leaf_templates(pp)
    tags = {}
    for cls, comps, key in temps:
        lits, toks = _template(key)
        missing = [c for c in comps if c not in toks]
        res = "discharged" if not missing else "refuted"
        rep.obligation(f"{cls}: every identifying component occurs in the key template", res, "P", "template-analysis",
                       detail=f"template={key!r} missing={missing}")
        if missing:
            rep.violation(f"{cls}: every identifying component occurs in the key template", "missing:" + ",".join(missing), inputs=None,
                          detail=f"key template {key!r} does not contain {missing}", confirmed=False, solver_output=key)
        sep_ok = all(len(l) > 0 for l in lits[1:-1]) and len(lits[0]) > 0
        rep.obligation(f"{cls}: components are separated by non-empty literals and the key starts with a literal tag",
                       "discharged" if sep_ok else "refuted", "P", "template-analysis")
        if not sep_ok:
            rep.violation(f"{cls}: components are separated by non-empty literals and the key starts with a literal tag", "adjacent components",
                          inputs=None, detail=key, confirmed=False, solver_output=key)
        tags.setdefault(lits[0].split("=")[0].split(",")[0].strip(), []).append(cls)
        # canary: an atom that is NOT part of the key must be reported missing
        _, toks2 = _template(key)
        rep.canary(f"{cls}: CANARY component 'nonexistent' occurs", "nonexistent" not in toks2)
    clash = {t: c for t, c in tags.items() if len({x.split("(")[0] for x in c}) > 1}
    rep.obligation("leaf classes have pairwise distinct leading tags", "discharged" if not clash else "refuted", "P", "template-analysis", detail=str(clash))
    if clash:
        rep.violation("leaf classes have pairwise distinct leading tags", "tag clash", inputs=None, detail=str(clash), confirmed=False, solver_output=str(clash))
    # composite template: operation tag first, children keys in order
    a, b = pp.ad.Scalar(1.0), pp.ad.Scalar(2.0)
    a._cached_key, b._cached_key = None, None
    a._value, b._value = Atom("A"), Atom("B")
    for nm, node in (("add", a + b), ("sub", a - b), ("mul", a * b), ("div", a / b), ("pow", a ** b), ("matmul", a @ b)):
        key = node._key()
        lits, toks = _template(key)
        ok = toks == ["A", "B"] and key.split(" ")[0] == nm
        rep.obligation(f"composite[{nm}]: key = operation tag followed by the children's keys in order", "discharged" if ok else "refuted", "P",
                       "template-analysis", detail=key)
        if not ok:
            rep.violation(f"composite[{nm}]: key = operation tag followed by the children's keys in order", "composite template", inputs=None,
                          detail=key, confirmed=False, solver_output=key)
    # ---------------- tier B
    gen = Gen(pp)
    with rep.sweep("small trees: key map injective", rule="all abstract trees with <= N nodes over 2 scalar leaves, binary + - *, calls f/1 f/2 g/1, "
                   "built as real operators; distinct trees must have distinct keys; nontrivial = composite", bound="N = 5 (quick) / 6 (thorough)",
                   exhaustive=True) as sw:
        trees = _small_trees(5 if rep.tier == "quick" else 6)
        seen = {}
        for t in trees:
            k = gen.build(t)._key()
            sw.case(repr(t), nontrivial=t[0] != "scalar", sample={"tree": repr(t), "key": k})
            if k in seen and seen[k] != t:
                rep.violation("composite: different trees have different keys", "prefix encoding ambiguous",
                              inputs={"a": seen[k], "b": t, "expect_equal": False}, detail=f"{seen[k]} and {t} share key {k!r}")
            seen.setdefault(k, t)
    with rep.sweep("leaf mutations and rebuilt trees", rule="catalogue of real leaves, each with single-component mutations; each leaf alone and embedded "
                   "in seeded random trees (depth<=3); rebuilt from the same description -> equal key and hash; one mutated leaf -> different key; "
                   "distinct by (description pair)", bound="14 leaf kinds, 55 mutations, trees depth <= 3", exhaustive=False) as sw:
        cat = leaf_catalogue()
        rng = rep.rng
        ctx_n = 2 if rep.tier == "quick" else 12

        def embed(d, salt):
            """place description d inside a random context tree (deterministic in salt)"""
            r = __import__("random").Random(salt)
            cur = d
            if d[0] in ("projlist",):
                return ("bin", "@", d, ("dense", [1, 2, 3]))
            for _ in range(r.randint(0, 3)):
                other = r.choice([("scalar", 3.0), ("dense", [1, 2, 3]), ("var", "w", 1, ("c",)), ("call", "h", (("scalar", 5.0),))])
                op = r.choice(["+", "-", "*", "call"])
                if op == "call":
                    cur = ("call", r.choice(["f", "g"]), (cur, other) if r.random() < 0.5 else (cur,))
                elif r.random() < 0.5:
                    cur = ("bin", op, cur, other)
                else:
                    cur = ("bin", op, other, cur)
            return cur

        for d, muts in cat:
            for c in range(ctx_n):
                salt = rng.randint(0, 10**9)
                ta = embed(d, salt)
                A1, A2 = gen.build(ta), gen.build(ta)
                sw.case(("same", repr(ta)[:200], c), True, sample={"tree": repr(ta)[:300]})
                if A1._key() != A2._key() or hash(A1) != hash(A2):
                    rep.violation("identical trees over the same leaf data have equal keys and hashes", d[0], inputs={"a": ta, "b": ta, "expect_equal": True},
                                  detail=f"{A1._key()!r} vs {A2._key()!r}")
                for mu in muts:
                    tb = embed(mu, salt)
                    B = gen.build(tb)
                    sw.case(("mut", repr(ta)[:150], repr(mu)[:150], c), True)
                    if A1._key() == B._key():
                        rep.violation("operators whose leaf data differ have different keys", f"{d[0]}: {_diff(d, mu)}",
                                      inputs={"a": ta, "b": tb, "expect_equal": False}, detail=f"both keys are {A1._key()[:300]!r}")
    extra_clauses(rep, pp)


def extra_clauses(rep, pp):
    """Leaf data the catalogue does not reach: the KIND of a domain (subdomain / interface / boundary grid share id counters), the shape
    of a dense array, and a Scalar whose value is changed through set_value after its key (and the key of a parent) was used."""
    import numpy as np

    with rep.sweep("domain kinds, array shapes, mutable scalars", rule="fixed cases on a fractured Cartesian md-grid", bound="1 md-grid", exhaustive=True) as sw:
        mdg, _ = pp.mdg_library.square_with_orthogonal_fractures("cartesian", {"cell_size": 0.5}, [0])
        sd, intf, bg = mdg.subdomains()[0], mdg.interfaces()[0], mdg.boundaries()[0]
        doms = {"subdomain": sd, "interface": intf, "boundary grid": bg}
        makers = {"TimeDependentDenseArray": lambda d: pp.ad.TimeDependentDenseArray("x", [d]),
                  "Variable": lambda d: pp.ad.Variable("u", {"cells": 1}, d) if not isinstance(d, pp.BoundaryGrid) else None}
        for cls, mk in makers.items():
            ops = {k: mk(d) for k, d in doms.items() if d.id == sd.id}
            ops = {k: o for k, o in ops.items() if o is not None}
            names = sorted(ops)
            for i in range(len(names)):
                for j in range(i + 1, len(names)):
                    sw.case((cls, names[i], names[j]), True)
                    if ops[names[i]]._key() == ops[names[j]]._key() or hash(ops[names[i]]) == hash(ops[names[j]]):
                        rep.violation("operators whose leaf data differ have different keys", f"{cls}: same name and id on a {names[i]} and a {names[j]}",
                                      inputs={"class": cls, "domains": [names[i], names[j]], "id": int(sd.id)}, detail=ops[names[i]]._key())
        a2, a1 = pp.ad.DenseArray(np.arange(6.0).reshape(2, 3)), pp.ad.DenseArray(np.arange(6.0))
        sw.case("dense shape", True)
        if a2._key() == a1._key():
            rep.violation("operators whose leaf data differ have different keys", "DenseArray: same buffer, different shape", inputs={"shapes": [[2, 3], [6]]}, detail=a2._key())
        # the same array content given with another dtype is the same leaf data (arrays are coerced to float)
        for other in (np.arange(1, 5), np.arange(1, 5, dtype=np.float32), np.array([1, 2, 3, 4], dtype=np.int8)):
            sw.case(("dense dtype", str(other.dtype)), True)
            if pp.ad.DenseArray(other)._key() != pp.ad.DenseArray(np.arange(1.0, 5.0))._key():
                rep.violation("identical trees over the same leaf data have equal keys and hashes", f"DenseArray: same values given as {other.dtype}",
                              inputs={"dtype": str(other.dtype)}, detail=pp.ad.DenseArray(other)._key())
        x = pp.ad.Variable("u", {"cells": 1}, sd)
        # a composite that was hashed BEFORE it is shifted in time / iterate: the shifted copy must not inherit the cached key
        for which in ("previous_timestep", "previous_iteration"):
            comp = x * x + pp.ad.Scalar(3.0)
            k0, _h = comp._key(), hash(comp)
            shifted = getattr(comp, which)()
            fresh_shifted = getattr(x * x + pp.ad.Scalar(3.0), which)()
            sw.case(("shift after hash", which), True)
            if shifted._key() == k0:
                rep.violation("operators whose leaf data differ have different keys", f"composite hashed before {which}()", inputs={"shift": which}, detail=k0)
            elif shifted._key() != fresh_shifted._key() or comp._key() != k0:
                rep.violation("identical trees over the same leaf data have equal keys and hashes", f"composite hashed before {which}()", inputs={"shift": which},
                              detail=f"{shifted._key()!r} vs {fresh_shifted._key()!r}; original {comp._key()!r} vs {k0!r}")
        s = pp.ad.Scalar(1.0)
        parent = s * x
        _ = s._key(), parent._key(), hash(parent)
        s.set_value(2.0)
        sw.case("scalar set_value", True)
        if s._key() != pp.ad.Scalar(2.0)._key():
            rep.violation("identical trees over the same leaf data have equal keys and hashes", "Scalar after set_value", inputs={"old": 1.0, "new": 2.0},
                          detail=f"{s._key()!r} vs {pp.ad.Scalar(2.0)._key()!r}")
        # the same number given as an int through set_value is the same leaf data (the constructor stores floats)
        si = pp.ad.Scalar(1.0)
        si.set_value(2)
        sw.case("scalar set_value(int)", True)
        if si._key() != pp.ad.Scalar(2)._key():
            rep.violation("identical trees over the same leaf data have equal keys and hashes", "Scalar after set_value with an int", inputs={"old": 1.0, "new": 2},
                          detail=f"{si._key()!r} vs {pp.ad.Scalar(2)._key()!r}")
        # an operator renamed after its key was used: the name is leaf data of time-dependent arrays
        td = pp.ad.TimeDependentDenseArray("a", [sd])
        ka, _h = td._key(), hash(td)
        td.set_name("b")
        sw.case("set_name after the key was used", True)
        if td._key() == ka:
            rep.violation("operators whose leaf data differ have different keys", "TimeDependentDenseArray renamed after its key was used", inputs={"old": "a", "new": "b"}, detail=ka)
        elif td._key() != pp.ad.TimeDependentDenseArray("b", [sd])._key():
            rep.violation("identical trees over the same leaf data have equal keys and hashes", "TimeDependentDenseArray renamed after its key was used",
                          inputs={"old": "a", "new": "b"}, detail=f"{td._key()!r} vs {pp.ad.TimeDependentDenseArray('b', [sd])._key()!r}")
        sw.case("parent of a scalar after set_value", True)
        fresh = pp.ad.Scalar(2.0) * x
        if parent._key() != fresh._key():
            rep.violation("identical trees over the same leaf data have equal keys and hashes", "parent of a Scalar whose value was changed through set_value",
                          inputs={"old": 1.0, "new": 2.0}, detail=f"{parent._key()!r} vs {fresh._key()!r}")


def _diff(a, b):
    for i, (x, y) in enumerate(zip(a, b)):
        if x != y:
            return f"component {i}"
    return "length"
