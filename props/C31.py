"""C31 -- geometric predicates and point orderings agree with exact oracles.

Tier P  : is_ccw_polyline -- the real function run on proxies: number of test points, every coordinate, tol >= 0 symbolic; at a
          Skolem entry k: True left of the band, False right of it, `default` inside; single-point form likewise.
Tier Ps : is_ccw_polygon (3-8 vertices, all real coordinates) == (shoelace area > 0); point_inside_half_space_intersection
          ((planes, points) up to (3, 2), all real values) == conjunction of the half-space inequalities.
          Refuted obligations are replayed on the real function with a counter-model kept away from degenerate values.
Tier B  : bounded run-time contract sweep (exhaustive small scope where stated) for all predicates and orderings:

Predicates (ensures: the returned boolean equals the exact answer; requires: the query is not ON the boundary
/ in the tolerance band, decided exactly in rational arithmetic -- such inputs are skipped):
  point_in_polygon(poly, p, default)        exact crossing-number test; polygons: 7 catalogue shapes (3 convex, 4 non-convex),
                                            each ccw and cw and with shifted start vertex; queries: every integer and every
                                            half-integer-offset point of [-1,5]^2; vectorised and single-point calls;
                                            default=False and default=True.
  point_in_polyhedron(faces, pts)           cube [0,4]^3, tetrahedron, L-shaped prism (3 merged cubes, 14 square faces); exact
                                            oracle from the DEFINITION of the solid (product of intervals / half-spaces / union
                                            of boxes with an infinitesimal-octant test), not from the face list; queries: all
                                            integer and half-offset points of [-1,5]^3.
  PointInPolyhedron.winding_number          |wn| = 1 inside, 0 outside (1e-9) on an outward-oriented fan triangulation of the same
                                            solids; points for which the documented ValueError (coplanar/collinear/vertex) is
                                            raised are outside the contract's requires.
  point_inside_half_space_intersection      all (p-x0_i).n_i <= 0; cube, tetrahedron, oblique wedge, unbounded pair of planes.
  half_space_interior_point                 returned point strictly on one side of every plane (all < 0 or all > 0), evaluated
                                            exactly on the returned doubles; outward and inward normals, translated copies.
  is_ccw_polygon                            sign of the exact signed area; ALL integer triangles of [-2,2]^2 + catalogue polygons.
  is_ccw_polyline                           sign of the exact cross product; ALL integer triples of [-2,2]^2, single and
                                            vectorised third argument, tol = 0 and tol = 0.5 (band |cross| <= tol skipped).
  points_are_planar                         exact rank test (all 4-point determinants vanish); ALL 4-subsets of {-1,0,1}^3 that
                                            are not collinear (17550 minus collinear), normal=None and normal given.
  points_are_collinear                      exact cross products; ALL ordered triples of distinct points of {-1,0,1}^3, and
                                            4-point sets (collinear triple + one further lattice point in every position).
Orderings (ensures: the result is valid for the input; nothing about WHICH valid result):
  sort_point_pairs        output columns are the input columns (each possibly flipped, extra rows travelling with their
                          column), sort_ind gives the permutation, consecutive pairs share a node, closed if circular.
                          ALL edge orders x flips of cycles of length 3-5 (circular) and chains of length 2-5 (non-circular),
                          arbitrary non-contiguous node labels, with and without an extra tag row; seeded length 6-8.
  sort_point_plane        the returned permutation lists the points in cyclic angular order about the centre (either sense);
                          ALL orders of 5 points / seeded orders of 6-7 points of convex point sets in 5 planes.
  sort_points_on_line     the returned permutation is strictly monotone in the line parameter; ALL orders of 4 collinear
                          lattice points for the 13 lattice directions, two offsets.
  sort_triangle_edges     each output triangle has the vertices of the input triangle in the same column, and no directed edge
                          occurs twice; tetrahedron (ALL 6^4 vertex orders), octahedron and triangulated cube / strip (seeded
                          vertex orders and column permutations).

Oracles are exact (integers / fractions.Fraction) and written from the definitions; nothing is taken from the code.

Unchanged tree -- violations (kept strict, reported to the lead); everything else holds on every enumerated case:
  F1 "point_in_polygon: exact answer off the boundary" / "non-convex, interior point collinear with an edge, default=False",
     "convex|non-convex, exterior point collinear with an edge, default=True": a query that lies on the LINE through some
     edge (not on the edge) makes `edge_sgn == 0`, is taken for "on the boundary" and gets `default`:
       L = [[0,4,4,2,2,0],[0,0,2,2,4,4]]; point_in_polygon(L, [[2.],[1.]]) -> [False]   ((2,1) is strictly inside)
       sq = [[0,4,4,0],[0,0,4,4]];        point_in_polygon(sq, [[5.],[0.]], default=True) -> [True]   ((5,0) is outside)
  F2 "point_in_polyhedron: exact answer off the boundary" / "non-convex, interior point coplanar with a face": the
     ValueError "Origin point is coplanar with the vertices" is mapped to "outside"; an interior point of a non-convex
     polyhedron can lie in the plane of a face: L-prism (cubes [0,2]^3, [2,4]x[0,2]^2, [0,2]x[2,4]x[0,2]), p=(2,1,1) -> False.
  F3 "points_are_collinear: exact answer" / "3|4 points, the only off-line point is the last one": the loop runs over
     pts[:, 1:-1], the last point is never tested: points_are_collinear([[0,1,0],[0,0,1],[0,0,0]]) -> True.
  F4 "sort_point_pairs: does not raise on a valid chain" / "open chain with tag row sharing values with the node
     labels": with is_circular=False the end nodes are found with np.bincount(lines.ravel()), which also counts the extra
     rows: sort_point_pairs(np.array([[0,1],[1,2],[0,2]]), is_circular=False) -> IndexError (rows 0-1: chain 0-1-2, row 2: tags).

Detection power (scratch copy of /repo/src under /var/tmp, POREPY_SRC=<copy>, one bug at a time, quick tier; each gave
exit 1 with VIOLATION lines whose (obligation, signature) do not occur on the unchanged tree):
  M1  is_ccw_polygon: `(p_1[i+1] + p_1[i])` -> `-`                      -> "is_ccw_polygon: sign of the exact signed area"
  M2  is_ccw_polyline: `cross_product < -tol` -> `< -tol - 1`           -> "is_ccw_polyline: sign of the exact cross product"
  M3  point_in_polygon: `np.abs(winding_number) > 0` -> without abs     -> "point_in_polygon: ..." (interior point, cw polygons)
  M4  point_in_polygon: tie-break `vertex_sgn_poly[hit] = sign(y)` dropped -> "point_in_polygon: ..." (exterior point)
  M5  points_are_planar: atol=tol -> atol=1.0                           -> "points_are_planar: exact answer" (planar=False)
  M6  point_in_polyhedron: `num_points += simplices.max() + 1` -> no +1 -> "point_in_polyhedron: does not raise ..." / "... convex, interior point"
  M7  half-space test: `in_hull == n` -> `>= n - 1`                     -> "point_inside_half_space_intersection: ..." (exterior point)
  M8  half_space_interior_point: division by x4 dropped                 -> "half_space_interior_point: returned point is strictly inside ..."
  M9  sort_point_pairs: flipped-branch `prev = lines[0, j]` -> `[1, j]` -> "sort_point_pairs: does not raise on a valid chain" (cycle, open chain)
  M10 sort_point_plane: argsort(arctan2(..)) -> argsort(x)              -> "sort_point_plane: result is the cyclic angular order ..."
  M11 sort_points_on_line: argsort(p) -> argsort(|p|)                   -> "sort_points_on_line: result is monotone along the line"
  M12 sort_triangle_edges: `hit_new_1 - hit_new_0 == 1` -> `== 2`       -> "sort_triangle_edges: no directed edge occurs twice" (+ point_in_polyhedron)
  M13 point_in_polyhedron: `np.abs(wn) > tol` -> `wn > tol`             -> "point_in_polyhedron: ..." (interior point)
  M14 points_are_collinear: `np.cross(p - pt0, pt1 - pt0)` -> `np.cross(p - pt0, pt1)` -> "points_are_collinear: exact answer" (collinear)
  (not detectable: `pts[:, 1:-1]` -> `pts[:, 2:-1]` in points_are_collinear is an equivalent mutant -- p1 is trivially on the line p0-p1.)
"""
from __future__ import annotations

import functools
import itertools
from fractions import Fraction

META = {
    "level": "other",
    "engine": "pse",
    "technique": "contract-based deductive verification of is_ccw_polyline (all lengths, all reals), is_ccw_polygon and "
                 "point_inside_half_space_intersection (all reals, bounded shapes) by proxy symbolic execution + z3; run-time contract sweep "
                 "(bounded stand-in) for the other predicates and the sorting helpers against exact rational oracles / validity checkers",
    "text": "Tier P: is_ccw_polyline(p1, p2, p3, tol, default) for every number of test points, all real coordinates, every tol >= 0 and both "
            "defaults: entry k is True where cross > tol, False where cross < -tol, `default` in the band; single-point form too. Tier Ps (all "
            "real values, shapes bounded): is_ccw_polygon for 3-8 vertices equals (shoelace signed area > 0); "
            "point_inside_half_space_intersection for (planes, points) in {(1,1),(2,2),(3,1),(4,1),(3,2)} equals the conjunction of the "
            "half-space inequalities. Tier B: exhaustive integer (and half-offset) query points of a box against a fixed catalogue (7 polygons in "
            "all orientations, cube/tetrahedron/L-prism, 4 half-space systems), exhaustive integer triangles/triples/4-subsets for the ccw, "
            "planarity and collinearity tests; boundary/tolerance-band queries are excluded exactly. Orderings: exhaustive edge orders/flips "
            "for chains and cycles up to length 5, all orders of 4-5 points for the line/plane sorts, all vertex orders of a tetrahedron. "
            "Mixed tiers -> level 'other'.",
    "note": "oracles: crossing number, signed area, determinants, definition of the solids; all exact. Deductive part: floats as reals; numpy "
            "elementwise arithmetic, comparison, masked assignment, np.ones/zeros/abs/append/repeat/sum models",
}

RTOL = 1e-9

# ============================================================================= exact helpers


def sub(p, q):
    return tuple(a - b for a, b in zip(p, q))


def dot(u, v):
    return sum(a * b for a, b in zip(u, v))


def cross3(u, v):
    return (u[1] * v[2] - u[2] * v[1], u[2] * v[0] - u[0] * v[2], u[0] * v[1] - u[1] * v[0])


def x2(u, v):
    return u[0] * v[1] - u[1] * v[0]


def on_segment(q, a, b):
    d, w = sub(b, a), sub(q, a)
    c, L = dot(w, d), dot(d, d)
    if c < 0 or c > L:
        return False
    return dot(w, w) * L == c * c


def polygon_status(poly, q):
    """'on' / 'in' / 'out' (crossing-number rule, exact)"""
    k = len(poly)
    for i in range(k):
        if on_segment(q, poly[i], poly[(i + 1) % k]):
            return "on"
    inside = False
    for i in range(k):
        a, b = poly[i], poly[(i + 1) % k]
        if (a[1] > q[1]) != (b[1] > q[1]):
            xi = a[0] + Fraction(q[1] - a[1]) * (b[0] - a[0]) / (b[1] - a[1])
            if xi > q[0]:
                inside = not inside
    return "in" if inside else "out"


def collinear_with_an_edge(poly, q):
    k = len(poly)
    return any(x2(sub(q, poly[i]), sub(poly[(i + 1) % k], poly[i])) == 0 for i in range(k))


def signed_area2(poly):
    k = len(poly)
    return sum(x2(poly[i], poly[(i + 1) % k]) for i in range(k))


def is_convex(poly):
    k = len(poly)
    t = [x2(sub(poly[(i + 1) % k], poly[i]), sub(poly[(i + 2) % k], poly[(i + 1) % k])) for i in range(k)]
    return all(v > 0 for v in t) or all(v < 0 for v in t)


POLYGONS_2D = {
    "triangle": [(0, 0), (4, 0), (0, 4)],
    "square": [(0, 0), (4, 0), (4, 4), (0, 4)],
    "hexagon": [(1, 0), (3, 0), (4, 2), (3, 4), (1, 4), (0, 2)],
    "L": [(0, 0), (4, 0), (4, 2), (2, 2), (2, 4), (0, 4)],
    "chevron": [(0, 0), (2, 1), (4, 0), (2, 4)],
    "U": [(0, 0), (4, 0), (4, 4), (3, 4), (3, 1), (1, 1), (1, 4), (0, 4)],
    "star": [(0, 0), (2, 1), (4, 0), (3, 2), (4, 4), (2, 3), (0, 4), (1, 2)],
}

H = Fraction(1, 2)


def _queries(dim, lo, hi):
    ints = list(itertools.product(range(lo, hi + 1), repeat=dim))
    halves = [tuple(c + H for c in p) for p in itertools.product(range(lo, hi), repeat=dim)]
    return ints + halves


# ----------------------------------------------------------------------------- solids (defined independently of face lists)


class BoxUnion:
    def __init__(self, boxes):
        self.boxes = boxes  # list of ((x0,x1),(y0,y1),(z0,z1))

    def status(self, p):
        hits = 0
        for s in itertools.product((-1, 1), repeat=3):  # p + eps*s for an infinitesimal eps > 0
            inside = False
            for b in self.boxes:
                if all((lo < c < hi) or (c == lo and si > 0) or (c == hi and si < 0) for c, si, (lo, hi) in zip(p, s, b)):
                    inside = True
                    break
            hits += inside
        return "in" if hits == 8 else ("out" if hits == 0 else "on")


class ConvexSolid:
    def __init__(self, planes):
        self.planes = planes  # list of (n, c): n.x <= c

    def status(self, p):
        v = [dot(n, p) - c for n, c in self.planes]
        if any(x > 0 for x in v):
            return "out"
        return "on" if any(x == 0 for x in v) else "in"


def _square(axis, val, r0, r1):
    """square face perpendicular to `axis` at coordinate val, spanning r0 x r1 in the other two axes"""
    o = [i for i in range(3) if i != axis]
    pts = []
    for a, b in ((r0[0], r1[0]), (r0[1], r1[0]), (r0[1], r1[1]), (r0[0], r1[1])):
        p = [0, 0, 0]
        p[axis], p[o[0]], p[o[1]] = val, a, b
        pts.append(tuple(p))
    return pts


def _box_faces(boxes):
    """exterior faces of a union of equal-size boxes that meet face to face (a face shared by two boxes is interior)"""
    faces = {}
    for bi, b in enumerate(boxes):
        for axis in range(3):
            o = [i for i in range(3) if i != axis]
            for val in b[axis]:
                f = _square(axis, val, b[o[0]], b[o[1]])
                faces.setdefault(frozenset(f), []).append((f, bi))
    return [(v[0][0], v[0][1]) for v in faces.values() if len(v) == 1]


def _solids():
    out = {}
    cube = [((0, 4), (0, 4), (0, 4))]
    out["cube"] = (BoxUnion(cube), [f for f, _ in _box_faces(cube)], [(f, (2, 2, 2)) for f, _ in _box_faces(cube)], True)
    lb = [((0, 2), (0, 2), (0, 2)), ((2, 4), (0, 2), (0, 2)), ((0, 2), (2, 4), (0, 2))]
    cen = [tuple(Fraction(a + b, 2) for a, b in box) for box in lb]
    ff = _box_faces(lb)
    out["L-prism"] = (BoxUnion(lb), [f for f, _ in ff], [(f, cen[bi]) for f, bi in ff], False)
    V = [(0, 0, 0), (4, 0, 0), (0, 4, 0), (0, 0, 4)]
    tet_faces = [[V[0], V[2], V[1]], [V[0], V[1], V[3]], [V[0], V[3], V[2]], [V[1], V[2], V[3]]]
    tet = ConvexSolid([((-1, 0, 0), 0), ((0, -1, 0), 0), ((0, 0, -1), 0), ((1, 1, 1), 4)])
    out["tetrahedron"] = (tet, tet_faces, [(f, (1, 1, 1)) for f in tet_faces], True)
    return out


def _outward_triangulation(faces_with_ref):
    """fan triangulation, every triangle oriented so that its normal points away from the given interior reference point"""
    verts, index, tris = [], {}, []
    for f, ref in faces_with_ref:
        for p in f:
            if p not in index:
                index[p] = len(verts)
                verts.append(p)
        for k in range(1, len(f) - 1):
            a, b, c = f[0], f[k], f[k + 1]
            n = cross3(sub(b, a), sub(c, a))
            if dot(n, sub(a, ref)) < 0:
                b, c = c, b
            tris.append((index[a], index[b], index[c]))
    return verts, tris


# ============================================================================= predicate sweeps


def _arr(points, dtype=float):
    import numpy as np

    return np.array([[float(c) for c in p] for p in points], dtype=dtype).T


def sweep_point_in_polygon(rep, pp, quick):
    import numpy as np

    f = pp.geometry_property_checks.point_in_polygon
    Q = _queries(2, -1, 5) if quick else _queries(2, -3, 7)
    with rep.sweep(
        "point_in_polygon",
        rule="7 catalogue polygons x {ccw, cw} x {start vertex 0, 2} x every integer and half-offset point of [-1,5]^2 x default in "
             "{False, True}; one vectorised call per (polygon variant, default) and a single-point call for every 4th query; points "
             "exactly on the boundary are excluded by the requires; non-trivial = the exact answer is 'inside' or the point is collinear "
             "with an edge; distinct by (polygon variant, default, point)",
        bound="7 x 4 variants x 85 points ([-1,5]^2; thorough [-3,7]^2: 221) x 2 defaults",
        exhaustive=True,
    ) as sw:
        for name, base in POLYGONS_2D.items():
            kind = "convex" if is_convex(base) else "non-convex"
            for orient in ("ccw", "cw"):
                for shift in (0, 2):
                    poly = base if orient == "ccw" else base[::-1]
                    poly = poly[shift:] + poly[:shift]
                    adm = [q for q in Q if polygon_status(poly, q) != "on"]
                    sw.skipped += 2 * (len(Q) - len(adm))
                    P = _arr(poly)
                    for default in (False, True):
                        res = f(P, _arr(adm), default=default)
                        for k, q in enumerate(adm):
                            exact = polygon_status(poly, q) == "in"
                            col = collinear_with_an_edge(poly, q)
                            sw.case(key=(name, orient, shift, default, q), nontrivial=(exact or col),
                                    sample={"polygon": poly, "point": [str(c) for c in q], "default": default, "exact": exact})
                            got = [bool(res[k])]
                            how = ["vectorised"]
                            if k % 4 == 0:
                                got.append(bool(f(P, np.array([float(c) for c in q]), default=default)[0]))
                                how.append("single point")
                            for g, h in zip(got, how):
                                if g != exact:
                                    cls = ("interior" if exact else "exterior") + " point" + (" collinear with an edge" if col else "")
                                    rep.violation("point_in_polygon: exact answer off the boundary",
                                                  f"{kind}, {cls}, default={default}",
                                                  inputs={"fn": "point_in_polygon", "polygon": poly, "point": [str(c) for c in q], "default": default},
                                                  detail=f"{name} {orient} shift {shift}: p={tuple(str(c) for c in q)} exact inside={exact}, returned {g} ({h})")


def sweep_point_in_polyhedron(rep, pp, quick):
    import numpy as np

    f = pp.geometry_property_checks.point_in_polyhedron
    Q = _queries(3, -1, 5) if quick else _queries(3, -2, 6)
    solids = _solids()
    with rep.sweep(
        "point_in_polyhedron",
        rule="cube [0,4]^3, tetrahedron (0,0,0),(4,0,0),(0,4,0),(0,0,4), L-shaped prism (three merged cubes of side 2, 14 faces) x every "
             "integer and half-offset point of [-1,5]^3; faces also given in reversed vertex order and reversed face order; boundary points "
             "(exact) excluded; non-trivial = exact answer 'inside'; distinct by (solid, face variant, point)",
        bound="3 solids x 2 face variants x 559 points ([-1,5]^3; thorough [-2,6]^3: 1241)",
        exhaustive=True,
    ) as sw:
        for name, (solid, faces, _fr, convex) in solids.items():
            st = {q: solid.status(q) for q in Q}
            # sanity of the catalogue itself: all face vertices and face centroids are boundary points of the solid
            for fc in faces:
                cen = tuple(Fraction(sum(p[i] for p in fc), len(fc)) for i in range(3))
                assert solid.status(cen) == "on" and all(solid.status(p) == "on" for p in fc), (name, fc)
            adm = [q for q in Q if st[q] != "on"]
            sw.skipped += 2 * (len(Q) - len(adm))
            planes = [(cross3(sub(fc[1], fc[0]), sub(fc[2], fc[0])), fc[0]) for fc in faces]
            for variant in ("as listed", "reversed"):
                fl = faces if variant == "as listed" else [fc[::-1] for fc in faces[::-1]]
                try:
                    res = f([_arr(fc) for fc in fl], _arr(adm))
                except Exception as ex:  # noqa: BLE001
                    rep.violation("point_in_polyhedron: does not raise on admissible input", f"{name} ({variant})",
                                  inputs={"fn": "point_in_polyhedron", "solid": name, "variant": variant}, detail=f"{type(ex).__name__}: {ex}")
                    continue
                for k, q in enumerate(adm):
                    exact = st[q] == "in"
                    sw.case(key=(name, variant, q), nontrivial=exact, sample={"solid": name, "point": [str(c) for c in q], "exact": exact})
                    if bool(res[k]) != exact:
                        cop = any(dot(n, sub(q, a)) == 0 for n, a in planes)
                        cls = ("interior" if exact else "exterior") + " point" + (" coplanar with a face" if cop else "")
                        rep.violation("point_in_polyhedron: exact answer off the boundary",
                                      f"{'convex' if convex else 'non-convex'}, {cls}",
                                      inputs={"fn": "point_in_polyhedron", "solid": name, "variant": variant, "point": [str(c) for c in q]},
                                      detail=f"{name} ({variant}): p={tuple(str(c) for c in q)} exact inside={exact}, returned {bool(res[k])}")
    with rep.sweep(
        "PointInPolyhedron.winding_number",
        rule="outward-oriented fan triangulation of the same three solids; |wn| compared with 1 (inside) / 0 (outside) at 1e-9 for the same "
             "query points; queries on the boundary, and queries for which the documented ValueError is raised, are outside the requires",
        bound="3 solids x 559 points",
        exhaustive=True,
    ) as sw:
        for name, (solid, _faces, fr, convex) in solids.items():
            verts, tris = _outward_triangulation(fr)
            obj = pp.point_in_polyhedron.PointInPolyhedron(np.array(verts, dtype=float), np.array(tris, dtype=int))
            for q in Q:
                s = solid.status(q)
                if s == "on":
                    sw.skip()
                    continue
                try:
                    wn = obj.winding_number(np.array([float(c) for c in q]))
                except ValueError:
                    sw.skip()
                    continue
                sw.case(key=(name, q), nontrivial=(s == "in"))
                want = 1.0 if s == "in" else 0.0
                if not abs(abs(wn) - want) <= RTOL:
                    rep.violation("PointInPolyhedron.winding_number: |wn| is 1 inside and 0 outside",
                                  f"{'convex' if convex else 'non-convex'} polyhedron, {'interior' if s == 'in' else 'exterior'} point",
                                  inputs={"fn": "winding_number", "solid": name, "point": [str(c) for c in q]}, detail=f"{name}: p={q} wn={wn!r}")


HALF_SPACES = {
    # name: list of (outward normal, point on the plane); the set is {x : (x - x0).n <= 0 for all}
    "cube": [((-1, 0, 0), (0, 0, 0)), ((1, 0, 0), (4, 0, 0)), ((0, -1, 0), (0, 0, 0)), ((0, 1, 0), (0, 4, 0)), ((0, 0, -1), (0, 0, 0)), ((0, 0, 1), (0, 0, 4))],
    "tetrahedron": [((-1, 0, 0), (0, 0, 0)), ((0, -1, 0), (0, 0, 0)), ((0, 0, -1), (0, 0, 0)), ((1, 1, 1), (4, 0, 0))],
    "oblique wedge": [((1, 2, 0), (4, 0, 0)), ((-2, 1, 0), (0, 0, 0)), ((0, -1, 1), (0, 0, 0)), ((0, 0, -3), (1, 1, 0)), ((1, 1, 1), (3, 3, 3))],
    "two planes (unbounded)": [((1, 0, 0), (2, 7, -3)), ((0, 1, 1), (5, 1, 1))],
}


def sweep_half_spaces(rep, pp, quick):
    import numpy as np

    f = pp.half_space.point_inside_half_space_intersection
    Q = _queries(3, -1, 5) if quick else _queries(3, -3, 7)
    with rep.sweep(
        "point_inside_half_space_intersection",
        rule="4 half-space systems (cube, tetrahedron, oblique wedge with non-unit normals, unbounded pair) x every integer and half-offset "
             "point of [-1,5]^3, planes also in reversed order; points with (p-x0).n = 0 for some plane and <= 0 for all are on the boundary "
             "and excluded; non-trivial = exact answer True; distinct by (system, order, point)",
        bound="4 systems x 2 orders x 559 points ([-1,5]^3; thorough [-3,7]^3: 2331)",
        exhaustive=True,
    ) as sw:
        for name, hs in HALF_SPACES.items():
            for order in ("as listed", "reversed"):
                L = hs if order == "as listed" else hs[::-1]
                vals = {q: [dot(n, sub(q, a)) for n, a in L] for q in Q}
                adm = [q for q in Q if any(v > 0 for v in vals[q]) or all(v < 0 for v in vals[q])]
                sw.skipped += len(Q) - len(adm)
                res = f(_arr([n for n, a in L]), _arr([a for n, a in L]), _arr(adm))
                for k, q in enumerate(adm):
                    exact = all(v < 0 for v in vals[q])
                    sw.case(key=(name, order, q), nontrivial=exact, sample={"system": name, "point": [str(c) for c in q], "exact": exact})
                    if bool(res[k]) != exact:
                        rep.violation("point_inside_half_space_intersection: exact answer off the boundary",
                                      f"{name}, {'interior' if exact else 'exterior'} point",
                                      inputs={"fn": "half_space", "system": name, "order": order, "point": [str(c) for c in q]},
                                      detail=f"{name} ({order}): p={tuple(str(c) for c in q)} exact {exact}, returned {bool(res[k])}")
    g = pp.half_space.half_space_interior_point
    with rep.sweep(
        "half_space_interior_point",
        rule="the three bounded systems x {outward, inward} normals x 9 integer translations x plane order {as listed, reversed}; the bounding "
             "points are the corners of the translated box [0,4]^3; the returned doubles are evaluated exactly: all (q-x0).n < 0 or all > 0; "
             "non-trivial always; distinct by (system, orientation, translation, order)",
        bound="3 x 2 x 9 x 2 = 108 cases",
        exhaustive=True,
    ) as sw:
        shifts = [(0, 0, 0), (10, 0, 0), (-7, 3, 0), (0, -20, 5), (1, 1, 1), (-4, -4, -4), (100, 50, -25), (0, 0, 9), (-1, 2, -3)]
        for name in ("cube", "tetrahedron", "oblique wedge"):
            for inward in (False, True):
                for sh in shifts:
                    for order in ("as listed", "reversed"):
                        hs = HALF_SPACES[name] if order == "as listed" else HALF_SPACES[name][::-1]
                        N = [tuple(-c for c in n) if inward else n for n, a in hs]
                        X0 = [tuple(c + s for c, s in zip(a, sh)) for n, a in hs]
                        corners = [tuple(c + s for c, s in zip(p, sh)) for p in itertools.product((0, 4), repeat=3)]
                        key = (name, inward, sh, order)
                        sw.case(key=key, nontrivial=True, sample={"system": name, "inward_normals": inward, "shift": sh, "order": order})
                        try:
                            q = g(_arr(N), _arr(X0), _arr(corners))
                        except Exception as ex:  # noqa: BLE001
                            rep.violation("half_space_interior_point: does not raise on a bounded non-empty intersection",
                                          f"{name}, {'inward' if inward else 'outward'} normals",
                                          inputs={"fn": "interior_point", "key": key}, detail=f"{type(ex).__name__}: {ex}")
                            continue
                        qf = tuple(Fraction(float(c)) for c in np.asarray(q).ravel())
                        v = [dot(n, sub(qf, a)) for n, a in zip(N, X0)]
                        if not (len(qf) == 3 and (all(x < 0 for x in v) or all(x > 0 for x in v))):
                            rep.violation("half_space_interior_point: returned point is strictly inside every half space",
                                          f"{name}, {'inward' if inward else 'outward'} normals",
                                          inputs={"fn": "interior_point", "key": key},
                                          detail=f"{name} shift {sh} ({order}): q={np.asarray(q).tolist()}, (q-x0).n = {[float(x) for x in v]}")


def sweep_ccw(rep, pp, quick):
    import numpy as np

    gp = pp.geometry_property_checks
    P2 = list(itertools.product(range(-2, 3), repeat=2))
    with rep.sweep(
        "is_ccw_polygon",
        rule="all ordered triples of integer points of [-2,2]^2 with non-zero signed area (triangles), plus the 7 catalogue polygons in both "
             "orientations and all cyclic shifts; expected = (exact signed area > 0); non-trivial always; distinct by the vertex tuple",
        bound="25^3 triples + 7 x 2 x n shifts",
        exhaustive=True,
    ) as sw:
        polys = []
        for t in itertools.product(P2, repeat=3):
            if signed_area2(t) == 0:
                sw.skip()
                continue
            polys.append(list(t))
        for base in POLYGONS_2D.values():
            for pl in (base, base[::-1]):
                for s in range(len(pl)):
                    polys.append(pl[s:] + pl[:s])
        for pl in polys:
            exact = signed_area2(pl) > 0
            got = bool(gp.is_ccw_polygon(_arr(pl)))
            sw.case(key=tuple(pl), nontrivial=True, sample={"polygon": pl, "exact_ccw": exact})
            if got != exact:
                rep.violation("is_ccw_polygon: sign of the exact signed area", f"{len(pl)}-gon, exact ccw={exact}",
                              inputs={"fn": "is_ccw_polygon", "polygon": pl}, detail=f"{pl}: 2*area={signed_area2(pl)}, returned {got}")
    with rep.sweep(
        "is_ccw_polyline",
        rule="all ordered triples (p1,p2,p3) of integer points of [-2,2]^2: single-point call with tol=0 for every triple; for every (p1,p2) "
             "one vectorised call with all 25 third points for tol=0 and tol=0.5 and default in {False,True}; points with |cross| <= tol "
             "(the tolerance band) excluded; non-trivial = exact answer True; distinct by (mode, triple)",
        bound="25^3 triples x (1 + 4) modes",
        exhaustive=True,
    ) as sw:
        for p1 in P2:
            for p2 in P2:
                a1, a2 = np.array(p1, dtype=float), np.array(p2, dtype=float)
                crosses = [x2(sub(p2, p1), sub(p3, p1)) for p3 in P2]
                for tol, default in ((0, False), (0, True), (0.5, False), (0.5, True)):
                    res = gp.is_ccw_polyline(a1, a2, _arr(P2), tol=tol, default=default)
                    for k, p3 in enumerate(P2):
                        if abs(crosses[k]) <= tol:
                            sw.skip()
                            continue
                        exact = crosses[k] > 0
                        sw.case(key=("vec", tol, default, p1, p2, p3), nontrivial=exact)
                        if bool(res[k]) != exact:
                            rep.violation("is_ccw_polyline: sign of the exact cross product", f"vectorised, tol={tol}, default={default}",
                                          inputs={"fn": "is_ccw_polyline", "p": [p1, p2, p3], "tol": tol, "default": default},
                                          detail=f"{p1},{p2},{p3}: cross={crosses[k]}, returned {bool(res[k])}")
                for k, p3 in enumerate(P2):
                    if crosses[k] == 0:
                        sw.skip()
                        continue
                    got = gp.is_ccw_polyline(a1, a2, np.array(p3, dtype=float))
                    exact = crosses[k] > 0
                    sw.case(key=("single", p1, p2, p3), nontrivial=exact, sample={"p1": p1, "p2": p2, "p3": p3, "exact": exact})
                    if np.size(got) != 1 or bool(np.ravel(got)[0]) != exact:
                        rep.violation("is_ccw_polyline: sign of the exact cross product", "single point, tol=0",
                                      inputs={"fn": "is_ccw_polyline", "p": [p1, p2, p3], "tol": 0, "default": False},
                                      detail=f"{p1},{p2},{p3}: cross={crosses[k]}, returned {got}")


def _all_collinear(pts):
    p0 = pts[0]
    others = [p for p in pts if p != p0]
    if not others:
        return True
    d = sub(others[0], p0)
    return all(not any(cross3(sub(p, p0), d)) for p in others)


def _all_planar(pts):
    """rank of (pts - p0) <= 2, exact"""
    p0 = pts[0]
    vs = [sub(p, p0) for p in pts[1:]]
    for a, b, c in itertools.combinations(vs, 3):
        if dot(a, cross3(b, c)) != 0:
            return False
    return True


def sweep_planar_collinear(rep, pp, quick):
    import numpy as np

    gp = pp.geometry_property_checks
    P3 = list(itertools.product((-1, 0, 1), repeat=3))
    with rep.sweep(
        "points_are_planar",
        rule="every 4-subset of {-1,0,1}^3 that is not collinear, in lexicographic order and with its last two points swapped; normal=None "
             "(computed by the function) and normal given exactly (for planar sets the true normal, for non-planar sets the normal of the first "
             "three non-collinear points); exact answer: the 4-point determinant vanishes; for non-planar integer sets the out-of-plane "
             "deviation is >= 1/5 >> tol=1e-5; non-trivial = planar; distinct by (subset, order, normal mode)",
        bound="C(27,4) = 17550 subsets x 2 orders x 2 modes",
        exhaustive=True,
    ) as sw:
        for idx, S in enumerate(itertools.combinations(P3, 4)):
            if _all_collinear(S):
                sw.skipped += 4
                continue
            if quick and idx % 3:
                continue
            exact = _all_planar(S)
            for order in (0, 1):
                pts = list(S) if order == 0 else [S[0], S[1], S[3], S[2]]
                # a normal from three non-collinear points
                nrm = None
                for a, b, c in itertools.combinations(pts, 3):
                    n = cross3(sub(b, a), sub(c, a))
                    if any(n):
                        nrm = n
                        break
                for mode in ("computed", "given"):
                    try:
                        got = gp.points_are_planar(_arr(pts)) if mode == "computed" else gp.points_are_planar(_arr(pts), normal=np.array(nrm, dtype=float))
                    except Exception as ex:  # noqa: BLE001
                        rep.violation("points_are_planar: does not raise on non-collinear points", f"4 points, normal {mode}",
                                      inputs={"fn": "points_are_planar", "points": pts, "mode": mode}, detail=f"{type(ex).__name__}: {ex}")
                        continue
                    sw.case(key=(S, order, mode), nontrivial=exact, sample={"points": pts, "normal": mode, "exact_planar": exact})
                    if bool(got) != exact:
                        rep.violation("points_are_planar: exact answer", f"4 points, exact planar={exact}, normal {mode}",
                                      inputs={"fn": "points_are_planar", "points": pts, "mode": mode}, detail=f"{pts}: exact {exact}, returned {got}")
    with rep.sweep(
        "points_are_collinear",
        rule="every ordered triple of pairwise distinct points of {-1,0,1}^3 (all 27*26*25), and every 4-point list made of an exactly "
             "collinear lattice triple (a, a+d, a+2d inside [-2,2]^3 restricted to {-1,0,1}^3 directions) with one further point of {-1,0,1}^3 "
             "inserted at each of the 4 positions; exact answer by cross products; non-collinear integer sets deviate by >= 0.28 >> tol=1e-5; "
             "non-trivial = collinear, or the point off the line is the last one; distinct by the ordered list",
        bound="17550 ordered triples + 4-point lists",
        exhaustive=True,
    ) as sw:
        lists = [list(t) for t in itertools.permutations(P3, 3)]
        if quick:
            lists = lists[::2]
        trip = []
        for a in P3:
            for d in P3:
                if any(d) and all(-1 <= a[i] + 2 * d[i] <= 1 for i in range(3)):
                    trip.append([a, tuple(x + y for x, y in zip(a, d)), tuple(x + 2 * y for x, y in zip(a, d))])
        for t in trip:
            for e in P3:
                if e in t:
                    continue
                for pos in range(4):
                    lists.append(t[:pos] + [e] + t[pos:])
        for pts in lists:
            exact = _all_collinear(pts)
            got = bool(gp.points_are_collinear(_arr(pts)))
            off_last = (not exact) and _all_collinear(pts[:-1])
            sw.case(key=tuple(pts), nontrivial=(exact or off_last), sample={"points": pts, "exact_collinear": exact})
            if got != exact:
                cls = "the only off-line point is the last one" if off_last else ("collinear" if exact else "an interior point of the list is off the line")
                rep.violation("points_are_collinear: exact answer", f"{len(pts)} points, {cls}",
                              inputs={"fn": "points_are_collinear", "points": pts}, detail=f"{pts}: exact {exact}, returned {got}")
        # point sets of large extent: p0, p0 + d, p0 + L d, p0 + 3 L d (+ e), L = 100, 1000, d a lattice direction, e a unit vector
        # perpendicular to d: with e the last point is off the line by one unit, i.e. by 1 / (3 L |d|) >= 1e-4 of the extent >> tol = 1e-5
        dirs = [d for d in P3 if any(d) and d > tuple(-x for x in d)]
        for d in (dirs[::3] if quick else dirs):
            for L in (100, 1000):
                e = next(v for v in ((1, 0, 0), (0, 1, 0), (0, 0, 1)) if dot(v, d) == 0) if any(x == 0 for x in d) else None
                if e is None:
                    e = (d[1], -d[0], 0)  # perpendicular lattice vector for directions without a zero component
                for p0 in ((0, 0, 0), (7, -3, 2)):
                    base = [p0, tuple(p0[i] + d[i] for i in range(3)), tuple(p0[i] + L * d[i] for i in range(3))]
                    far = tuple(p0[i] + 3 * L * d[i] for i in range(3))
                    for pts, cls in ((base + [far], "collinear, large extent"),
                                     (base + [tuple(far[i] + e[i] for i in range(3))], "last point one unit off a line of large extent")):
                        exact = _all_collinear(pts)
                        got = bool(gp.points_are_collinear(_arr(pts)))
                        sw.case(key=("far", tuple(pts)), nontrivial=True, sample={"points": pts, "exact_collinear": exact})
                        if got != exact:
                            rep.violation("points_are_collinear: exact answer", f"{len(pts)} points, {cls}",
                                          inputs={"fn": "points_are_collinear", "points": pts}, detail=f"{pts}: exact {exact}, returned {got}")


# ============================================================================= ordering sweeps


def check_sorted_pairs(lines, out, ind, circular):
    """lines: list of columns (tuples, first two entries = nodes); returns error string or None"""
    import numpy as np

    out = np.asarray(out)
    ind = np.asarray(ind)
    n = len(lines)
    if out.shape != (len(lines[0]), n) or ind.shape != (n,):
        return f"shapes {out.shape}, {ind.shape}"
    if sorted(int(i) for i in ind) != list(range(n)):
        return f"sort_ind {ind.tolist()} is not a permutation"
    for k in range(n):
        src = lines[int(ind[k])]
        col = tuple(int(v) for v in out[:, k])
        if not (col == tuple(src) or col == (src[1], src[0]) + tuple(src[2:])):
            return f"output column {k} = {col} is not input column {int(ind[k])} = {src} (up to a flip of its two nodes)"
    for k in range(n - 1):
        if out[1, k] != out[0, k + 1]:
            return f"columns {k},{k + 1} do not share a node: {out[:2].tolist()}"
    if circular and out[1, n - 1] != out[0, 0]:
        return f"chain not closed: {out[:2].tolist()}"
    return None


def sweep_sort_point_pairs(rep, pp, quick):
    import numpy as np

    f = pp.sort_points.sort_point_pairs
    labels = [7, 2, 11, 5, 3, 19, 0, 13, 4]
    rng = rep.rng

    def cases():
        for circular in (True, False):
            for n in ((3, 4, 5) if circular else (2, 3, 4, 5)):
                nodes = labels[:n] if circular else labels[:n + 1]
                edges = [(nodes[i], nodes[(i + 1) % len(nodes)]) for i in range(n)]
                for perm in itertools.permutations(range(n)):
                    for flips in itertools.product((0, 1), repeat=n):
                        yield circular, n, [edges[i][::-1] if fl else edges[i] for i, fl in zip(perm, flips)], True
            for n in (6, 7, 8):
                nodes = labels[:n] if circular else labels[:n + 1]
                edges = [(nodes[i], nodes[(i + 1) % len(nodes)]) for i in range(n)]
                for _ in range(60 if quick else 600):
                    perm = list(range(n))
                    rng.shuffle(perm)
                    yield circular, n, [edges[i][::-1] if rng.random() < 0.5 else edges[i] for i in perm], False

    with rep.sweep(
        "sort_point_pairs",
        rule="cycles of 3-5 edges (is_circular=True) and open chains of 2-5 edges (is_circular=False) over non-contiguous node labels: ALL "
             "edge orders x ALL flip patterns; seeded orders for 6-8 edges; every case without an extra row, with a tag row of values disjoint from the node labels, and with a tag row whose values also occur as node labels; non-trivial = the "
             "input is not already sorted; distinct by (circular, tag row, edge list)",
        bound="exhaustive up to 5 edges (3!*8+4!*16+5!*32 cycles, 2!*4+3!*8+4!*16+5!*32 chains), seeded above",
        exhaustive=False,
    ) as sw:
        for circular, n, edges, _exh in cases():
            for tagged in (0, 1, 2):  # 0: no tag row; 1: tag values disjoint from the node labels; 2: tag values that also occur as node labels
                cols = [e + (() if not tagged else ((100 + k,) if tagged == 1 else (k,))) for k, e in enumerate(edges)]
                arr = np.array(cols, dtype=int).T
                already = all(edges[k][1] == edges[k + 1][0] for k in range(n - 1))
                sw.case(key=(circular, tagged, tuple(edges)), nontrivial=not already,
                        sample={"lines": arr.tolist(), "is_circular": circular})
                sig = f"{'cycle' if circular else 'open chain'}" + ("", " with tag row", " with tag row sharing values with the node labels")[tagged]
                try:
                    out, ind = f(arr.copy(), is_circular=circular)
                except Exception as ex:  # noqa: BLE001
                    rep.violation("sort_point_pairs: does not raise on a valid chain", sig,
                                  inputs={"fn": "sort_point_pairs", "lines": arr.tolist(), "is_circular": circular},
                                  detail=f"{type(ex).__name__}: {ex} on lines={arr.tolist()}")
                    continue
                err = check_sorted_pairs(cols, out, ind, circular)
                if err:
                    rep.violation("sort_point_pairs: output is a chain through all input pairs", sig,
                                  inputs={"fn": "sort_point_pairs", "lines": arr.tolist(), "is_circular": circular}, detail=err)


def exact_cyclic_order(pts, c, n):
    """indices of pts in counter-clockwise (w.r.t. n) angular order about c, starting with index 0; None if two points share an angle"""
    u = sub(pts[0], c)
    v = cross3(n, u)

    def ab(i):
        d = sub(pts[i], c)
        return dot(d, u), dot(d, v)  # (|u||d| cos, |n||u||d| sin)

    def half(i):
        a, b = ab(i)
        return 0 if (b > 0 or (b == 0 and a > 0)) else 1

    def cmp(i, j):
        if half(i) != half(j):
            return -1 if half(i) < half(j) else 1
        (a1, b1), (a2, b2) = ab(i), ab(j)
        cr = a1 * b2 - a2 * b1
        return -1 if cr > 0 else (1 if cr < 0 else 0)

    idx = sorted(range(len(pts)), key=functools.cmp_to_key(cmp))
    for i, j in zip(idx, idx[1:]):
        if cmp(i, j) == 0:
            return None
    return idx


PLANE_SETS = {
    # name: (points of a convex polygon in the plane, integer centre inside, normal)
    "z=0": ([(0, 0, 0), (4, 0, 0), (5, 2, 0), (4, 4, 0), (1, 5, 0), (-1, 3, 0), (-1, 1, 0)], (2, 2, 0)),
    "x=2": ([(2, 0, 0), (2, 4, 1), (2, 5, 3), (2, 3, 5), (2, 1, 5), (2, -1, 3), (2, -1, 1)], (2, 2, 2)),
    "y=-1 (normal -e_y)": ([(0, -1, 0), (1, -1, 4), (3, -1, 5), (5, -1, 3), (5, -1, 1), (3, -1, -1), (1, -1, -1)], (2, -1, 2)),
    "x+y+z=6": ([(6, 0, 0), (4, 2, 0), (0, 6, 0), (0, 4, 2), (0, 0, 6), (2, 0, 4), (5, 0, 1)], (2, 2, 2)),
    "z=x": ([(0, 0, 0), (3, -1, 3), (5, 1, 5), (5, 4, 5), (2, 5, 2), (0, 4, 0), (-1, 2, -1)], (2, 2, 2)),
}


def sweep_sort_point_plane(rep, pp, quick):
    import numpy as np

    f = pp.sort_points.sort_point_plane
    rng = rep.rng
    with rep.sweep(
        "sort_point_plane",
        rule="5 planes (coordinate, negative-normal and oblique), 7 integer points in convex position around an integer centre: ALL orders of "
             "the first 5 points, seeded orders of 6 and 7 points, normal omitted and normal given (both signs); the returned permutation, "
             "rotated to start at the same point, must equal the exact counter-clockwise or clockwise order; sets with two points at the same "
             "angle are excluded; non-trivial = input not already in angular order; distinct by (plane, normal mode, order)",
        bound="5 planes x (120 + seeded) orders x 3 normal modes",
        exhaustive=False,
    ) as sw:
        for name, (P, c) in PLANE_SETS.items():
            n = None
            for a, b in itertools.combinations(P, 2):
                n = cross3(sub(a, c), sub(b, c))
                if any(n):
                    break
            assert all(dot(n, sub(p, c)) == 0 for p in P), name
            orders = [list(o) for o in itertools.permutations(range(5))]
            for m in (6, 7):
                for _ in range(40 if quick else 400):
                    o = list(range(m))
                    rng.shuffle(o)
                    orders.append(o)
            for o in orders:
                pts = [P[i] for i in o]
                ex = exact_cyclic_order(pts, c, n)
                if ex is None:
                    sw.skip()
                    continue
                for mode in ("none", "+n", "-n"):
                    if quick and mode == "-n" and len(o) == 5 and sum(o[:2]) % 2:
                        continue
                    kw = {} if mode == "none" else {"normal": np.array(n if mode == "+n" else tuple(-x for x in n), dtype=float)}
                    sw.case(key=(name, mode, tuple(o)), nontrivial=(ex != list(range(len(o)))), sample={"plane": name, "points": pts, "centre": c, "normal": mode})
                    try:
                        got = [int(i) for i in f(_arr(pts), np.array(c, dtype=float), **kw)]
                    except Exception as exn:  # noqa: BLE001
                        rep.violation("sort_point_plane: does not raise on a planar star-shaped set", f"plane {name}, normal {'computed' if mode == 'none' else 'given'}",
                                      inputs={"fn": "sort_point_plane", "points": pts, "centre": c, "normal": mode}, detail=f"{type(exn).__name__}: {exn}")
                        continue
                    ok = sorted(got) == list(range(len(pts)))
                    if ok:
                        k = got.index(0)
                        rot = got[k:] + got[:k]
                        ok = rot == ex or rot == [ex[0]] + ex[:0:-1]
                    if not ok:
                        rep.violation("sort_point_plane: result is the cyclic angular order about the centre", f"plane {name}, normal {'computed' if mode == 'none' else 'given'}",
                                      inputs={"fn": "sort_point_plane", "points": pts, "centre": c, "normal": mode},
                                      detail=f"points {pts} centre {c}: returned {got}, exact ccw order {ex}")


def sweep_sort_points_on_line(rep, pp, quick):
    f = pp.sort_points.sort_points_on_line
    dirs = []
    for d in itertools.product((-1, 0, 1), repeat=3):
        if any(d) and tuple(-x for x in d) not in dirs:
            dirs.append(d)
    dirs += [(1, 2, 3), (0, 0, -1), (-2, 1, 0)]
    with rep.sweep(
        "sort_points_on_line",
        rule="16 lattice directions (the 13 of {-1,0,1}^3 up to sign, (0,0,-1), (1,2,3), (-2,1,0)) x 2 base points x parameter sets {0,1,2,5} "
             "and {-3,-1,0,4,6}: ALL orders of the 4-point sets, 24 seeded orders of the 5-point sets; the returned permutation must be strictly "
             "monotone in the parameter; non-trivial = input not already monotone; distinct by (direction, base, order)",
        bound="16 x 2 x (24 + 24) orders",
        exhaustive=False,
    ) as sw:
        rng = rep.rng
        for d in dirs:
            for base in ((0, 0, 0), (3, -2, 1)):
                orders = [list(o) for o in itertools.permutations((0, 1, 2, 5))]
                for _ in range(24):
                    o = [-3, -1, 0, 4, 6]
                    rng.shuffle(o)
                    orders.append(o)
                for ts in orders:
                    pts = [tuple(b + t * x for b, x in zip(base, d)) for t in ts]
                    mono = all(a < b for a, b in zip(ts, ts[1:])) or all(a > b for a, b in zip(ts, ts[1:]))
                    sw.case(key=(d, base, tuple(ts)), nontrivial=not mono, sample={"points": pts})
                    try:
                        got = [int(i) for i in f(_arr(pts))]
                    except Exception as ex:  # noqa: BLE001
                        rep.violation("sort_points_on_line: does not raise on collinear points", "collinear lattice points" + (", axis-parallel line" if sum(1 for x in d if x) == 1 else ""),
                                      inputs={"fn": "sort_points_on_line", "points": pts}, detail=f"{type(ex).__name__}: {ex} for {pts}")
                        continue
                    seq = [ts[i] for i in got] if sorted(got) == list(range(len(ts))) else None
                    if seq is None or not (all(a < b for a, b in zip(seq, seq[1:])) or all(a > b for a, b in zip(seq, seq[1:]))):
                        rep.violation("sort_points_on_line: result is monotone along the line", "collinear lattice points" + (", axis-parallel line" if sum(1 for x in d if x) == 1 else ""),
                                      inputs={"fn": "sort_points_on_line", "points": pts}, detail=f"points {pts}: returned {got}, parameters {seq}")


def oriented_consistently(tris):
    seen = set()
    for a, b, c in tris:
        for e in ((a, b), (b, c), (c, a)):
            if e in seen:
                return e
            seen.add(e)
    return None


SURFACES = {
    "tetrahedron": [(0, 1, 2), (0, 1, 3), (0, 2, 3), (1, 2, 3)],
    "octahedron": [(0, 2, 4), (2, 1, 4), (1, 3, 4), (3, 0, 4), (0, 2, 5), (2, 1, 5), (1, 3, 5), (3, 0, 5)],
    "cube (12 triangles)": [(0, 1, 2), (0, 2, 3), (4, 5, 6), (4, 6, 7), (0, 1, 5), (0, 5, 4), (1, 2, 6), (1, 6, 5), (2, 3, 7), (2, 7, 6), (3, 0, 4), (3, 4, 7)],
    "planar strip (6 triangles)": [(0, 1, 4), (1, 5, 4), (1, 2, 5), (2, 6, 5), (2, 3, 6), (3, 7, 6)],
    "fan (5 triangles, open)": [(0, 1, 2), (0, 2, 3), (0, 3, 4), (0, 4, 5), (0, 5, 6)],
}


def sweep_sort_triangle_edges(rep, pp, quick):
    import numpy as np

    f = pp.sort_points.sort_triangle_edges
    rng = rep.rng
    perms3 = list(itertools.permutations(range(3)))
    with rep.sweep(
        "sort_triangle_edges",
        rule="edge-connected orientable triangulated surfaces (closed: tetrahedron, octahedron, cube; open: strip, fan) with node labels "
             "mapped to non-contiguous integers: tetrahedron with ALL 6^4 vertex orders; the others with seeded vertex orders and column "
             "permutations; each output column must contain the input column's vertices and no directed edge may occur twice; non-trivial = "
             "the input orientation is inconsistent; distinct by the triangle list",
        bound="1296 tetrahedron orders + seeded",
        exhaustive=False,
    ) as sw:
        relabel = [3, 17, 8, 0, 5, 12, 9, 21]
        for name, tris in SURFACES.items():
            if name == "tetrahedron":
                variants = [[tuple(t[i] for i in perms3[k]) for t, k in zip(tris, ks)] for ks in itertools.product(range(6), repeat=4)]
            else:
                variants = []
                for _ in range(150 if quick else 1500):
                    order = list(range(len(tris)))
                    rng.shuffle(order)
                    variants.append([tuple(tris[j][i] for i in rng.choice(perms3)) for j in order])
            for var in variants:
                var = [tuple(relabel[v] for v in t) for t in var]
                arr = np.array(var, dtype=int).T
                sw.case(key=(name, tuple(var)), nontrivial=(oriented_consistently(var) is not None), sample={"surface": name, "triangles": var})
                try:
                    out = np.asarray(f(arr.copy()))
                except Exception as ex:  # noqa: BLE001
                    rep.violation("sort_triangle_edges: does not raise on an orientable edge-connected triangulation", name,
                                  inputs={"fn": "sort_triangle_edges", "triangles": var}, detail=f"{type(ex).__name__}: {ex} for {var}")
                    continue
                res = [tuple(int(v) for v in out[:, k]) for k in range(out.shape[1])] if out.shape == arr.shape else None
                if res is None or any(sorted(a) != sorted(b) for a, b in zip(res, var)):
                    rep.violation("sort_triangle_edges: every output triangle has the vertices of the input triangle", name,
                                  inputs={"fn": "sort_triangle_edges", "triangles": var}, detail=f"in {var} out {res}")
                    continue
                e = oriented_consistently(res)
                if e is not None:
                    rep.violation("sort_triangle_edges: no directed edge occurs twice", name,
                                  inputs={"fn": "sort_triangle_edges", "triangles": var}, detail=f"in {var} out {res}: directed edge {e} twice")


# ============================================================================= entry


SWEEPS = [sweep_point_in_polygon, sweep_point_in_polyhedron, sweep_half_spaces, sweep_ccw, sweep_planar_collinear,
          sweep_sort_point_pairs, sweep_sort_point_plane, sweep_sort_points_on_line, sweep_sort_triangle_edges]


# ============================================================================= tier P / Ps: deductive part


def _bt(x):
    import z3
    from engine.sym import SymBool

    return x.t if isinstance(x, SymBool) else z3.BoolVal(bool(x))


def case_polyline_vec(gpc, default):
    """is_ccw_polyline with a (2, n) third argument: n, all coordinates and tol symbolic"""
    import numpy as np
    import z3
    from engine.arrays import SymArray, SymRows
    from engine.sym import SymBool, iterm

    def run(ctx):
        n = ctx.int("n")
        ctx.assume(n >= 1)
        p1 = np.array([ctx.real("p1x"), ctx.real("p1y")], dtype=object)
        p2 = np.array([ctx.real("p2x"), ctx.real("p2y")], dtype=object)
        X, Y = SymArray.fresh("p3x", n, "real"), SymArray.fresh("p3y", n, "real")
        tol = ctx.real("tol")
        ctx.assume(tol >= 0)
        r = gpc.is_ccw_polyline(p1, p2, SymRows([X, Y]), tol=tol, default=default)
        k = ctx.int("k")
        ctx.assume((k >= 0) & (k < n))
        cr = (p2[0].t - p1[0].t) * (Y._elem(k.t) - p1[1].t) - (p2[1].t - p1[1].t) * (X._elem(k.t) - p1[0].t)
        ctx.inputs = {"fn": "is_ccw_polyline", "form": "vec", "default": default, "n": n.t, "k": k.t, "tol": tol.t,
                      "p1": [p1[0].t, p1[1].t], "p2": [p2[0].t, p2[1].t], "X": X._elem, "Y": Y._elem}
        ctx.margins = [z3.Or(cr >= tol.t + 1, cr <= -tol.t - 1, z3.And(tol.t >= 2, cr <= tol.t - 1, cr >= 1 - tol.t))]
        rk = r._elem(k.t)
        ctx.prove("one answer per test point", SymBool(iterm(r.n) == n.t))
        ctx.prove("a point to the left of p1->p2 by more than tol gives True", SymBool(z3.Implies(cr > tol.t, rk)))
        ctx.prove("a point to the right of p1->p2 by more than tol gives False", SymBool(z3.Implies(cr < -tol.t, z3.Not(rk))))
        ctx.prove("a point within the tolerance band gives `default`", SymBool(z3.Implies(z3.And(cr <= tol.t, cr >= -tol.t), rk == z3.BoolVal(default))))
        ctx.prove("CANARY: every point is reported left", SymBool(rk), expect_refuted=True)
        return "ok"

    return run


def case_polyline_single(gpc):
    import numpy as np
    import z3
    from engine.sym import SymBool

    def run(ctx):
        p = [np.array([ctx.real(f"p{q}x"), ctx.real(f"p{q}y")], dtype=object) for q in (1, 2, 3)]
        r = gpc.is_ccw_polyline(p[0], p[1], p[2])
        cr = (p[1][0].t - p[0][0].t) * (p[2][1].t - p[0][1].t) - (p[1][1].t - p[0][1].t) * (p[2][0].t - p[0][0].t)
        ctx.inputs = {"fn": "is_ccw_polyline", "form": "single", "p1": [p[0][0].t, p[0][1].t], "p2": [p[1][0].t, p[1][1].t],
                      "p3": [p[2][0].t, p[2][1].t]}
        ctx.margins = [z3.Or(cr >= 1, cr <= -1)]
        ctx.prove("single point: one answer", SymBool(z3.BoolVal(np.size(r) == 1)))
        rk = _bt(np.ravel(r)[0])
        ctx.prove("single point, tol=0: True iff cross > 0 (off the line)", SymBool(z3.Implies(cr != 0, rk == (cr > 0))))
        ctx.prove("single point, tol=0: on the line gives the default False", SymBool(z3.Implies(cr == 0, z3.Not(rk))))
        return "ok"

    return run


def case_polygon(gpc, n):
    import numpy as np
    import z3
    from engine.sym import SymBool

    def run(ctx):
        xs = [ctx.real(f"x{i}") for i in range(n)]
        ys = [ctx.real(f"y{i}") for i in range(n)]
        r = gpc.is_ccw_polygon(np.array([xs, ys], dtype=object))
        a2 = sum(xs[i].t * ys[(i + 1) % n].t - xs[(i + 1) % n].t * ys[i].t for i in range(n))
        ctx.inputs = {"fn": "is_ccw_polygon", "x": [x.t for x in xs], "y": [y.t for y in ys]}
        ctx.margins = [z3.Or(a2 >= 1, a2 <= -1)]
        ctx.prove("ccw iff the shoelace signed area is positive", SymBool(_bt(r) == (a2 > 0)))
        ctx.prove("CANARY: every polygon is ccw", SymBool(_bt(r)), expect_refuted=True)
        return "ok"

    return run


def case_half_space(hs, m, q):
    import numpy as np
    import z3
    from engine.sym import SymBool

    def run(ctx):
        N = np.array([[ctx.real(f"n{d}_{i}") for i in range(m)] for d in range(3)], dtype=object)
        X0 = np.array([[ctx.real(f"x{d}_{i}") for i in range(m)] for d in range(3)], dtype=object)
        P = np.array([[ctx.real(f"p{d}_{j}") for j in range(q)] for d in range(3)], dtype=object)
        r = hs.point_inside_half_space_intersection(N, X0, P)
        T = lambda A: [[A[d, i].t for i in range(A.shape[1])] for d in range(3)]
        ctx.inputs = {"fn": "point_inside_half_space_intersection", "n": T(N), "x0": T(X0), "pts": T(P)}
        S = [[sum((P[d, j].t - X0[d, i].t) * N[d, i].t for d in range(3)) for i in range(m)] for j in range(q)]
        ctx.margins = [z3.Or(v >= 1, v <= -1) for row in S for v in row]
        ctx.prove("one answer per point", SymBool(z3.BoolVal(np.shape(r) == (q,))))
        for j in range(q):
            inside = z3.And(*[sum((P[d, j].t - X0[d, i].t) * N[d, i].t for d in range(3)) <= 0 for i in range(m)])
            ctx.prove(f"point {j}: inside iff (p - x0_i).n_i <= 0 for every half-space i", SymBool(_bt(r[j]) == inside))
        if m >= 2:
            ctx.prove("CANARY: being in the first half-space suffices",
                      SymBool(_bt(r[0]) == (sum((P[d, 0].t - X0[d, 0].t) * N[d, 0].t for d in range(3)) <= 0)), expect_refuted=True)
        return "ok"

    return run


def _concretise(ctx, m):
    """python inputs (Fractions) of the real function from a counter-model of a refuted obligation"""
    from engine import sym

    inp = getattr(ctx, "inputs", None)
    if m is None or inp is None:
        return None
    val = lambda t: sym.model_value(m, t)
    out = {"fn": inp["fn"]}
    try:
        if inp["fn"] == "is_ccw_polyline":
            out["form"] = inp["form"]
            out["p1"], out["p2"] = [val(t) for t in inp["p1"]], [val(t) for t in inp["p2"]]
            if inp["form"] == "single":
                out["p3"] = [[val(inp["p3"][0])], [val(inp["p3"][1])]]
                out["tol"], out["default"], out["k"] = 0, False, 0
            else:
                n, k = int(val(inp["n"])), int(val(inp["k"]))
                if n > 12:  # keep the entry the model talks about, drop the tail
                    n = k + 1
                import z3

                out["p3"] = [[val(inp["X"](z3.IntVal(i))) for i in range(n)], [val(inp["Y"](z3.IntVal(i))) for i in range(n)]]
                out["tol"], out["default"], out["k"] = val(inp["tol"]), inp["default"], k
        elif inp["fn"] == "is_ccw_polygon":
            out["x"], out["y"] = [val(t) for t in inp["x"]], [val(t) for t in inp["y"]]
        else:
            for key in ("n", "x0", "pts"):
                out[key] = [[val(t) for t in row] for row in inp[key]]
    except Exception:  # noqa  (e.g. a value that is not a number in the model)
        return None
    flat = lambda v: [x for y in v for x in flat(y)] if isinstance(v, list) else [v]
    if any(not isinstance(x, (int, Fraction, bool)) for key, v in out.items() if key not in ("fn", "form") for x in flat(v)):
        return None
    return out


def _native(pp, inp):
    """Run the real function on the concretised counter-model (as doubles) and compare with the exact answer for those doubles.
    Returns a description of the disagreement, or None."""
    import numpy as np

    F = lambda v: Fraction(float(v))
    A = lambda rows: np.array([[float(x) for x in row] for row in rows], dtype=float)
    if inp["fn"] == "is_ccw_polyline":
        p1, p2 = [float(x) for x in inp["p1"]], [float(x) for x in inp["p2"]]
        tol, default = float(inp["tol"]), bool(inp["default"])
        p3 = A(inp["p3"])
        arg3 = p3[:, 0] if inp["form"] == "single" else p3
        got = pp.geometry_property_checks.is_ccw_polyline(np.array(p1), np.array(p2), arg3, **({} if inp["form"] == "single" else {"tol": tol, "default": default}))
        got = np.ravel(got)
        if got.size != p3.shape[1]:
            return f"{got.size} answers for {p3.shape[1]} points"
        for k in range(p3.shape[1]):
            cr = (F(p2[0]) - F(p1[0])) * (F(p3[1, k]) - F(p1[1])) - (F(p2[1]) - F(p1[1])) * (F(p3[0, k]) - F(p1[0]))
            exact = True if cr > F(tol) else (False if cr < -F(tol) else default)
            # the exact cross product of doubles next to the band edge may round across it: only clear cases count
            if abs(abs(cr) - F(tol)) <= Fraction(1, 10**9) * max(1, abs(cr)):
                continue
            if bool(got[k]) != exact:
                return f"point {k}: cross={float(cr)}, tol={tol}, default={default}: returned {bool(got[k])}, exact {exact}"
        return None
    if inp["fn"] == "is_ccw_polygon":
        x, y = [float(v) for v in inp["x"]], [float(v) for v in inp["y"]]
        n = len(x)
        a2 = sum(F(x[i]) * F(y[(i + 1) % n]) - F(x[(i + 1) % n]) * F(y[i]) for i in range(n))
        if abs(a2) <= Fraction(1, 10**9) * max(1, max(abs(F(v)) for v in x + y)) ** 2:
            return None
        got = bool(pp.geometry_property_checks.is_ccw_polygon(np.array([x, y])))
        return None if got == (a2 > 0) else f"2*area={float(a2)}, returned {got}"
    n, x0, pts = A(inp["n"]), A(inp["x0"]), A(inp["pts"])
    got = np.ravel(pp.half_space.point_inside_half_space_intersection(n, x0, pts))
    if got.size != pts.shape[1]:
        return f"{got.size} answers for {pts.shape[1]} points"
    for j in range(pts.shape[1]):
        s = [sum((F(pts[d, j]) - F(x0[d, i])) * F(n[d, i]) for d in range(3)) for i in range(n.shape[1])]
        if any(abs(v) <= Fraction(1, 10**9) for v in s):
            continue
        exact = all(v < 0 for v in s)
        if bool(got[j]) != exact:
            return f"point {j}: (p-x0_i).n_i = {[float(v) for v in s]}, returned {bool(got[j])}"
    return None


def prove(rep, pp):
    from engine import shims, sym
    from engine.harness import run_case
    from porepy.geometry import geometry_property_checks as gpc
    from porepy.geometry import half_space as hs

    refuted = []
    with shims.shadow_builtins([gpc, hs]), shims.numpy_shims():
        for default in (False, True):
            rf, _ = run_case(rep, f"is_ccw_polyline[(2, n) points, default={default}]", case_polyline_vec(gpc, default))
            refuted += rf
        rf, _ = run_case(rep, "is_ccw_polyline[single point]", case_polyline_single(gpc))
        refuted += rf
        for n in (3, 4, 5, 6, 8):
            rf, _ = run_case(rep, f"is_ccw_polygon[{n} vertices]", case_polygon(gpc, n), tier="Ps")
            refuted += rf
        for m, q in ((1, 1), (2, 2), (3, 1), (4, 1)) + (((3, 2),) if rep.tier != "quick" else ()):
            rf, _ = run_case(rep, f"point_inside_half_space_intersection[{m} planes, {q} points]", case_half_space(hs, m, q), tier="Ps")
            refuted += rf
    rep.trust(*sorted(shims.USED_MODELS))
    for name, ctx, r in refuted:
        # prefer a counter-model away from the degenerate values (zero cross products ...) that doubles cannot reproduce
        inp = _concretise(ctx, sym.robust_model(r, getattr(ctx, "margins", [])) or r["model"])
        bad = None
        if inp is not None:
            try:
                bad = _native(pp, inp)
            except Exception as e:  # noqa
                bad = f"raises {type(e).__name__}: {e}"
        detail = (f"native run of the counter-model: {bad} | " if bad else "") + f"z3 counter-model: {r['model']}"
        rep.violation(name, "deductive", inputs=({"deductive": _ser(inp)} if bad else None), detail=detail[:1500], confirmed=bool(bad),
                      solver_output=str(r["model"]))


def _ser(v):
    if isinstance(v, dict):
        return {k: _ser(x) for k, x in v.items()}
    if isinstance(v, list):
        return [_ser(x) for x in v]
    return str(v) if isinstance(v, Fraction) else v


def _deser(v, key=None):
    if isinstance(v, dict):
        return {k: _deser(x, k) for k, x in v.items()}
    if isinstance(v, list):
        return [_deser(x, key) for x in v]
    return Fraction(v) if isinstance(v, str) and key not in ("fn", "form") else v


def run(rep):
    import warnings

    import porepy as pp

    prove(rep, pp)
    gp = "pp.geometry_property_checks."
    rep.under_contract(gp + "point_in_polygon", gp + "point_in_polyhedron", "pp.point_in_polyhedron.PointInPolyhedron.winding_number",
                       "pp.half_space.point_inside_half_space_intersection", "pp.half_space.half_space_interior_point",
                       gp + "is_ccw_polygon", gp + "is_ccw_polyline", gp + "points_are_planar", gp + "points_are_collinear",
                       "pp.sort_points.sort_point_pairs", "pp.sort_points.sort_point_plane", "pp.sort_points.sort_points_on_line",
                       "pp.sort_points.sort_triangle_edges")
    rep.trust("exact oracles of props/C31.py: crossing number, signed area, determinants / cross products, solids defined as box unions / half-space "
              "intersections, cyclic angular comparator, directed-edge consistency")
    rep.assume(
        "requires: integer (or half-integer) coordinates; queries exactly on a boundary (or with |cross| <= tol) are excluded; integer data keeps "
        "every other query far outside the functions' tolerance bands (1e-5 ... 1e-10)",
        "orderings: any valid chain / cyclic order / monotone order / consistent orientation is accepted",
        "points_are_collinear / points_are_planar: pairwise distinct points; points_are_planar with normal=None: not all points collinear",
    )
    quick = rep.tier == "quick"
    with warnings.catch_warnings():
        warnings.simplefilter("ignore")
        for s in SWEEPS:
            s(rep, pp, quick)


def replay(data):
    """Re-runs the sweep that owns the failed obligation (the families are small) and reports whether the same
    (obligation, signature) fails again on the real code."""
    import warnings

    import porepy as pp
    from engine.report import Report

    ob = data.get("obligation", "")
    if isinstance(data.get("inputs"), dict) and "deductive" in data["inputs"]:
        bad = _native(pp, _deser(data["inputs"]["deductive"]))
        print("replay of the solver's counter-model on the real function:", bad)
        return bad is not None
    rep = Report("C31", "quick", 0)
    owner = {"point_in_polygon": sweep_point_in_polygon, "point_in_polyhedron": sweep_point_in_polyhedron,
             "PointInPolyhedron.winding_number": sweep_point_in_polyhedron, "point_inside_half_space_intersection": sweep_half_spaces,
             "half_space_interior_point": sweep_half_spaces, "is_ccw_polygon": sweep_ccw, "is_ccw_polyline": sweep_ccw,
             "points_are_planar": sweep_planar_collinear, "points_are_collinear": sweep_planar_collinear,
             "sort_point_pairs": sweep_sort_point_pairs, "sort_point_plane": sweep_sort_point_plane,
             "sort_points_on_line": sweep_sort_points_on_line, "sort_triangle_edges": sweep_sort_triangle_edges}.get(ob.split(":")[0])
    if owner is None:
        return False
    with warnings.catch_warnings():
        warnings.simplefilter("ignore")
        owner(rep, pp, True)
    hit = [v for v in rep.violations if v["obligation"] == ob and v["signature"] == data.get("signature")]
    for v in hit:
        print("replay:", v["obligation"], "|", v["signature"], "|", v["detail"][:300])
    return bool(hit)
