"""C47 -- fracture networks and data files round-trip through csv / txt (tier B stand-in, run-time contract sweep).

Functions under contract (real porepy):
  FractureNetwork2d.to_csv  +  pp.fracture_importer.network_2d_from_csv
  FractureNetwork3d.to_csv  +  pp.fracture_importer.network_3d_from_csv
  porepy.utils.txt_io.export_data_to_txt  +  read_data_from_txt

Contract (from the statement; the oracle is the object that was written -- nothing is computed from the code under test):
  2-d  requires  fracture end points are either identical or at least 100 tol apart, no zero-length fracture (the importer merges
                 points closer than tol and drops degenerate fractures), the reader is told about the header exactly when one
                 was written (skip_header), finite coordinates (csv writes repr(float): every float64 is exactly representable);
       ensures   same number of fractures, same end points (exact float equality) in the same order; fracture ids 0..n-1 when
                 return_frac_id=True; a domain handed to the reader is the domain of the result.
  3-d  requires  planar convex polygons, `has_domain` equal to "a domain was written";
       ensures   same number of fractures, the k-th fracture read is the k-th polygon written (same vertex cycle up to a rotation
                 of the starting vertex / orientation -- PlaneFracture re-sorts vertices on construction -- with exactly equal
                 coordinates), same bounding box when a domain was written.
  txt  requires  distinct whitespace-free header names not starting with '#', 1-d arrays of equal length, every value exactly
                 representable in its TxtData.format (float(fmt % x) == x is checked; the default '%2.2e' is lossy for general
                 values and such values are skipped, not failed);
       ensures   the returned dict has exactly the written names, each value equal to the written array
                 ("values": compared after np.atleast_1d; "shape": the read array has shape (n,)).
Files live in a tempfile.TemporaryDirectory(dir="/var/tmp").

Findings on the unchanged tree (kept strict, see the final report): read_data_from_txt relies on np.loadtxt(unpack=True) and then
zips names with the *first axis* of the result, which is only right for >= 2 columns and >= 2 rows:
  * one array (one column), n >= 2 rows: the dict holds only the first value of the array          -> signature "single column"
  * one row, >= 2 columns: values come back as 0-d scalars instead of arrays of length 1           -> signature "single row"
  * one column and one row: TypeError (iteration over a 0-d array)                                 -> signature "single column, single row"
  * zero rows: the dict is empty (names lost)                                                      -> signature "no rows"
Observation (not a violation): FractureNetwork3d.to_csv() writes no domain line by default while network_3d_from_csv() expects one
by default (has_domain=True); a round trip with both defaults silently consumes the first fracture as the domain.

Detection power (scratch copy, POREPY_SRC, quick tier; exit 1, named obligation, signature not among the known ones above):
  M1 FractureNetwork2d.to_csv: `data.extend(self._pts[:, edge[1]])` -> `edge[0]` -> "csv 2-d: same number of fractures" (the reader drops the
       zero-length fractures this produces).
  M2 network_3d_from_csv: `pts.reshape((3, -1), order="F")` -> order="C" -> "csv 3-d: same polygons in the same order" / returns normally.
  M3 FractureNetwork3d.to_csv: bounding-box order ["xmin","ymin","zmin","xmax","ymax","zmax"] -> xmax/ymax swapped
       -> "csv 3-d: same domain bounding box".
  M4 export_data_to_txt: `fmt += data.format + " "` -> always "%2.2e" -> "txt: values equal" (signature ">= 2 columns, >= 2 rows").
  M5 read_data_from_txt: `skiprows=1` -> `skiprows=2` -> "txt: values equal" (signature ">= 2 columns, >= 2 rows").
"""
from __future__ import annotations

META = {
    "level": "exploration",
    "engine": "sweep",
    "technique": "run-time contract sweep (bounded stand-in for deduction): seeded 2-d / 3-d fracture networks and named arrays written with "
                 "the real writers and read back with the real readers; postcondition read(write(x)) == x",
    "text": "Bounded assurance only: file I/O through csv, np.savetxt/loadtxt and decimal formatting is outside any solver model. Seeded "
            "networks (0-6 line fractures with shared end points, magnitudes 1e-3..1e6; 1-4 planar convex polygons with 3-6 vertices, "
            "with and without domain) and array sets (1-4 columns x 0-5 rows, formats %2.2e, %.17g, %.6f, %d, mixed). Not covered: "
            "polyline csv format, tag columns, elliptic fractures, fab files.",
    "note": "trusted: the objects written are the oracle; tempfile under /var/tmp; requires as listed in the module docstring",
}

import itertools
import tempfile
import warnings
from pathlib import Path

import numpy as np


def _call(f):
    try:
        with warnings.catch_warnings():
            warnings.simplefilter("ignore")
            return True, f()
    except Exception as e:  # noqa
        return False, f"{type(e).__name__}: {str(e)[:300]}"


# ----------------------------------------------------------------------------- 2-d


def _gen_2d(rng, kind):
    """list of (2x2 arrays): end points of line fractures"""
    n = rng.choice((0, 1, 1, 2, 3, 4, 6))
    scale = {"dyadic": 1.0, "decimal": 1.0, "small": 1e-3, "large": 1e6, "far": 1.0}[kind]

    def coord():
        if kind == "far":
            # a network far from the origin relative to its size (UTM-like coordinates): end points of different fractures 1/2 .. 8 apart at 1e5
            return 100000.0 + rng.randint(0, 16) / 2.0
        if kind == "dyadic":
            return rng.randint(-16, 16) / 8.0
        if kind == "decimal":
            return rng.choice((0.1, 0.2, 0.3, 1 / 3, 2 / 3, 0.7, 1.1, -0.9, 2.5, -1.7, 0.05))
        return rng.randint(-50, 50) / 7.0 * scale

    pool = []
    fr = []
    for _ in range(n):
        pts = []
        for _e in range(2):
            if pool and rng.random() < 0.3:
                pts.append(rng.choice(pool))  # shared end point (exactly equal coordinates)
            else:
                pts.append((coord(), coord()))
        if kind == "far" and max(abs(pts[0][0] - pts[1][0]), abs(pts[0][1] - pts[1][1])) < 4:
            # LineFracture itself rejects end points closer than 1e-5 * |coordinate| as 'not distinct': keep each fracture clearly longer
            pts[1] = (pts[0][0] + 4.0, pts[0][1] + 6.5)
        pool += pts
        fr.append(np.array([[pts[0][0], pts[1][0]], [pts[0][1], pts[1][1]]], dtype=float))
    return fr


def _requires_2d(fr, tol):
    P = [tuple(f[:, k]) for f in fr for k in range(2)]
    for f in fr:
        if np.array_equal(f[:, 0], f[:, 1]):
            return False
    for a, b in itertools.combinations(P, 2):
        d = ((a[0] - b[0]) ** 2 + (a[1] - b[1]) ** 2) ** 0.5
        if a != b and d < 100 * tol:
            return False
    return True


def check_2d(pp, tmp, fr, with_header, domain_box, return_id):
    """fr: list of 2x2 arrays.  Returns (violations, n) or None if requires fails"""
    tol = 1e-8
    if not _requires_2d(fr, tol):
        return None
    fracs = [pp.LineFracture(f.copy()) for f in fr]
    dom = pp.Domain(domain_box) if domain_box else None
    net = pp.create_fracture_network(fracs, dom, tol=tol) if (fracs or dom) else None
    if net is None:
        return None
    written = [np.array(f.pts, dtype=float) for f in net.fractures]
    fn = Path(tmp) / "n2.csv"
    ok, r = _call(lambda: net.to_csv(fn, with_header=with_header))
    if not ok:
        return [("csv 2-d: to_csv returns normally", r)]
    kw = {"skip_header": 1 if with_header else 0}

    def read():
        return pp.fracture_importer.network_2d_from_csv(fn, tol=tol, return_frac_id=return_id, domain=dom, **kw)

    ok, r = _call(read)
    if not ok:
        return [("csv 2-d: network_2d_from_csv returns normally", r)]
    ids = None
    if return_id:
        r, ids = r
    bad = []
    got = [np.array(f.pts, dtype=float) for f in r.fractures]
    if len(got) != len(written):
        return [("csv 2-d: same number of fractures", f"wrote {len(written)}, read {len(got)}")]
    for k, (a, b) in enumerate(zip(written, got)):
        if a.shape != b.shape or not np.array_equal(a, b):
            bad.append(("csv 2-d: same end points in the same order", f"fracture {k}: wrote {a.tolist()}, read {b.tolist()}"))
            break
    if return_id and np.asarray(ids).tolist() != list(range(len(written))):
        bad.append(("csv 2-d: fracture ids are 0..n-1", f"got {np.asarray(ids).tolist()}"))
    if dom is not None:
        bb = r.domain.bounding_box if r.domain is not None else None
        if bb is None or any(float(bb[k]) != float(domain_box[k]) for k in domain_box):
            bad.append(("csv 2-d: a domain handed to the reader is the domain of the network", f"{bb}"))
    return bad


# ----------------------------------------------------------------------------- 3-d

POLYGONS = [
    [(0, 0), (2, 0), (0, 2)],
    [(0, 0), (4, 0), (4, 2), (0, 2)],
    [(0, 0), (3, 0), (2, 2), (1, 2)],
    [(0, 0), (2, -1), (4, 0), (3, 3), (1, 3)],
    [(1, 0), (3, 0), (4, 2), (3, 4), (1, 4), (0, 2)],
]
FRAMES = [
    ((1, 0, 0), (0, 1, 0)),
    ((1, 0, 0), (0, 0, 1)),
    ((0, 1, 0), (0, 0, 1)),
    ((1, 0, 0.5), (0, 1, 0.25)),
    ((1, 1, 0), (0, 0.5, 1)),
    ((0.5, -1, 0), (0.5, 0.5, 1)),
]


def _gen_3d(rng):
    n = rng.choice((1, 1, 2, 3, 4))
    out = []
    for _ in range(n):
        poly = rng.choice(POLYGONS)
        u, v = rng.choice(FRAMES)
        o = [rng.randint(-8, 8) / 4.0 for _ in range(3)]
        s = rng.choice((0.25, 0.5, 1.0, 2.0))
        pts = np.array([[o[k] + s * (a * u[k] + b * v[k]) for k in range(3)] for a, b in poly], dtype=float).T
        if rng.random() < 0.5:
            pts = pts[:, ::-1].copy()  # clockwise order
        out.append(pts)
    return out


def _same_polygon(a, b):
    """same vertex cycle: equal up to a cyclic rotation (and orientation) of the vertex list, coordinates exactly equal.
    PlaneFracture re-sorts its vertices on construction, which may rotate the starting vertex; that is the same fracture."""
    if a.shape != b.shape:
        return False
    n = a.shape[1]
    for c in (b, b[:, ::-1]):
        for k in range(n):
            if np.array_equal(a, np.roll(c, k, axis=1)):
                return True
    return False


def check_3d(pp, tmp, polys, domain_box, modify=False):
    """modify: the geometry of the first fracture is changed after the network was built (its polygon is shrunk towards its centroid);
    what is written must be the CURRENT geometry of the network"""
    fracs = []
    for p in polys:
        ok, f = _call(lambda: pp.PlaneFracture(p.copy()))
        if not ok:
            return None  # generator produced something PlaneFracture rejects: outside the requires
        fracs.append(f)
    dom = pp.Domain(domain_box) if domain_box else None
    ok, net = _call(lambda: pp.create_fracture_network(fracs, dom) if dom is not None else pp.create_fracture_network(fracs))
    if not ok:
        return None
    if modify:
        f0 = net.fractures[0]
        cen = np.mean(f0.pts, axis=1, keepdims=True)
        f0.pts = cen + 0.5 * (f0.pts - cen)
    written = [np.array(f.pts, dtype=float) for f in net.fractures]
    fn = Path(tmp) / "n3.csv"
    ok, r = _call(lambda: net.to_csv(fn, dom) if dom is not None else net.to_csv(fn))
    if not ok:
        return [("csv 3-d: to_csv returns normally", r)]
    ok, r = _call(lambda: pp.fracture_importer.network_3d_from_csv(fn, has_domain=dom is not None))
    if not ok:
        return [("csv 3-d: network_3d_from_csv returns normally", r)]
    got = [np.array(f.pts, dtype=float) for f in r.fractures]
    if len(got) != len(written):
        return [("csv 3-d: same number of fractures", f"wrote {len(written)}, read {len(got)}")]
    bad = []
    for k, (a, b) in enumerate(zip(written, got)):
        if not _same_polygon(a, b):
            bad.append(("csv 3-d: same polygons in the same order", f"fracture {k}: wrote {a.tolist()}, read {b.tolist()}"))
            break
    if dom is not None:
        bb = r.domain.bounding_box if r.domain is not None else None
        if bb is None or any(float(bb[k]) != float(domain_box[k]) for k in domain_box):
            bad.append(("csv 3-d: same domain bounding box", f"wrote {domain_box}, read {bb}"))
    return bad


# ----------------------------------------------------------------------------- txt

FORMATS = ["%2.2e", "%.17g", "%.6f", "%d", "%.3e"]
NAMES = ["p", "T", "var_1", "x2", "flux", "a.b", "s[0]", "Q-w"]


def _representable(fmt, x):
    try:
        return float(fmt % x) == x
    except Exception:  # noqa
        return False


def _gen_value(rng, fmt):
    raw = rng.choice((rng.uniform(-10, 10), rng.uniform(-1e6, 1e6), rng.uniform(-1e-4, 1e-4), float(rng.randint(-1000, 1000)), 0.0))
    if fmt == "%d":
        return float(int(raw))
    try:
        return float(fmt % raw)
    except Exception:  # noqa
        return 0.0


def check_txt(tmp, columns):
    """columns: list of (name, values list, fmt).  Returns list of (obligation, detail), or None if requires fails."""
    from porepy.utils.txt_io import TxtData, export_data_to_txt, read_data_from_txt

    names = [c[0] for c in columns]
    if len(set(names)) != len(names) or any((not n) or n.startswith("#") or len(n.split()) != 1 for n in names):
        return None
    if len({len(c[1]) for c in columns}) != 1:
        return None
    for _, vals, fmt in columns:
        if not all(np.isfinite(x) and _representable(fmt, x) for x in vals):
            return None
    fn = Path(tmp) / "d.txt"
    data = [TxtData(n, np.array(v, dtype=float), f) for n, v, f in columns]
    ok, r = _call(lambda: export_data_to_txt(data, fn))
    if not ok:
        return [("txt: export_data_to_txt returns normally", r)]
    ok, r = _call(lambda: read_data_from_txt(fn))
    if not ok:
        return [("txt: read_data_from_txt returns normally", r)]
    bad = []
    if not isinstance(r, dict) or list(r.keys()) != names:
        return [("txt: the dictionary has exactly the written names", f"wrote {names}, read {list(r.keys()) if isinstance(r, dict) else type(r)}")]
    for n, v, _f in columns:
        got = np.asarray(r[n])
        exp = np.array(v, dtype=float)
        if got.size != exp.size or not np.array_equal(np.atleast_1d(got).ravel(), exp):
            bad.append(("txt: values equal", f"{n}: wrote {exp.tolist()}, read {got.tolist()}"))
            break
    if not bad:
        for n, v, _f in columns:
            if np.asarray(r[n]).shape != (len(v),):
                bad.append(("txt: arrays keep shape (n,)", f"{n}: wrote shape ({len(v)},), read shape {np.asarray(r[n]).shape}"))
                break
    return bad


def _txt_sig(ncol, nrow):
    if nrow == 0:
        return "no rows"
    c = "single column" if ncol == 1 else ">= 2 columns"
    r = "single row" if nrow == 1 else ">= 2 rows"
    if ncol == 1 and nrow == 1:
        return "single column, single row"
    if ncol == 1:
        return "single column"
    if nrow == 1:
        return "single row"
    return f"{c}, {r}"


# ----------------------------------------------------------------------------- entry


def run(rep):
    import porepy as pp

    quick = rep.tier == "quick"
    rng = rep.rng
    rep.under_contract("FractureNetwork2d.to_csv", "pp.fracture_importer.network_2d_from_csv", "FractureNetwork3d.to_csv",
                       "pp.fracture_importer.network_3d_from_csv", "porepy.utils.txt_io.export_data_to_txt", "porepy.utils.txt_io.read_data_from_txt")
    rep.assume("2-d: end points identical or >= 100 tol apart, no zero-length fracture, reader told about the header iff one was written",
               "3-d: planar convex polygons accepted by PlaneFracture; has_domain passed iff a domain was written",
               "txt: distinct whitespace-free names, equal lengths, every value exactly representable in its format (checked per value)")
    rep.trust("Python csv module, np.savetxt / np.loadtxt / np.genfromtxt as used by the code under test", "the written objects as oracle")
    rep.explanation = "B only: read(write(x)) == x evaluated natively on seeded networks and array sets; files under /var/tmp."

    with tempfile.TemporaryDirectory(dir="/var/tmp", prefix="verif_c47_") as tmp:
        with rep.sweep(
            "2-d networks through csv",
            rule="seeded networks of 0-6 line fractures; coordinate families dyadic k/8, decimal (0.1, 1/3, ...), small (1e-3) and large "
                 "(1e6) magnitudes, and far (1e5 + k/8: a network far from the origin relative to its size); 30 % of the end points re-use an earlier end point exactly; x {header, no header} x {domain given to the "
                 "reader, none} x {return_frac_id}; inputs violating the requires are skipped; nontrivial = at least 2 fractures; distinct by "
                 "(end points, options)",
            bound="%d seeded networks x 8 option combinations (subset)" % (150 if quick else 3000),
            exhaustive=False,
        ) as sw:
            for it in range(150 if quick else 3000):
                kind = ("dyadic", "decimal", "small", "large", "far")[it % 5]
                fr = _gen_2d(rng, kind)
                for with_header, use_dom, rid in ((True, False, False), (False, True, True)) if it % 3 else ((True, True, False), (False, False, True), (True, False, True)):
                    box = None
                    if use_dom:
                        allp = np.hstack(fr) if fr else np.zeros((2, 1))
                        box = {"xmin": float(allp[0].min() - 1), "xmax": float(allp[0].max() + 1), "ymin": float(allp[1].min() - 1), "ymax": float(allp[1].max() + 1)}
                    bad = check_2d(pp, tmp, fr, with_header, box, rid)
                    if bad is None:
                        sw.skip()
                        continue
                    inp = {"fractures": [f.tolist() for f in fr], "with_header": with_header, "domain": box, "return_frac_id": rid}
                    sw.case(("2d", tuple(f.tobytes() for f in fr), with_header, use_dom, rid), nontrivial=len(fr) >= 2, sample=inp)
                    shared = len({tuple(f[:, k]) for f in fr for k in range(2)}) < 2 * len(fr)
                    sig = ("no fractures" if not fr else ("single fracture" if len(fr) == 1 else ("shared end points" if shared else "disjoint fractures"))) + f", {kind} coordinates"
                    for ob, det in bad:
                        rep.violation(ob, sig, inputs=inp, detail=det, confirmed=True)

        with rep.sweep(
            "3-d networks through csv",
            rule="seeded networks of 1-4 planar convex polygons (triangle, rectangle, trapezoid, pentagon, hexagon; dyadic coordinates, "
                 "6 plane orientations, both vertex orientations) x {domain written and read, none}; nontrivial = at least 2 fractures or "
                 "a domain; distinct by (vertex arrays, domain)",
            bound="%d seeded networks x 2" % (60 if quick else 1000),
            exhaustive=False,
        ) as sw:
            for it in range(60 if quick else 1000):
                polys = _gen_3d(rng)
                for use_dom in (False, True):
                    box = None
                    if use_dom:
                        allp = np.hstack(polys)
                        box = {"xmin": float(allp[0].min() - 1), "xmax": float(allp[0].max() + 2), "ymin": float(allp[1].min() - 3), "ymax": float(allp[1].max() + 4),
                               "zmin": float(allp[2].min() - 5), "zmax": float(allp[2].max() + 6)}
                    modify = it % 3 == 2
                    bad = check_3d(pp, tmp, polys, box, modify=modify)
                    if bad is None:
                        sw.skip()
                        continue
                    inp = {"polygons": [p.tolist() for p in polys], "domain": box, "modify": modify}
                    sw.case(("3d", tuple(p.tobytes() for p in polys), use_dom, modify), nontrivial=len(polys) >= 2 or use_dom, sample=inp)
                    sig = ("single fracture" if len(polys) == 1 else "several fractures") + (", with domain" if use_dom else ", no domain") + (", geometry changed after construction" if modify else "")
                    for ob, det in bad:
                        rep.violation(ob, sig, inputs=inp, detail=det, confirmed=True)

        with rep.sweep(
            "named arrays through txt",
            rule="every (columns, rows) in {1..4} x {0..5} x format assignment {all default %%2.2e, all %%.17g, all %%.6f, all %%d, mixed} x %d "
                 "seeded value sets; values are generated inside the format (x = float(fmt %% raw)) and re-checked (requires); names drawn "
                 "without repetition from a fixed pool; nontrivial = at least one row; distinct by (names, values, formats)" % (2 if quick else 25),
            bound="<= 4 columns, <= 5 rows",
            exhaustive=False,
        ) as sw:
            for ncol in (1, 2, 3, 4):
                for nrow in range(0, 6):
                    for fkind in ("default", "%.17g", "%.6f", "%d", "mixed"):
                        for rep_i in range(2 if quick else 25):
                            names = rng.sample(NAMES, ncol)
                            cols = []
                            for c in range(ncol):
                                fmt = {"default": "%2.2e", "mixed": FORMATS[(c + rep_i) % len(FORMATS)]}.get(fkind, fkind)
                                vals = [_gen_value(rng, fmt) for _ in range(nrow)]
                                if fkind == "%.17g":
                                    vals = [rng.uniform(-3, 3) * 10 ** rng.randint(-8, 8) for _ in range(nrow)]
                                cols.append((names[c], vals, fmt))
                            bad = check_txt(tmp, cols)
                            if bad is None:
                                sw.skip()
                                continue
                            inp = {"columns": [{"name": n, "values": v, "format": f} for n, v, f in cols]}
                            sw.case(("txt", tuple(names), tuple(tuple(c[1]) for c in cols), tuple(c[2] for c in cols)), nontrivial=nrow >= 1, sample=inp)
                            for ob, det in bad:
                                rep.violation(ob, _txt_sig(ncol, nrow), inputs=inp, detail=det, confirmed=True)


def replay(data):
    import porepy as pp

    inp = data.get("inputs") or {}
    with tempfile.TemporaryDirectory(dir="/var/tmp", prefix="verif_c47_") as tmp:
        if "columns" in inp:
            bad = check_txt(tmp, [(c["name"], c["values"], c["format"]) for c in inp["columns"]])
        elif "polygons" in inp:
            bad = check_3d(pp, tmp, [np.array(p, dtype=float) for p in inp["polygons"]], inp["domain"], modify=bool(inp.get("modify")))
        elif "fractures" in inp:
            bad = check_2d(pp, tmp, [np.array(f, dtype=float) for f in inp["fractures"]], inp["with_header"], inp["domain"], inp["return_frac_id"])
        else:
            return False
    print("replay:", bad)
    return bool(bad)
