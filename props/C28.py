"""C28 -- segment intersection (segments_2d / segments_3d) agrees with exact arithmetic.

Tier B (bounded run-time contract sweep, exhaustive small scope).

Contract (from the property statement, not from the code):
  requires  both segments have integer end points in the stated box and non-zero length.  For such inputs every
            quantity the functions compare with a tolerance (determinants, cross products, parameters) is either
            exactly 0 or at least 1/72 away from the compared bound, i.e. all inputs are outside every tolerance
            band (box half-width <= 3, tol = 1e-8).
  ensures   (kind)   the reported kind -- None / one column / two columns -- is none / point / segment exactly as
                     the textbook definition evaluated in rational arithmetic says;
            (points) the returned columns, as a set, equal the exact intersection point(s) (1e-9 relative);
            (order)  the result (kind and point set) is the same for the 8 variants obtained by swapping the two
                     segments and reversing either of them.

Oracle: `exact_intersection` below -- cross products / orientation, collinearity, clamped parameter interval,
Cramer's rule with `fractions.Fraction`; valid in 2-D and 3-D (3-D adds the coplanarity test).

Enumeration: all ordered quadruples of lattice points (a0, a1, b0, b1) of the box, processed orbit-wise (the orbit of
a quadruple under swap / reversal has <= 8 elements, each of which is a member of the same box, so every ordered
quadruple is evaluated exactly once and the argument-order clause is checked inside each orbit).
  quick    : 2-D box [-2,2]^2 (5^8 = 390 625 quadruples, 360 000 after removing zero-length segments),
             3-D box [-1,1]^3 (27^4 = 531 441 quadruples, 492 804 valid), both exhaustive.
  thorough : 2-D box [-3,3]^2 exhaustive (7^8 = 5 764 801); 3-D [-1,1]^3 exhaustive plus 125 000 seeded orbits
             (= 10^6 evaluations) from [-3,3]^3.
The work is spread over VERIF_PROCS (default 16) forked worker processes.

Detection power (scratch copy of /repo/src under /var/tmp, POREPY_SRC=<copy>, one bug at a time, quick tier; every
mutant gave exit 1 with a VIOLATION whose (obligation, signature) is not among the unchanged-tree ones below):
  M1  segments_2d: `if t_start_2 < 0 and t_end_2 < 0` -> `<=` (collinear segments touching at start_1 lost)
        -> "segments_2d: result kind equals the exact kind" / "2d collinear-touching reported as none"
  M2  segments_2d: t_2 numerator with swapped sign (`d_1[1]*d_s[0] - d_1[0]*d_s[1]`)
        -> "segments_2d: does not raise on admissible input" (the function's own safeguarding assert fires) for
           crossing / T-junction / shared-endpoint / nonparallel-disjoint
  M3  segments_2d: parallel branch dropped (`if False and np.abs(discr) < ...`)
        -> "segments_2d: does not raise on admissible input" for all four parallel classes
  M4  segments_3d: `target = sort_ind[1:3]` -> `sort_ind[0:2]` (wrong pair of end points for an overlap)
        -> "segments_3d: returned points equal the exact intersection points" / "3d collinear-overlap wrong points"
  M5  segments_3d: `if t_1 < 0 or ...` -> `t_1 <= 0` (end-point touching lost)
        -> "segments_3d: result kind equals the exact kind" / "3d shared-endpoint reported as none" and the
           argument-order obligation
  M6  segments_2d: `p_2 = start_1 + d_1 * t_max` -> `p_2 = end_1` (overlap always runs to end_1)
        -> "segments_2d: returned points equal ..." / "2d collinear-overlap wrong points" and the argument-order obligation

Unchanged tree (2-D: every one of the 5 764 801 quadruples of [-3,3]^2 satisfies the contract).  segments_3d violates
"segments_3d: result kind equals the exact kind" with four signatures (reported to the lead, check kept strict):
  * "3d shared-endpoint/coord-proj-parallel reported as none", "3d T-junction/coord-proj-parallel reported as none",
    "3d crossing/coord-proj-parallel reported as none": the 2x2 system is set up in a coordinate plane chosen by "some
    segment has extent in both coordinates"; when the two directions are parallel *in that projection* but not in 3-D
    (a component of d1 x d2 vanishes) the function takes its parallel branch and returns None although the segments
    meet:  segments_3d([0,0,0],[0,0,1],[0,0,0],[1,1,1]) is None   (exact: the point (0,0,0)).
  * "3d collinear-touching reported as segment": collinear segments sharing exactly one end point are returned as a
    (3,2) array with two identical columns instead of the documented single column:
    segments_3d([0,0,0],[1,0,0],[1,0,0],[2,0,0]) -> [[1,1],[0,0],[0,0]].
"""
from __future__ import annotations

import itertools
import os
from fractions import Fraction

META = {
    "level": "exploration",
    "engine": "sweep",
    "technique": "run-time contract sweep (bounded stand-in for deduction): exhaustive enumeration of integer segment "
                 "pairs of a box, real segments_2d/segments_3d compared with an exact rational oracle",
    "text": "Tier B only: the contract (kind, points, argument-order independence) is evaluated on the real functions for "
            "EVERY integer segment pair of the stated box (2-D [-2,2] quick / [-3,3] thorough; 3-D [-1,1], plus a seeded "
            "sample of [-3,3] in thorough). Nothing is proved for coordinates outside the box or for non-integer input; the "
            "deductive attempt for segments_2d sketched in DESIGN (degree-4 NRA per path) is not part of this check.",
    "note": "oracle = textbook definition in fractions.Fraction (orientation, collinearity, parameter intervals, Cramer); "
            "floating results compared at 1e-9 relative; integer inputs keep every tested quantity outside the code's "
            "tolerance bands",
}

RTOL = 1e-9

# ----------------------------------------------------------------------------- exact oracle


def _sub(p, q):
    return tuple(a - b for a, b in zip(p, q))


def _dot(u, v):
    return sum(a * b for a, b in zip(u, v))


def _cross(u, v):
    """2-D: the scalar cross product as a 1-tuple; 3-D: the vector."""
    if len(u) == 2:
        return (u[0] * v[1] - u[1] * v[0],)
    return (u[1] * v[2] - u[2] * v[1], u[2] * v[0] - u[0] * v[2], u[0] * v[1] - u[1] * v[0])


def _cdot(x, n):
    """dot product of two 'cross' results of equal length"""
    return sum(a * b for a, b in zip(x, n))


def exact_intersection(a0, a1, b0, b1):
    """Intersection of the closed segments [a0,a1] and [b0,b1] (non-degenerate, 2-D or 3-D, exact numbers).

    Returns (kind, points, cls): kind in {'none','point','segment'}, points a tuple of 0/1/2 points (tuples of
    Fraction), cls a short name of the configuration class (used for violation signatures and as the
    non-triviality criterion)."""
    d1, d2, w = _sub(a1, a0), _sub(b1, b0), _sub(b0, a0)
    n = _cross(d1, d2)
    if not any(n):  # parallel directions
        if any(_cross(w, d1)):
            return "none", (), "parallel-disjoint"
        L = _dot(d1, d1)
        ts, te = Fraction(_dot(w, d1), L), Fraction(_dot(_sub(b1, a0), d1), L)
        lo, hi = max(Fraction(0), min(ts, te)), min(Fraction(1), max(ts, te))
        if lo > hi:
            return "none", (), "collinear-disjoint"
        P = tuple(a + lo * d for a, d in zip(a0, d1))
        if lo == hi:
            return "point", (P,), "collinear-touching"
        Q = tuple(a + hi * d for a, d in zip(a0, d1))
        return "segment", (P, Q), "collinear-overlap"
    # 3-D only: is the pair degenerate in a coordinate-plane projection (a component of d1 x d2 vanishes although
    # d1 x d2 != 0)?  A geometric property of the input, used to keep failure classes apart in signatures.
    tag = "/coord-proj-parallel" if (len(a0) == 3 and not all(n)) else ""
    if len(a0) == 3 and _cdot(w, n) != 0:
        return "none", (), "skew" + tag
    nn = _cdot(n, n)
    t1 = Fraction(_cdot(_cross(w, d2), n), nn)
    t2 = Fraction(_cdot(_cross(w, d1), n), nn)
    if 0 <= t1 <= 1 and 0 <= t2 <= 1:
        P = tuple(a + t1 * d for a, d in zip(a0, d1))
        interior = (0 < t1 < 1) and (0 < t2 < 1)
        ends = (t1 in (0, 1)) + (t2 in (0, 1))
        return "point", (P,), ("crossing" if interior else ("shared-endpoint" if ends == 2 else "T-junction")) + tag
    return "none", (), "nonparallel-disjoint" + tag


# ----------------------------------------------------------------------------- contract evaluation


def _observed(res):
    """-> (kind, list of points) from the real function's return value"""
    if res is None:
        return "none", []
    import numpy as np

    res = np.asarray(res, dtype=float)
    if res.ndim != 2 or res.shape[1] not in (1, 2):
        return f"shape{res.shape}", []
    return ("point" if res.shape[1] == 1 else "segment"), [tuple(float(x) for x in res[:, k]) for k in range(res.shape[1])]


def _close_pt(p, q, scale):
    return all(abs(a - float(b)) <= RTOL * scale for a, b in zip(p, q))


def _same_sets(obs, exact):
    scale = max([1.0] + [abs(float(c)) for q in exact for c in q] + [abs(c) for p in obs for c in p])
    return all(any(_close_pt(p, q, scale) for q in exact) for p in obs) and all(
        any(_close_pt(p, q, scale) for p in obs) for q in exact
    )


def _variants(a0, a1, b0, b1):
    return {
        (a0, a1, b0, b1), (a1, a0, b0, b1), (a0, a1, b1, b0), (a1, a0, b1, b0),
        (b0, b1, a0, a1), (b1, b0, a0, a1), (b0, b1, a1, a0), (b1, b0, a1, a0),
    }


def check_orbit(fn, fname, rep_q):
    """Evaluate the contract on every member of the swap/reversal orbit of the quadruple rep_q.
    Returns (list of (quadruple, cls), list of failures (obligation, signature, quadruple, detail))."""
    import numpy as np

    cases, fails = [], []
    seen = []
    for q in sorted(_variants(*rep_q)):
        kind, pts, cls = exact_intersection(*q)
        cases.append((q, cls))
        try:
            res = fn(*(np.array(p, dtype=float) for p in q))
        except Exception as e:  # noqa: BLE001  (any exception on an admissible input violates the contract)
            fails.append((f"{fname}: does not raise on admissible input", f"{len(q[0])}d {cls} raises {type(e).__name__}", q,
                          f"{type(e).__name__}: {e}"))
            continue
        okind, opts = _observed(res)
        seen.append((q, okind, opts))
        if okind != kind:
            fails.append((f"{fname}: result kind equals the exact kind", f"{len(q[0])}d {cls} reported as {okind}", q,
                          f"exact: {kind} {[tuple(str(c) for c in p) for p in pts]}; returned: {okind} {opts}"))
        # the returned points are compared as a set even when the column count is off, so that a result with a
        # duplicated column is reported once (kind) and not twice
        if opts and pts and not _same_sets(opts, pts):
            fails.append((f"{fname}: returned points equal the exact intersection points", f"{len(q[0])}d {cls} wrong points", q,
                          f"exact: {[tuple(str(c) for c in p) for p in pts]}; returned: {opts}"))
    if seen:
        q0, k0, p0 = seen[0]
        for q, k, p in seen[1:]:
            if k != k0 or not _same_sets(p, [tuple(Fraction(c) for c in x) for x in p0]):
                fails.append((f"{fname}: result independent of argument order and segment orientation",
                              f"{len(q[0])}d {cases[0][1]} order-dependent", [q0, q],
                              f"{q0} -> {k0} {p0}  but  {q} -> {k} {p}"))
                break
    return cases, fails


# ----------------------------------------------------------------------------- enumeration (worker side)

_FN = {}


def _get_fn(dim):
    if dim not in _FN:
        import porepy as pp

        _FN[dim] = (pp.intersections.segments_2d, "segments_2d") if dim == 2 else (pp.intersections.segments_3d, "segments_3d")
    return _FN[dim]


def _encode(q, lo, width):
    k = 0
    for p in q:
        for c in p:
            k = k * width + (c - lo)
    return k


def _work_box(args):
    """All orbits whose canonical (smallest) member starts with lattice point index in `firsts`."""
    dim, lo, hi, firsts = args
    fn, fname = _get_fn(dim)
    width = hi - lo + 1
    pts = list(itertools.product(range(lo, hi + 1), repeat=dim))
    n_eval, skipped, keys_nt, fails, samples = 0, 0, [], [], []
    for i0 in firsts:
        a0 = pts[i0]
        for a1 in pts:
            if a1 == a0:
                skipped += len(pts) * len(pts)  # requires: non-zero length
                continue
            for b0 in pts:
                for b1 in pts:
                    if b0 == b1:
                        skipped += 1
                        continue
                    q = (a0, a1, b0, b1)
                    if q != min(_variants(*q)):
                        continue  # evaluated with its orbit representative
                    cases, fl = check_orbit(fn, fname, q)
                    n_eval += len(cases)
                    for qq, cls in cases:
                        if not cls.startswith("nonparallel-disjoint"):
                            keys_nt.append(_encode(qq, lo, width))
                    if len(samples) < 2 and not cases[0][1].startswith(("nonparallel-disjoint", "parallel-disjoint")):
                        samples.append({"segment_1": [q[0], q[1]], "segment_2": [q[2], q[3]], "exact": cases[0][1]})
                    fails.extend(fl[:4])
    # a degenerate first segment is skipped for every (b0,b1); a canonical-member filter does not apply to skipped
    # inputs, so count them per ordered quadruple whose first point is in `firsts`
    return n_eval, skipped, keys_nt, fails[:200], samples


def _work_list(args):
    dim, lo, hi, quads = args
    fn, fname = _get_fn(dim)
    width = hi - lo + 1
    n_eval, keys_nt, fails = 0, [], []
    for q in quads:
        cases, fl = check_orbit(fn, fname, q)
        n_eval += len(cases)
        for qq, cls in cases:
            if not cls.startswith("nonparallel-disjoint"):
                keys_nt.append(_encode(qq, lo, width))
        fails.extend(fl[:4])
    return n_eval, 0, keys_nt, fails[:200], []


def _nprocs():
    try:
        n = int(os.environ.get("VERIF_PROCS", "16"))
    except ValueError:
        n = 16
    return max(1, min(n, os.cpu_count() or 1))


def _run_jobs(worker, jobs):
    import multiprocessing as mp

    n = _nprocs()
    if n == 1:
        for j in jobs:
            yield worker(j)
        return
    ctx = mp.get_context("fork")  # porepy is already imported (from POREPY_SRC) in the parent
    with ctx.Pool(n) as pool:
        for r in pool.imap_unordered(worker, jobs, chunksize=1):
            yield r


def _record(rep, sw, results, dim):
    for n_eval, skipped, keys_nt, fails, samples in results:
        sw.evaluations += n_eval
        sw.skipped += skipped
        sw.nontrivial_keys.update(keys_nt)
        for s in samples:
            if len(sw.samples) < 3:
                sw.samples.append(s)
        for ob, sig, q, detail in fails:
            rep.violation(ob, sig, inputs={"dim": dim, "quadruple": q}, detail=detail, confirmed=True)


def _box_sweep(rep, dim, lo, hi):
    npts = (hi - lo + 1) ** dim
    fname = "segments_2d" if dim == 2 else "segments_3d"
    with rep.sweep(
        f"{fname} box [{lo},{hi}]^{dim}",
        rule=f"every ordered quadruple (a0,a1,b0,b1) of integer points of [{lo},{hi}]^{dim} with a0!=a1, b0!=b1, evaluated "
             "orbit-wise under swap/reversal (each ordered quadruple exactly once); a case is non-trivial when the exact "
             "configuration is not the generic 'non-parallel, no common point' one (parallel, collinear, touching, crossing, "
             "overlapping, skew); distinct by the ordered quadruple",
        bound=f"coordinates in [{lo},{hi}], {npts}^4 = {npts ** 4} quadruples before the requires",
        exhaustive=True,
    ) as sw:
        jobs = [(dim, lo, hi, [i]) for i in range(npts)]
        _record(rep, sw, _run_jobs(_work_box, jobs), dim)
        if sw.evaluations + sw.skipped != npts ** 4:
            from engine.report import CheckerError

            raise CheckerError(f"{fname}: enumeration incomplete: {sw.evaluations} + {sw.skipped} != {npts ** 4}")


def _sample_sweep(rep, dim, lo, hi, n_orbits):
    rng = rep.rng
    quads = []
    while len(quads) < n_orbits:
        q = tuple(tuple(rng.randint(lo, hi) for _ in range(dim)) for _ in range(4))
        if q[0] == q[1] or q[2] == q[3]:
            continue
        # bias half of the sample towards degenerate placements: make b parallel to a / share a point / coplanar
        r = rng.random()
        if r < 0.25:
            d = _sub(q[1], q[0])
            k = rng.choice([-2, -1, 1, 2])
            b1 = tuple(c + k * e for c, e in zip(q[2], d))
            if all(lo <= c <= hi for c in b1):
                q = (q[0], q[1], q[2], b1)
        elif r < 0.5:
            q = (q[0], q[1], rng.choice([q[0], q[1]]), q[3])
            if q[2] == q[3]:
                continue
        quads.append(q)
    fname = "segments_3d" if dim == 3 else "segments_2d"
    with rep.sweep(
        f"{fname} seeded sample [{lo},{hi}]^{dim}",
        rule="seeded (VERIF_SEED) integer quadruples, a quarter forced parallel, a quarter forced to share an end point; each "
             "evaluated with its whole swap/reversal orbit; non-trivial/distinct as in the box sweep",
        bound=f"{n_orbits} orbits (<= {8 * n_orbits} evaluations), coordinates in [{lo},{hi}]",
        exhaustive=False,
    ) as sw:
        chunk = 2000
        jobs = [(dim, lo, hi, quads[i:i + chunk]) for i in range(0, len(quads), chunk)]
        _record(rep, sw, _run_jobs(_work_list, jobs), dim)


def run(rep):
    import porepy as pp  # noqa: F401  (imported before forking so that workers use the same POREPY_SRC)

    rep.under_contract("pp.intersections.segments_2d", "pp.intersections.segments_3d")
    rep.trust("exact_intersection (props/C28.py): rational-arithmetic textbook segment intersection, 2-D and 3-D")
    rep.assume(
        "requires: integer end points inside the stated box, both segments of non-zero length; with |coordinate| <= 3 and "
        "tol = 1e-8 every determinant / parameter the code compares with a tolerance is exactly on the bound or >= 1/72 away",
        "returned floating-point points are compared with the exact ones at 1e-9 relative to the coordinate magnitude",
    )
    quick = rep.tier == "quick"
    _box_sweep(rep, 2, -2, 2) if quick else _box_sweep(rep, 2, -3, 3)
    _box_sweep(rep, 3, -1, 1)
    if not quick:
        _sample_sweep(rep, 3, -3, 3, 125000)


def replay(data):
    import porepy as pp

    inp = data.get("inputs") or {}
    q = inp.get("quadruple")
    if not q:
        return False
    if isinstance(q[0][0], list):  # order-dependence failure: two quadruples
        q = q[0]
    q = tuple(tuple(int(c) for c in p) for p in q)
    fn, fname = (pp.intersections.segments_2d, "segments_2d") if len(q[0]) == 2 else (pp.intersections.segments_3d, "segments_3d")
    cases, fails = check_orbit(fn, fname, q)
    for f in fails:
        print("replay:", f[0], "|", f[1], "|", f[3])
    return any(f[0] == data.get("obligation") for f in fails) or bool(fails)
