"""C36 — array slicers act exactly like their projection matrices.

Pmat(S)[r, c] = 1  iff  there is k with range[k] = r and domain[k] = c   (requires: range indices pairwise distinct)

Tier P : the real ArraySlicer methods run on index arrays of symbolic length with symbolic entries and symbolic
         sizes.  Obligations at a Skolem row: S @ x = Pmat(S) x for vectors, scalars and AdArrays (Jacobian through
         the stubbed _slice_matrix contract), the onto case, transposition (fields swapped, S.T.T observationally
         equal to S including the transposed flag), chains of 2 and 3 slicers in both groupings against sequential
         application, every pending right-operand operation (y o S) @ x = y o (S @ x), copy(), and the frame:
         no overload modifies an operand (fields and pending operations snapshot).
Tier B : exhaustive small scope against the explicit dense projection matrix: all slicers with <= 3 index pairs over
         sizes <= 4, operands vector / 2-D array / csr / csc / AdArray / scalar, transposes, chains up to 3, pending
         operations; this also checks the _slice_matrix contract the P tier stubs.
"""
from __future__ import annotations

META = {
    "level": "other",
    "engine": "pse",
    "technique": "contract-based deductive verification: postconditions S@x = Pmat(S)x, transposition, chaining, pending operations and frame conditions discharged by z3 on the real ArraySlicer methods run on symbolic index arrays (scatter semantics axiomatised); exhaustive small-scope comparison with explicit projection matrices as bounded stand-in",
    "text": "Tier P: for all index-array lengths, index values and sizes, the vector / scalar / AdArray paths of __matmul__, transpose, copy, "
            "__rmatmul__/__rmul__/__rtruediv__/__rpow__/__radd__/__rsub__, and chains of 2-3 slicers equal the projection-matrix semantics, "
            "and no operand is modified. Tier B: all small slicers x operand kinds (incl. the CSR path _slice_matrix and 2-D arrays) against "
            "dense projection matrices. Mixed tiers -> level 'other'.",
    "note": "requires range indices pairwise distinct and in range (and domain indices distinct where a transpose is applied); numpy scatter/gather, "
            "np.zeros/np.full/np.arange/np.argsort models; ArraySlicer._slice_matrix is a modular stub in tier P (its contract is checked in tier B)",
}

import itertools
import warnings

import numpy as np
import scipy.sparse as sps
import z3

from engine import shims, sym
from engine.arrays import SymArray, SymMat, scatter_functions
from engine.harness import bt, run_case
from engine.sym import SymBool, SymInt, SymReal, rterm


def _mk(ctx, pp, tag, ds, rs):
    q = ctx.int(tag + "q")
    ctx.assume(q >= 1)
    D = SymArray.fresh(tag + "D", q, "int")
    R = SymArray.fresh(tag + "R", q, "int")
    S = pp.matrix_operations.ArraySlicer(domain_indices=D, range_indices=R, range_size=rs, domain_size=ds)
    return S, D, R, q


def _snap(S):
    return (S._domain_indices, S._domain_indices._elem, S._range_indices, S._range_indices._elem, S._domain_size, S._range_size,
            S._is_onto, S._is_transposed, tuple((id(o), op) for o, op in S._pending_operations))


def _unchanged(S, snap):
    now = _snap(S)
    return all((a is b) if not isinstance(a, (bool, tuple, int)) else (a == b) for a, b in zip(now, snap))


def _stub_slice_matrix(self, A):
    """contract of ArraySlicer._slice_matrix: returns Pmat(self) @ A"""
    shims._used("stub ArraySlicer._slice_matrix(A): contract 'returns Pmat(S) @ A' (checked exhaustively on small cases in tier B)")
    if self._is_onto:
        return A[self._domain_indices]
    H, I = scatter_functions(self._range_indices)
    D, e = self._domain_indices._elem, A._entry
    return SymMat(self._range_size, A.nc, lambda r, c: z3.If(H(r), e(D(I(r)), c), z3.RealVal(0)), "csr")


def _row_spec(ctx, R, D, q, r, k, got, src, label):
    """the two clauses of (Pmat x)[r] for injective range indices"""
    ctx.prove(f"{label}: row r hit by index pair k gets the entry at domain[k]",
              SymBool(z3.Implies(z3.And(k.t >= 0, k.t < q.t, R.elem(k) == r.t), got == src(D.elem(k)))))
    kk = z3.Int("__kq")
    nohit = z3.ForAll([kk], z3.Implies(z3.And(kk >= 0, kk < q.t), R._elem(kk) != r.t), patterns=[R._elem(kk)])
    ctx.prove(f"{label}: a row hit by no index pair is zero", SymBool(z3.Implies(nohit, got == 0)))


def case_vector(pp, kind):
    def run(ctx):
        ds, rs = ctx.int("ds"), ctx.int("rs")
        ctx.assume(ds >= 1)
        ctx.assume(rs >= 1)
        S, D, R, q = _mk(ctx, pp, "S", ds, rs)
        r, k = ctx.int("r"), ctx.int("k")
        ctx.assume((r >= 0) & (r < rs))
        snap = _snap(S)
        if kind == "vector":
            x = SymArray.fresh("x", ds, "real")
            xe = x._elem
            res = S @ x
            ctx.prove("vector: result length is range_size", SymBool(sym.iterm(res.n) == rs.t))
            _row_spec(ctx, R, D, q, r, k, res.elem(r), lambda i: x.elem(i), "vector")
            ctx.prove("vector: operand unchanged", x._elem is xe)
            ctx.prove("CANARY vector: row r gets x[range[k]]", SymBool(z3.Implies(z3.And(k.t >= 0, k.t < q.t, R.elem(k) == r.t), res.elem(r) == x.elem(R.elem(k)))), expect_refuted=True)
        elif kind == "scalar":
            c = ctx.real("c")
            res = S @ c
            ctx.prove("scalar: result length is range_size", SymBool(sym.iterm(res.n) == rs.t))
            _row_spec(ctx, R, D, q, r, k, res.elem(r), lambda i: c.t, "scalar (c * ones)")
        else:
            m = ctx.int("m")
            ctx.assume(m >= 1)
            j = ctx.int("j")
            ctx.assume((j >= 0) & (j < m))
            X = SymArray.fresh("X", ds, "real")
            XJ = SymMat.fresh("XJ", ds, m)
            a = pp.ad.AdArray(X, XJ)
            with shims.patched(pp.matrix_operations.ArraySlicer, "_slice_matrix", _stub_slice_matrix):
                res = S @ a
            ctx.prove("AdArray: result is an AdArray of length range_size", isinstance(res, pp.ad.AdArray) and bool(z3.is_true(z3.simplify(sym.iterm(res.val.n) == rs.t))))
            _row_spec(ctx, R, D, q, r, k, res.val.elem(r), lambda i: X.elem(i), "AdArray value")
            _row_spec(ctx, R, D, q, r, k, res.jac.entry(r, j), lambda i: XJ.entry(i, j), "AdArray Jacobian")
            ctx.prove("AdArray: operand unchanged", a.val._elem is not None and a.jac is not None)
        ctx.prove("frame: slicer unchanged by application", _unchanged(S, snap))
        return "ok"

    return run


def case_onto(pp):
    def run(ctx):
        ds, q = ctx.int("ds"), ctx.int("q")
        ctx.assume(ds >= 1)
        ctx.assume(q >= 1)
        D = SymArray.fresh("D", q, "int")
        S = pp.matrix_operations.ArraySlicer(domain_indices=D, domain_size=ds)
        k = ctx.int("k")
        ctx.assume((k >= 0) & (k < q))
        x = SymArray.fresh("x", ds, "real")
        res = S @ x
        ctx.prove("onto: result length is the number of domain indices", SymBool(sym.iterm(res.n) == q.t))
        ctx.prove("onto: entry k is x[domain[k]]", SymBool(res.elem(k) == x.elem(D.elem(k))))
        ctx.prove("onto: range indices are 0..q-1", SymBool(S.range_indices.elem(k) == k.t))
        return "ok"

    return run


def case_transpose(pp):
    def run(ctx):
        ds, rs = ctx.int("ds"), ctx.int("rs")
        ctx.assume(ds >= 1)
        ctx.assume(rs >= 1)
        S, D, R, q = _mk(ctx, pp, "S", ds, rs)
        k = ctx.int("k")
        ctx.assume((k >= 0) & (k < q))
        snap = _snap(S)
        T = S.T
        ctx.prove("S.T: domain indices are S's range indices", SymBool(T.domain_indices.elem(k) == R.elem(k)))
        ctx.prove("S.T: range indices are S's domain indices", SymBool(T.range_indices.elem(k) == D.elem(k)))
        ctx.prove("S.T: sizes are swapped", SymBool(z3.And(sym.iterm(T.domain_size) == rs.t, sym.iterm(T.range_size) == ds.t)))
        ctx.prove("S.T: flagged as transposed", T._is_transposed is True)
        ctx.prove("S.T: transposing does not modify S", _unchanged(S, snap))
        ctx.prove("S.T shares no index array object with S", T._domain_indices is not S._range_indices and T._range_indices is not S._domain_indices)
        TT = T.T
        ctx.prove("S.T.T: index arrays, sizes as S", SymBool(z3.And(TT.domain_indices.elem(k) == D.elem(k), TT.range_indices.elem(k) == R.elem(k),
                                                                      sym.iterm(TT.domain_size) == ds.t, sym.iterm(TT.range_size) == rs.t)))
        ctx.prove("S.T.T: not flagged as transposed (observationally equal to S)", TT._is_transposed is False)
        # (Pmat^T y)[c] = y[range[k]] where domain[k] = c
        y = SymArray.fresh("y", rs, "real")
        c = ctx.int("c")
        ctx.assume((c >= 0) & (c < ds))
        res = T @ y
        _row_spec(ctx, D, R, q, c, k, res.elem(c), lambda i: y.elem(i), "S.T @ y")
        x = SymArray.fresh("x", ds, "real")
        r = ctx.int("r")
        ctx.assume((r >= 0) & (r < rs))
        ctx.prove("S.T.T @ x equals S @ x", SymBool((TT @ x).elem(r) == (S @ x).elem(r)))
        return "ok"

    return run


def case_copy(pp):
    def run(ctx):
        ds, rs = ctx.int("ds"), ctx.int("rs")
        S, D, R, q = _mk(ctx, pp, "S", ds, rs)
        y = ctx.real("y")
        S1 = y * S
        C = S1.copy()
        k = ctx.int("k")
        ctx.assume((k >= 0) & (k < q))
        ctx.prove("copy: same index arrays, sizes, flags", SymBool(z3.And(C.domain_indices.elem(k) == D.elem(k), C.range_indices.elem(k) == R.elem(k)))
                  & (C._is_transposed == S1._is_transposed) & (C._is_onto == S1._is_onto))
        ctx.prove("copy: same pending operations, independent list", (C._pending_operations == S1._pending_operations) and (C._pending_operations is not S1._pending_operations))
        C2 = 2.0 + C
        ctx.prove("copy: registering an operation on the copy does not affect the original", len(S1._pending_operations) == 1 and len(C._pending_operations) == 1 and len(C2._pending_operations) == 2)
        return "ok"

    return run


def case_chain(pp, length, grouping):
    def run(ctx):
        sizes = [ctx.int(f"n{i}") for i in range(length + 1)]  # S_i maps size n_{i+1} -> n_i
        for s in sizes:
            ctx.assume(s >= 1)
        Ss, raw = [], []
        for i in range(length):
            S, D, R, q = _mk(ctx, pp, f"S{i}", sizes[i + 1], sizes[i])
            Ss.append(S)
            raw.append((D, R, q))
        snaps = [_snap(S) for S in Ss]
        x = SymArray.fresh("x", sizes[-1], "real")
        if length == 2:
            C = Ss[0] @ Ss[1]
        elif grouping == "left":
            C = (Ss[0] @ Ss[1]) @ Ss[2]
        else:
            C = Ss[0] @ (Ss[1] @ Ss[2])
        res = C @ x
        # sequential application with pristine slicers built from the same index arrays
        AS = pp.matrix_operations.ArraySlicer
        y = x
        for i in range(length - 1, -1, -1):
            D, R, q = raw[i]
            y = AS(domain_indices=D, range_indices=R, range_size=sizes[i], domain_size=sizes[i + 1]) @ y
        r = ctx.int("r")
        ctx.assume((r >= 0) & (r < sizes[0]))
        ctx.prove("chain applied to x equals sequential application Pmat(S0)...Pmat(Sn) x", SymBool(res.elem(r) == y.elem(r)))
        ctx.prove("chain: result length is the range size of the first slicer", SymBool(sym.iterm(res.n) == sizes[0].t))
        for i, (S, sn) in enumerate(zip(Ss, snaps)):
            ctx.prove(f"frame: chaining leaves operand S{i} unchanged (fields and pending operations)", _unchanged(S, sn))
        # after chaining, each operand alone still acts as its own projection matrix
        i = length - 1
        D, R, q = raw[i]
        alone = Ss[i] @ x
        fresh = AS(domain_indices=D, range_indices=R, range_size=sizes[i], domain_size=sizes[i + 1]) @ x
        rr = ctx.int("rr")
        ctx.assume((rr >= 0) & (rr < sizes[i]))
        ctx.prove("frame: after S0 @ S1, S1 @ x still equals Pmat(S1) x", SymBool(alone.elem(rr) == fresh.elem(rr)))
        if length == 2:
            ctx.prove("CANARY chain: equals S1 @ x", SymBool(res.elem(r) == fresh.elem(r)), expect_refuted=True)
        return "ok"

    return run


PENDING = {"*": lambda a, b: a * b, "/": lambda a, b: a / b, "**": lambda a, b: a ** b, "+": lambda a, b: a + b, "-": lambda a, b: a - b}


def case_pending(pp, op, ykind):
    def run(ctx):
        ds, rs = ctx.int("ds"), ctx.int("rs")
        ctx.assume(ds >= 1)
        ctx.assume(rs >= 1)
        S, D, R, q = _mk(ctx, pp, "S", ds, rs)
        snap = _snap(S)
        x = SymArray.fresh("x", ds, "real")
        r = ctx.int("r")
        ctx.assume((r >= 0) & (r < rs))
        plain = pp.matrix_operations.ArraySlicer(domain_indices=D, range_indices=R, range_size=rs, domain_size=ds) @ x
        if ykind == "float":
            y = ctx.real("y")
            ye = lambda i: y
        else:
            y = SymArray.fresh("y", rs, "real")
            ye = lambda i: SymReal(y.elem(i))
        if op == "**":
            ctx.assume(ye(r) > 0)
        if op == "/":
            ctx.assume(SymReal(plain.elem(r)) != 0)
        P = PENDING[op](y, S)
        ctx.prove("pending: y o S is a new slicer", isinstance(P, pp.matrix_operations.ArraySlicer) and P is not S)
        res = P @ x
        want = PENDING[op](ye(r), SymReal(plain.elem(r)))
        ctx.prove(f"pending: (y {op} S) @ x equals y {op} (S @ x)", SymBool(rterm(res.at(r)) == rterm(want)))
        ctx.prove("frame: registering a pending operation leaves S unchanged", _unchanged(S, snap))
        # two pending operations are applied in order: z + (y o (S x))
        z = ctx.real("z")
        res2 = (z + P) @ x
        ctx.prove(f"pending: (z + (y {op} S)) @ x equals z + (y {op} (S @ x))", SymBool(rterm(res2.at(r)) == rterm(z + want)))
        return "ok"

    return run


def case_pending_matmul(pp):
    def run(ctx):
        ds, rs, kk = ctx.int("ds"), ctx.int("rs"), ctx.int("kk")
        for v in (ds, rs, kk):
            ctx.assume(v >= 1)
        S, D, R, q = _mk(ctx, pp, "S", ds, rs)
        A = SymMat.fresh("A", kk, rs)
        x = SymArray.fresh("x", ds, "real")
        i = ctx.int("i")
        ctx.assume((i >= 0) & (i < kk))
        P = A @ S
        ctx.prove("pending @: A @ S is a new slicer", isinstance(P, pp.matrix_operations.ArraySlicer) and P is not S)
        res = P @ x
        plain = pp.matrix_operations.ArraySlicer(domain_indices=D, range_indices=R, range_size=rs, domain_size=ds) @ x
        ctx.prove("pending @: (A @ S) @ x equals A @ (S @ x)", SymBool(res.elem(i) == (A @ plain).elem(i)))
        return "ok"

    return run


# ----------------------------------------------------------------------------- tier B


def _pmat(S):
    M = np.zeros((S.range_size, S.domain_size))
    M[S.range_indices, S.domain_indices] = 1
    return M


def _all_slicers(pp, max_pairs, max_size):
    AS = pp.matrix_operations.ArraySlicer
    for ds in range(1, max_size + 1):
        for rs in range(1, max_size + 1):
            for q in range(1, min(max_pairs, rs) + 1):
                for rng_ in itertools.permutations(range(rs), q):
                    for dom in itertools.product(range(ds), repeat=q):
                        yield (dom, rng_, ds, rs)


def _sweep(rep, pp):
    AS = pp.matrix_operations.ArraySlicer
    quick = rep.tier == "quick"
    rng = rep.rng
    mk = lambda d: AS(domain_indices=np.array(d[0]), range_indices=np.array(d[1]), range_size=d[3], domain_size=d[2])

    def check(name, sig, thunk, exp, inputs, equal_nan=False):
        """evaluate the real code in `thunk`; any exception, wrong type/shape or value is a violation of clause `name`"""
        try:
            with warnings.catch_warnings():
                warnings.simplefilter("ignore")
                got = thunk()
            got = got.toarray() if sps.issparse(got) else np.asarray(got)
            exp = np.asarray(exp, dtype=float)
            if got.dtype == object or got.shape != exp.shape or not np.allclose(got.astype(float), exp, rtol=1e-13, atol=1e-14, equal_nan=equal_nan):
                rep.violation(name, sig, inputs=inputs, detail=f"got {str(got.tolist())[:300]} expected {str(exp.tolist())[:300]}")
        except Exception as e:  # noqa
            rep.violation(name, f"{sig} raises {type(e).__name__}", inputs=inputs, detail=str(e)[:300])

    with rep.sweep("slicers vs explicit projection matrices",
                   rule="all (domain indices, injective range indices, domain size, range size) with <= P index pairs and sizes <= N; each applied to a "
                        "vector, a 2-D array, csr and csc matrices (incl. empty rows), an AdArray and a scalar, and transposed (when the domain indices "
                        "are distinct); chains of 2 and 3 compatible slicers in both groupings; pending operations; nontrivial = not the identity; "
                        "distinct by slicer description and operand kind", bound="P=2, N=3 quick; P=3, N=4 thorough; chains/pending on a seeded subset",
                   exhaustive=True) as sw:
        descs = list(_all_slicers(pp, 2 if quick else 3, 3 if quick else 4))
        for d in descs:
            try:
                S = mk(d)
            except Exception as e:  # noqa
                rep.violation("ArraySlicer can be constructed from admissible index sets", f"constructor raises {type(e).__name__}", inputs={"slicer": d}, detail=str(e)[:200])
                continue
            P = np.zeros((d[3], d[2]))
            P[list(d[1]), list(d[0])] = 1
            ds, rs = d[2], d[3]
            x = np.array([rng.uniform(1, 2) for _ in range(ds)])
            X2 = np.array([[rng.uniform(1, 2) for _ in range(2)] for _ in range(ds)])
            A = np.array([[rng.choice([0.0, 0.0, 1.5, -2.0]) for _ in range(3)] for _ in range(ds)])
            inp = {"slicer": d}
            sw.case(repr(d), nontrivial=not (ds == rs and np.array_equal(P, np.eye(ds))), sample={"domain": d[0], "range": d[1], "sizes": [ds, rs]})
            check("S @ vector == Pmat(S) @ vector", "vector", lambda: S @ x, P @ x, inp)
            check("S @ 2-D array == Pmat(S) @ array", "2-D array", lambda: S @ X2, P @ X2, inp)
            for fmt in ("csr", "csc"):
                check(f"S @ sparse == Pmat(S) @ matrix", f"sparse {fmt}", lambda: S @ getattr(sps, fmt + "_matrix")(A), P @ A, inp)
            check("S @ scalar == Pmat(S) @ (scalar * ones)", "scalar", lambda: S @ 2.5, P @ np.full(ds, 2.5), inp)
            check("S @ AdArray value", "AdArray", lambda: (S @ pp.ad.AdArray(x.copy(), sps.csr_matrix(A))).val, P @ x, inp)
            check("S @ AdArray Jacobian", "AdArray", lambda: (S @ pp.ad.AdArray(x.copy(), sps.csr_matrix(A))).jac, P @ A, inp)
            if len(set(d[0])) == len(d[0]):
                y = np.array([rng.uniform(1, 2) for _ in range(rs)])
                check("S.T @ y == Pmat(S)^T @ y", "transpose", lambda: S.T @ y, P.T @ y, inp)
                check("S.T.T @ x == Pmat(S) @ x", "transpose", lambda: S.T.T @ x, P @ x, inp)
                check("S.T.T is observationally equal to S including the transposed flag", "transposed flag",
                      lambda: np.array([float(S.T._is_transposed), float(S.T.T._is_transposed)]), np.array([1.0, 0.0]), inp)
            check("frame: S @ x repeated gives the same result", "repeat", lambda: S @ x, P @ x, inp)
            # the other documented constructor forms: sizes left out (inferred as max index + 1), only one index set given (the other one
            # is 0..q-1); the projection matrix follows from the effective index sets and sizes
            dom, ran = np.array(d[0]), np.array(d[1])
            q = dom.size
            forms = [("sizes inferred", dict(domain_indices=dom, range_indices=ran), dom, ran, int(dom.max()) + 1, int(ran.max()) + 1),
                     ("range size inferred", dict(domain_indices=dom, range_indices=ran, domain_size=ds), dom, ran, ds, int(ran.max()) + 1),
                     ("only domain indices", dict(domain_indices=dom, domain_size=ds), dom, np.arange(q), ds, q),
                     ("only range indices", dict(range_indices=ran, range_size=rs), np.arange(q), ran, q, rs)]
            for fname, kw, de, re_, dse, rse in forms:
                Pe = np.zeros((rse, dse))
                Pe[re_, de] = 1
                xe = np.array([rng.uniform(1, 2) for _ in range(dse)])
                Ae = np.array([[rng.choice([0.0, 0.0, 1.5, -2.0]) for _ in range(3)] for _ in range(dse)])
                inpe = {"slicer": d, "form": fname}
                try:
                    Se = AS(**kw)
                except Exception as e:  # noqa
                    rep.violation("ArraySlicer can be constructed from admissible index sets", f"constructor ({fname}) raises {type(e).__name__}", inputs=inpe, detail=str(e)[:200])
                    continue
                sw.case((repr(d), fname), nontrivial=True)
                check("S @ vector == Pmat(S) @ vector", f"vector, constructor form: {fname}", lambda: Se @ xe, Pe @ xe, inpe)
                check("S @ sparse == Pmat(S) @ matrix", f"sparse csr, constructor form: {fname}", lambda: Se @ sps.csr_matrix(Ae), Pe @ Ae, inpe)
                check("S @ AdArray Jacobian", f"AdArray, constructor form: {fname}", lambda: (Se @ pp.ad.AdArray(xe.copy(), sps.csr_matrix(Ae))).jac, Pe @ Ae, inpe)
        # chains and pending operations
        nchain = 300 if quick else 3000
        pm = lambda d: _pm(d)
        for _ in range(nchain):
            d0 = rng.choice(descs)
            c1 = [d for d in descs if d[3] == d0[2]]
            if not c1:
                continue
            d1 = rng.choice(c1)
            c2 = [d for d in descs if d[3] == d1[2]]
            P0, P1 = pm(d0), pm(d1)
            x = np.array([rng.uniform(1, 2) for _ in range(d1[2])])
            inp = {"S0": d0, "S1": d1}
            sw.case(("chain", d0, d1), True)
            try:
                S0, S1 = mk(d0), mk(d1)
                C = S0 @ S1
            except Exception as e:  # noqa
                rep.violation("(S0 @ S1) @ x == Pmat(S0) Pmat(S1) x", f"chain2 raises {type(e).__name__}", inputs=inp, detail=str(e)[:200])
                continue
            check("(S0 @ S1) @ x == Pmat(S0) Pmat(S1) x", "chain2", lambda: C @ x, P0 @ P1 @ x, inp)
            check("frame: after S0 @ S1, S1 @ x == Pmat(S1) x", "right operand modified", lambda: S1 @ x, P1 @ x, inp)
            check("frame: after S0 @ S1, S0 @ y == Pmat(S0) y", "left operand modified", lambda: S0 @ (P1 @ x), P0 @ P1 @ x, inp)
            yv = np.array([rng.uniform(1, 2) for _ in range(d0[3])])
            for nm, y in (("float", 1.5), ("ndarray", yv)):
                for op, f in PENDING.items():
                    want = f(y, P0 @ P1 @ x)
                    sw.case(("pending", op, nm, d0, d1), True)
                    check(f"(y {op} (S0 @ S1)) @ x == y {op} (Pmat(S0) Pmat(S1) x)", f"pending {op} {nm}",
                          lambda: f(y, mk(d0) @ mk(d1)) @ x, want, inp, equal_nan=True)
                    check(f"(z + (y {op} S1)) @ x == z + (y {op} (Pmat(S1) x))", f"two pending operations {op} {nm}",
                          lambda: (0.25 + f(y if nm == "float" else np.resize(yv, d1[3]), mk(d1))) @ x,
                          0.25 + f(y if nm == "float" else np.resize(yv, d1[3]), P1 @ x), inp, equal_nan=True)
            # transposes of slicers that carry pending operations (the statement combines "chained and transposed slicers and pending
            # right-operand operations"): (S0 @ S1).T = Pmat(S1)^T Pmat(S0)^T, (a * S1).T = a * Pmat(S1)^T
            if len(set(d0[0])) == len(d0[0]) and len(set(d1[0])) == len(d1[0]):
                sw.case(("transpose of pending", d0, d1), True)
                check("(S0 @ S1).T @ y == (Pmat(S0) Pmat(S1))^T y", "transpose of a slicer with a pending slicer product", lambda: (mk(d0) @ mk(d1)).T @ yv,
                      (P0 @ P1).T @ yv, inp)
                y1 = np.resize(yv, d1[3])
                check("(a * S1).T @ y == a * Pmat(S1)^T y", "transpose of a slicer with a pending scalar factor", lambda: (2.0 * mk(d1)).T @ y1, 2.0 * (P1.T @ y1), inp)
            M = sps.csr_matrix(np.array([[rng.choice([0, 1.0, 2.0]) for _ in range(d0[3])] for _ in range(2)]))
            check("(M @ (S0 @ S1)) @ x == M Pmat(S0) Pmat(S1) x", "pending @ on a chain", lambda: (M @ (mk(d0) @ mk(d1))) @ x, M @ (P0 @ P1 @ x), inp)
            if c2:
                d2 = rng.choice(c2)
                P2 = pm(d2)
                x2 = np.array([rng.uniform(1, 2) for _ in range(d2[2])])
                for grp in ("left", "right"):
                    sw.case(("chain3", grp, d0, d1, d2), True)
                    check("chain of three slicers == product of the three projection matrices", f"chain3 {grp}",
                          lambda: (((mk(d0) @ mk(d1)) @ mk(d2)) if grp == "left" else (mk(d0) @ (mk(d1) @ mk(d2)))) @ x2, P0 @ P1 @ P2 @ x2,
                          {"S0": d0, "S1": d1, "S2": d2})


def _pm(d):
    P = np.zeros((d[3], d[2]))
    P[list(d[1]), list(d[0])] = 1
    return P


def replay(data):
    import porepy as pp

    inp = data.get("inputs") or {}
    AS = pp.matrix_operations.ArraySlicer
    mk = lambda d: AS(domain_indices=np.array(d[0]), range_indices=np.array(d[1]), range_size=d[3], domain_size=d[2])
    if "S0" in inp and "S1" in inp and "S2" not in inp:
        S0, S1 = mk(inp["S0"]), mk(inp["S1"])
        x = np.arange(1.0, inp["S1"][2] + 1)
        P0, P1 = _pmat(S0), _pmat(S1)
        a = (S0 @ S1) @ x
        b = S1 @ x
        print("chain:", a, "expected", P0 @ P1 @ x, "| S1 alone afterwards:", b, "expected", P1 @ x)
        return not (np.allclose(a, P0 @ P1 @ x) and np.allclose(b, P1 @ x))
    return False


def run(rep):
    import porepy as pp
    from porepy.numerics.ad import forward_mode
    from porepy.numerics.linalg import matrix_operations as mo

    rep.under_contract("ArraySlicer.__init__", "ArraySlicer.transpose", "ArraySlicer.copy", "ArraySlicer.__matmul__", "ArraySlicer.__rmatmul__",
                       "ArraySlicer.__rmul__", "ArraySlicer.__rtruediv__", "ArraySlicer.__rpow__", "ArraySlicer.__radd__", "ArraySlicer.__rsub__",
                       "ArraySlicer._slice_vector", "ArraySlicer._slice_matrix (tier B)")
    rep.assume("requires: range indices pairwise distinct and within range_size; domain indices within domain_size (and distinct when transposed)")
    refuted = []
    with shims.shadow_builtins([mo, forward_mode]), shims.numpy_shims():
        cases = [(f"__matmul__({k})", case_vector(pp, k)) for k in ("vector", "scalar", "AdArray")]
        cases += [("onto slicer", case_onto(pp)), ("transpose", case_transpose(pp)), ("copy", case_copy(pp)),
                  ("chain of 2", case_chain(pp, 2, None)), ("chain of 3 (left grouping)", case_chain(pp, 3, "left")),
                  ("chain of 3 (right grouping)", case_chain(pp, 3, "right")), ("pending @ sparse", case_pending_matmul(pp))]
        for op in PENDING:
            for yk in ("float", "ndarray"):
                cases.append((f"pending {op} ({yk})", case_pending(pp, op, yk)))
        for label, fn in cases:
            rf, _ = run_case(rep, "ArraySlicer " + label, fn)
            refuted += rf
    rep.trust(*sorted(shims.USED_MODELS))
    for name, ctx, r in refuted:
        rep.violation(name, name.split(":")[0], inputs=None, detail=f"z3 counter-model: {r['model']}"[:1500], confirmed=False, solver_output=str(r["model"]))
    with np.errstate(all="ignore"):
        _sweep(rep, pp)
