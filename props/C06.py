"""C06 — restricted assembly is a slice of the full system.

Tier B : (bounded stand-in) randomly built equation systems on small md-grids: 2-4 equations defined on different grid
         subsets with different numbers of equations per cell / face / node, over 2-3 variables incl. interface variables.
         For all subsets and orderings of equation names (<= 3 at a time), grid restrictions of single equations, and
         variable subsets: the restricted Jacobian and residual equal the rows / columns of the full system selected by an
         independent bookkeeping model (equation blocks in the order the equations were set, rows per grid in md-grid
         order, columns = sorted dofs of the variables), assembled_equation_indices are the contiguous row ranges per
         equation, and residual-only assembly equals the residual of the full assembly.
The deductive treatment sketched in DESIGN (symbolic sizes with a stubbed evaluate) is not built: sparse stacking and the
sorted column projection are outside the proxy models; the property is therefore claimed at exploration level only.
"""
from __future__ import annotations

META = {
    "level": "exploration",
    "engine": "sweep",
    "technique": "run-time contract sweep (bounded stand-in for deduction): restricted vs full assembly compared through an independent row/column bookkeeping model over enumerated equation / grid / variable subsets",
    "text": "Exploration: every subset and ordering (<= 3) of equation names, every single-equation grid restriction and seeded variable subsets on seeded "
            "equation systems over three md-grids; exact comparison of sparse matrices and vectors. No obligation is discharged symbolically for this property.",
    "note": "the full assembly of the same real code is the reference for values; the row/column selection is computed independently from grid sizes and "
            "insertion order; AD evaluation itself is covered by C01/C02",
}

import itertools
import warnings

import numpy as np
import scipy.sparse as sps


def build_system(pp, rng, which):
    if which == 0:
        g = pp.CartGrid([2, 2])
        g.compute_geometry()
        mdg = pp.MixedDimensionalGrid()
        mdg.add_subdomains(g)
    else:
        fr = [np.array([[0.5, 0.5], [0.0, 1.0]]), np.array([[0.0, 1.0], [0.5, 0.5]])][:which]
        mdg = pp.meshing.cart_grid(fr, np.array([2, 2]), physdims=np.array([1.0, 1.0]))
        mdg.compute_geometry()
    es = pp.ad.EquationSystem(mdg)
    sds, intfs = mdg.subdomains(), mdg.interfaces()
    u = es.create_variables("u", subdomains=sds)
    w = es.create_variables("w", dof_info={"cells": 2}, subdomains=sds[:1])
    lam = es.create_variables("lam", interfaces=intfs) if intfs else None
    N = es.num_dofs()
    es.set_variable_values(np.array([rng.uniform(0.5, 1.5) for _ in range(N)]), iterate_index=0)
    es.set_variable_values(np.array([rng.uniform(0.5, 1.5) for _ in range(N)]), time_step_index=0)
    eqs = {}  # name -> (grids, per-entity dict)

    def lin(nrows, var):
        n = es.dofs_of([var]).size
        M = sps.csr_matrix(np.array([[rng.choice([0, 0, 1.0, -2.0, 0.5]) for _ in range(n)] for _ in range(nrows)]))
        return pp.ad.SparseArray(M) @ var

    def rows(grids, per):
        return sum(g.num_cells * per.get("cells", 0) + (0 if isinstance(g, pp.MortarGrid) else g.num_faces * per.get("faces", 0) + g.num_nodes * per.get("nodes", 0)) for g in grids)

    specs = []
    # eq on all subdomains, one per cell
    specs.append(("mass", list(sds), {"cells": 1}))
    # eq on a single subdomain (given in reversed order if several), cells + faces
    specs.append(("flux", list(reversed(sds))[: max(1, len(sds) - 1)], {"cells": 1, "faces": 1} if rng.random() < 0.5 else {"cells": 2}))
    if intfs:
        specs.append(("coupling", list(intfs), {"cells": 1}))
    specs.append(("aux", [sds[0]], {"nodes": 1} if rng.random() < 0.5 else {"cells": 1}))
    rng.shuffle(specs)
    exp = pp.ad.Function(pp.ad.functions.exp, "exp")
    for name, grids, per in specs:
        # rows in md-grid order (subdomains, then interfaces), whatever order the grids were given in
        ordered = [g for g in sds + intfs if g in grids]
        nr = rows(ordered, per)
        op = lin(nr, u) + pp.ad.Scalar(0.5) * exp(lin(nr, w) * 0.1)
        if lam is not None:
            op = op + lin(nr, lam) * lin(nr, u)
        op = op - pp.ad.DenseArray(np.array([rng.uniform(-1, 1) for _ in range(nr)]))
        op.set_name(name)
        es.set_equation(op, list(grids), dict(per))
        eqs[name] = (ordered, per)
    return mdg, es, eqs, [u, w] + ([lam] if lam is not None else [])


def _rows_of(pp, eqs, names_in_system_order, name, grids=None):
    """global row indices (in the full system) of equation `name`, optionally restricted to `grids`; independent bookkeeping"""
    off = 0
    for nm in names_in_system_order:
        ordered, per = eqs[nm]
        loc = 0
        out = []
        for g in ordered:
            n = g.num_cells * per.get("cells", 0) + (0 if isinstance(g, pp.MortarGrid) else g.num_faces * per.get("faces", 0) + g.num_nodes * per.get("nodes", 0))
            if nm == name and (grids is None or g in grids):
                out += list(range(off + loc, off + loc + n))
            loc += n
        if nm == name:
            return out
        off += loc
    raise KeyError(name)


def _sweep(rep, pp):
    rng = rep.rng
    quick = rep.tier == "quick"
    with rep.sweep("restricted vs full assembly",
                   rule="3 md-grids (0-2 fractures) x seeded systems of 3-4 named equations (different grid subsets, cells/faces/nodes multiplicities, nonlinear, "
                        "interface variables) set in random order; all ordered selections of <= 3 equation names; every (equation, grid subset) restriction; seeded variable "
                        "subsets in random order; nontrivial = selection differs from the full system; distinct by (system, selection)",
                   bound="2 (quick) / 12 (thorough) systems per md-grid", exhaustive=False) as sw:
        for which in (0, 1, 2):
            for rep_i in range(2 if quick else 12):
                with warnings.catch_warnings():
                    warnings.simplefilter("ignore")
                    mdg, es, eqs, variables = build_system(pp, rng, which)
                    J, b = es.assemble()
                sysorder = list(es._equations.keys()) if hasattr(es, "_equations") else list(eqs)
                names = sysorder
                J = sps.csr_matrix(J)
                N = es.num_dofs()
                full_idx = dict(es.assembled_equation_indices)
                for nm in names:
                    want = _rows_of(pp, eqs, sysorder, nm)
                    if list(np.asarray(full_idx[nm])) != want:
                        rep.violation("assembled_equation_indices: contiguous row range per equation in the order the equations were set", "full assembly",
                                      inputs={"grid": which, "equation": nm}, detail=f"{list(full_idx[nm])} vs {want}")
                r_only = es.assemble(evaluate_jacobian=False)
                sw.case((which, rep_i, "residual-only"), True)
                if not np.array_equal(r_only, b):
                    rep.violation("residual-only assembly equals the residual of the full assembly", "full system", inputs={"grid": which}, detail="")

                def check(sel_desc, kwargs, rows, cols, order_names, restricted=None):
                    sw.case((which, rep_i, sel_desc), nontrivial=True, sample={"grid": which, "selection": sel_desc})
                    try:
                        with warnings.catch_warnings():
                            warnings.simplefilter("ignore")
                            A, r = es.assemble(**kwargs)
                            idx = dict(es.assembled_equation_indices)
                            r2 = es.assemble(evaluate_jacobian=False, **kwargs)
                    except Exception as e:  # noqa
                        rep.violation("restricted assembly: admissible selections assemble", f"raises {type(e).__name__}", inputs={"grid": which, "selection": sel_desc}, detail=str(e)[:200])
                        return
                    A = sps.csr_matrix(A)
                    E = J[rows][:, cols]
                    if A.shape != E.shape or (A != E).nnz != 0:
                        rep.violation("restricted Jacobian equals the selected rows and columns of the full Jacobian", sel_desc.split(":")[0], inputs={"grid": which, "selection": sel_desc},
                                      detail=f"shape {A.shape} vs {E.shape}")
                    if not np.array_equal(r, b[rows]):
                        rep.violation("restricted residual equals the selected rows of the full residual", sel_desc.split(":")[0], inputs={"grid": which, "selection": sel_desc}, detail="")
                    if not np.array_equal(r2, r):
                        rep.violation("residual-only assembly equals the residual of the (restricted) assembly", sel_desc.split(":")[0], inputs={"grid": which, "selection": sel_desc}, detail="")
                    off = 0
                    for nm in order_names:
                        k = len(_rows_of(pp, eqs, sysorder, nm, None if restricted is None else restricted.get(nm)))
                        if nm not in idx or list(np.asarray(idx[nm])) != list(range(off, off + k)):
                            rep.violation("row indices are reported per equation as contiguous blocks in the order the equations were set", sel_desc.split(":")[0],
                                          inputs={"grid": which, "selection": sel_desc}, detail=f"{nm}: {list(idx.get(nm, []))} expected {off}..{off + k - 1}")
                        off += k

                allcols = list(range(N))
                # subsets and orderings of equation names
                for k in (1, 2, 3):
                    for sel in itertools.permutations(names, k):
                        in_sys = [n for n in sysorder if n in sel]  # blocks follow the order the equations were set
                        rows = [r for n in in_sys for r in _rows_of(pp, eqs, sysorder, n)]
                        check("equations:" + ",".join(sel), {"equations": list(sel)}, rows, allcols, in_sys)
                # grid restrictions
                for nm in names:
                    ordered = eqs[nm][0]
                    for k in range(0, len(ordered) + 1):
                        for gs in itertools.combinations(ordered, k):
                            gl = list(gs)
                            rng.shuffle(gl)
                            rows = _rows_of(pp, eqs, sysorder, nm, gl)
                            check(f"grids:{nm}:{[mdg.subdomains().index(g) if g in mdg.subdomains() else 'i' for g in gl]}", {"equations": {nm: gl}}, rows, allcols, [nm], {nm: gl})
                # several equations restricted at once (single-row blocks arise on 0-d grids and one-cell restrictions)
                for e1, e2 in itertools.permutations(names, 2):
                    for _ in range(2 if quick else 6):
                        restr = {}
                        for nm in (e1, e2):
                            ordered = eqs[nm][0]
                            small = sorted(ordered, key=lambda g: g.num_cells)
                            gl = small[:1] if rng.random() < 0.5 else rng.sample(ordered, rng.randint(1, len(ordered)))
                            restr[nm] = gl
                        in_sys = [n for n in sysorder if n in restr]
                        rows = [r for n in in_sys for r in _rows_of(pp, eqs, sysorder, n, restr[n])]
                        check(f"grids2:{e1}+{e2}:{[len(restr[e1]), len(restr[e2])]}:{[g.num_cells for g in restr[e1] + restr[e2]]}", {"equations": restr}, rows, allcols, in_sys, restr)
                # variable subsets (atomic variables, random order)
                atoms = list(es.variables)
                for _ in range(6 if quick else 30):
                    sub = rng.sample(atoms, rng.randint(1, len(atoms)))
                    cols = sorted(int(c) for v in sub for c in es.dofs_of([v]))
                    sel = tuple(rng.sample(names, rng.randint(1, len(names))))
                    in_sys = [n for n in sysorder if n in sel]
                    rows = [r for n in in_sys for r in _rows_of(pp, eqs, sysorder, n)]
                    check(f"variables:{len(sub)} of {len(atoms)}; equations:{','.join(sel)}", {"equations": list(sel), "variables": sub}, rows, cols, in_sys)
                # md-variables and names as variable specifications
                for spec, vs in (("u", [v for v in atoms if v.name == "u"]), (variables[1], [v for v in atoms if v.name == "w"])):
                    cols = sorted(int(c) for v in vs for c in es.dofs_of([v]))
                    check(f"variables by {'name' if isinstance(spec, str) else 'md-variable'}", {"variables": [spec]}, [r for n in sysorder for r in _rows_of(pp, eqs, sysorder, n)], cols, sysorder)


def replay(data):
    return False


def run(rep):
    import porepy as pp

    rep.under_contract("EquationSystem.assemble", "EquationSystem._parse_equations", "EquationSystem._parse_single_equation", "EquationSystem.assembled_equation_indices",
                       "EquationSystem.set_equation (image-space bookkeeping)", "EquationSystem.projection_to (column selection)")
    rep.assume("requires: equation names unique; restricted grids are grids the equation is defined on")
    _sweep(rep, pp)
