"""C06 — restricted assembly is a slice of the full system.

Tier B : (bounded stand-in) randomly built equation systems on small md-grids: 2-4 equations defined on different grid
         subsets with different numbers of equations per cell / face / node, over 2-3 variables incl. interface variables.
         For all subsets and orderings of equation names (<= 3 at a time), grid restrictions of single equations, and
         variable subsets: the restricted Jacobian and residual equal the rows / columns of the full system selected by an
         independent bookkeeping model (equation blocks in the order the equations were set, rows per grid in md-grid
         order, columns = sorted dofs of the variables), assembled_equation_indices are the contiguous row ranges per
         equation, and residual-only assembly equals the residual of the full assembly.
The deductive treatment sketched in DESIGN (symbolic sizes with a stubbed evaluate) is not built: sparse stacking and the
sorted column projection are outside the proxy models; the property is therefore claimed at exploration level only.
"""
from __future__ import annotations

META = {
    "level": "other",
    "engine": "pse",
    "technique": "contract-based deductive verification of the slicing done by the real EquationSystem.assemble (<= 3 equations, each whole or "
                 "restricted to an arbitrary symbolic row index array, all sizes and entries symbolic; _parse_equations / evaluate / projection_to as "
                 "modular stubs): A[r, c] = J_e[rowmap(r), colmap(c)], b[r] = -residual_e[rowmap(r)], residual-only path, contiguous "
                 "assembled_equation_indices, state forwarding, discharged by z3; run-time contract sweep (bounded stand-in): restricted vs full assembly compared through an independent row/column bookkeeping model over enumerated equation / grid / variable subsets",
    "text": "Exploration: every subset and ordering (<= 3) of equation names, every single-equation grid restriction and seeded variable subsets on seeded "
            "equation systems over three md-grids; exact comparison of sparse matrices and vectors. Tier Ps: the row/column slicing and block bookkeeping of "
            "assemble for all sizes (number of equations bounded by 3); the grid -> rows map and block order of _parse_equations are covered by the sweep only.",
    "note": "the full assembly of the same real code is the reference for values; the row/column selection is computed independently from grid sizes and "
            "insertion order; AD evaluation itself is covered by C01/C02",
}

import itertools
import warnings

import numpy as np
import scipy.sparse as sps


def build_system(pp, rng, which):
    if which == 0:
        g = pp.CartGrid([2, 2])
        g.compute_geometry()
        mdg = pp.MixedDimensionalGrid()
        mdg.add_subdomains(g)
    else:
        fr = [np.array([[0.5, 0.5], [0.0, 1.0]]), np.array([[0.0, 1.0], [0.5, 0.5]])][:which]
        mdg = pp.meshing.cart_grid(fr, np.array([2, 2]), physdims=np.array([1.0, 1.0]))
        mdg.compute_geometry()
    es = pp.ad.EquationSystem(mdg)
    sds, intfs = mdg.subdomains(), mdg.interfaces()
    u = es.create_variables("u", subdomains=sds)
    w = es.create_variables("w", dof_info={"cells": 2}, subdomains=sds[:1])
    lam = es.create_variables("lam", interfaces=intfs) if intfs else None
    N = es.num_dofs()
    es.set_variable_values(np.array([rng.uniform(0.5, 1.5) for _ in range(N)]), iterate_index=0)
    es.set_variable_values(np.array([rng.uniform(0.5, 1.5) for _ in range(N)]), time_step_index=0)
    eqs = {}  # name -> (grids, per-entity dict)

    def lin(nrows, var):
        n = es.dofs_of([var]).size
        M = sps.csr_matrix(np.array([[rng.choice([0, 0, 1.0, -2.0, 0.5]) for _ in range(n)] for _ in range(nrows)]))
        return pp.ad.SparseArray(M) @ var

    def rows(grids, per):
        return sum(g.num_cells * per.get("cells", 0) + (0 if isinstance(g, pp.MortarGrid) else g.num_faces * per.get("faces", 0) + g.num_nodes * per.get("nodes", 0)) for g in grids)

    specs = []
    # eq on all subdomains, one per cell
    specs.append(("mass", list(sds), {"cells": 1}))
    # eq on a single subdomain (given in reversed order if several), cells + faces
    specs.append(("flux", list(reversed(sds))[: max(1, len(sds) - 1)], {"cells": 1, "faces": 1} if rng.random() < 0.5 else {"cells": 2}))
    if intfs:
        specs.append(("coupling", list(intfs), {"cells": 1}))
    specs.append(("aux", [sds[0]], {"nodes": 1} if rng.random() < 0.5 else {"cells": 1}))
    rng.shuffle(specs)
    exp = pp.ad.Function(pp.ad.functions.exp, "exp")
    for name, grids, per in specs:
        # rows in md-grid order (subdomains, then interfaces), whatever order the grids were given in
        ordered = [g for g in sds + intfs if g in grids]
        nr = rows(ordered, per)
        op = lin(nr, u) + pp.ad.Scalar(0.5) * exp(lin(nr, w) * 0.1)
        if lam is not None:
            op = op + lin(nr, lam) * lin(nr, u)
        op = op - pp.ad.DenseArray(np.array([rng.uniform(-1, 1) for _ in range(nr)]))
        op.set_name(name)
        es.set_equation(op, list(grids), dict(per))
        eqs[name] = (ordered, per)
    return mdg, es, eqs, [u, w] + ([lam] if lam is not None else [])


def _rows_of(pp, eqs, names_in_system_order, name, grids=None):
    """global row indices (in the full system) of equation `name`, optionally restricted to `grids`; independent bookkeeping"""
    off = 0
    for nm in names_in_system_order:
        ordered, per = eqs[nm]
        loc = 0
        out = []
        for g in ordered:
            n = g.num_cells * per.get("cells", 0) + (0 if isinstance(g, pp.MortarGrid) else g.num_faces * per.get("faces", 0) + g.num_nodes * per.get("nodes", 0))
            if nm == name and (grids is None or g in grids):
                out += list(range(off + loc, off + loc + n))
            loc += n
        if nm == name:
            return out
        off += loc
    raise KeyError(name)


def _sweep(rep, pp):
    rng = rep.rng
    quick = rep.tier == "quick"
    with rep.sweep("restricted vs full assembly",
                   rule="3 md-grids (0-2 fractures) x seeded systems of 3-4 named equations (different grid subsets, cells/faces/nodes multiplicities, nonlinear, "
                        "interface variables) set in random order; all ordered selections of <= 3 equation names; every (equation, grid subset) restriction; seeded variable "
                        "subsets in random order; nontrivial = selection differs from the full system; distinct by (system, selection)",
                   bound="2 (quick) / 12 (thorough) systems per md-grid", exhaustive=False) as sw:
        for which in (0, 1, 2):
            for rep_i in range(2 if quick else 12):
                with warnings.catch_warnings():
                    warnings.simplefilter("ignore")
                    mdg, es, eqs, variables = build_system(pp, rng, which)
                    J, b = es.assemble()
                sysorder = list(es._equations.keys()) if hasattr(es, "_equations") else list(eqs)
                names = sysorder
                J = sps.csr_matrix(J)
                N = es.num_dofs()
                full_idx = dict(es.assembled_equation_indices)
                for nm in names:
                    want = _rows_of(pp, eqs, sysorder, nm)
                    if list(np.asarray(full_idx[nm])) != want:
                        rep.violation("assembled_equation_indices: contiguous row range per equation in the order the equations were set", "full assembly",
                                      inputs={"grid": which, "equation": nm}, detail=f"{list(full_idx[nm])} vs {want}")
                r_only = es.assemble(evaluate_jacobian=False)
                sw.case((which, rep_i, "residual-only"), True)
                if not np.array_equal(r_only, b):
                    rep.violation("residual-only assembly equals the residual of the full assembly", "full system", inputs={"grid": which}, detail="")

                def check(sel_desc, kwargs, rows, cols, order_names, restricted=None):
                    sw.case((which, rep_i, sel_desc), nontrivial=True, sample={"grid": which, "selection": sel_desc})
                    try:
                        with warnings.catch_warnings():
                            warnings.simplefilter("ignore")
                            A, r = es.assemble(**kwargs)
                            idx = dict(es.assembled_equation_indices)
                            r2 = es.assemble(evaluate_jacobian=False, **kwargs)
                    except Exception as e:  # noqa
                        rep.violation("restricted assembly: admissible selections assemble", f"raises {type(e).__name__}", inputs={"grid": which, "selection": sel_desc}, detail=str(e)[:200])
                        return
                    A = sps.csr_matrix(A)
                    E = J[rows][:, cols]
                    if A.shape != E.shape or (A != E).nnz != 0:
                        rep.violation("restricted Jacobian equals the selected rows and columns of the full Jacobian", sel_desc.split(":")[0], inputs={"grid": which, "selection": sel_desc},
                                      detail=f"shape {A.shape} vs {E.shape}")
                    if not np.array_equal(r, b[rows]):
                        rep.violation("restricted residual equals the selected rows of the full residual", sel_desc.split(":")[0], inputs={"grid": which, "selection": sel_desc}, detail="")
                    if not np.array_equal(r2, r):
                        rep.violation("residual-only assembly equals the residual of the (restricted) assembly", sel_desc.split(":")[0], inputs={"grid": which, "selection": sel_desc}, detail="")
                    off = 0
                    for nm in order_names:
                        k = len(_rows_of(pp, eqs, sysorder, nm, None if restricted is None else restricted.get(nm)))
                        if nm not in idx or list(np.asarray(idx[nm])) != list(range(off, off + k)):
                            rep.violation("row indices are reported per equation as contiguous blocks in the order the equations were set", sel_desc.split(":")[0],
                                          inputs={"grid": which, "selection": sel_desc}, detail=f"{nm}: {list(idx.get(nm, []))} expected {off}..{off + k - 1}")
                        off += k

                allcols = list(range(N))
                # subsets and orderings of equation names
                for k in (1, 2, 3):
                    for sel in itertools.permutations(names, k):
                        in_sys = [n for n in sysorder if n in sel]  # blocks follow the order the equations were set
                        rows = [r for n in in_sys for r in _rows_of(pp, eqs, sysorder, n)]
                        check("equations:" + ",".join(sel), {"equations": list(sel)}, rows, allcols, in_sys)
                # grid restrictions
                for nm in names:
                    ordered = eqs[nm][0]
                    for k in range(0, len(ordered) + 1):
                        for gs in itertools.combinations(ordered, k):
                            gl = list(gs)
                            rng.shuffle(gl)
                            rows = _rows_of(pp, eqs, sysorder, nm, gl)
                            check(f"grids:{nm}:{[mdg.subdomains().index(g) if g in mdg.subdomains() else 'i' for g in gl]}", {"equations": {nm: gl}}, rows, allcols, [nm], {nm: gl})
                # several equations restricted at once (single-row blocks arise on 0-d grids and one-cell restrictions)
                for e1, e2 in itertools.permutations(names, 2):
                    for _ in range(2 if quick else 6):
                        restr = {}
                        for nm in (e1, e2):
                            ordered = eqs[nm][0]
                            small = sorted(ordered, key=lambda g: g.num_cells)
                            gl = small[:1] if rng.random() < 0.5 else rng.sample(ordered, rng.randint(1, len(ordered)))
                            restr[nm] = gl
                        in_sys = [n for n in sysorder if n in restr]
                        rows = [r for n in in_sys for r in _rows_of(pp, eqs, sysorder, n, restr[n])]
                        check(f"grids2:{e1}+{e2}:{[len(restr[e1]), len(restr[e2])]}:{[g.num_cells for g in restr[e1] + restr[e2]]}", {"equations": restr}, rows, allcols, in_sys, restr)
                # variable subsets (atomic variables, random order)
                atoms = list(es.variables)
                for _ in range(6 if quick else 30):
                    sub = rng.sample(atoms, rng.randint(1, len(atoms)))
                    cols = sorted(int(c) for v in sub for c in es.dofs_of([v]))
                    sel = tuple(rng.sample(names, rng.randint(1, len(names))))
                    in_sys = [n for n in sysorder if n in sel]
                    rows = [r for n in in_sys for r in _rows_of(pp, eqs, sysorder, n)]
                    check(f"variables:{len(sub)} of {len(atoms)}; equations:{','.join(sel)}", {"equations": list(sel), "variables": sub}, rows, cols, in_sys)
                # md-variables and names as variable specifications
                for spec, vs in (("u", [v for v in atoms if v.name == "u"]), (variables[1], [v for v in atoms if v.name == "w"])):
                    cols = sorted(int(c) for v in vs for c in es.dofs_of([v]))
                    check(f"variables by {'name' if isinstance(spec, str) else 'md-variable'}", {"variables": [spec]}, [r for n in sysorder for r in _rows_of(pp, eqs, sysorder, n)], cols, sysorder)


def _scalar_equations(rep, pp):
    """equations that evaluate to a scalar (set_equation with grids=[]): one row each; residual-only assembly equals the residual of
    the Jacobian assembly, alone and next to array-valued equations, in every order"""
    with rep.sweep("scalar-valued equations", rule="systems with one array-valued equation on all cells and one or two scalar-valued equations (grids=[]), every "
                   "order of setting them and every non-empty selection / order of names; residual-only assembly vs Jacobian assembly",
                   bound="2x2 Cartesian grid, <= 3 equations", exhaustive=True) as sw:
        for order in itertools.permutations(("arr", "s1", "s2")):
            g = pp.CartGrid([2, 2])
            g.compute_geometry()
            mdg = pp.MixedDimensionalGrid()
            mdg.add_subdomains(g)
            es = pp.ad.EquationSystem(mdg)
            x = es.create_variables("x", subdomains=[g])
            es.set_variable_values(np.arange(es.num_dofs()) + 1.0, iterate_index=0)
            es.set_variable_values(np.arange(es.num_dofs()) + 1.0, time_step_index=0)
            ops = {"arr": (x * x, [g]), "s1": (pp.ad.Scalar(2.0) * pp.ad.Scalar(3.0), []), "s2": (pp.ad.Scalar(1.0) - pp.ad.Scalar(4.0), [])}
            for nm in order:
                op, grids = ops[nm]
                op.set_name(nm)
                es.set_equation(op, grids, {"cells": 1})
            for m in (1, 2, 3):
                for sel in itertools.permutations(order, m):
                    sw.case((order, sel), nontrivial=any(s != "arr" for s in sel), sample={"set order": list(order), "selection": list(sel)})
                    inp = {"set order": list(order), "selection": list(sel)}
                    try:
                        with warnings.catch_warnings():
                            warnings.simplefilter("ignore")
                            A, b = es.assemble(equations=list(sel))
                            b0 = es.assemble(evaluate_jacobian=False, equations=list(sel))
                    except Exception as e:  # noqa
                        rep.violation("restricted assembly: admissible selections assemble", f"scalar-valued equation raises {type(e).__name__}", inputs=inp, detail=str(e)[:200])
                        continue
                    want = {"arr": 4, "s1": 1, "s2": 1}
                    nrows = sum(want[s] for s in order if s in sel)
                    if A.shape[0] != nrows or b.shape != (nrows,) or np.shape(b0) != (nrows,) or not np.array_equal(b, b0):
                        rep.violation("residual-only assembly equals the residual of the Jacobian assembly", "scalar-valued equation", inputs=inp,
                                      detail=f"A {A.shape}, b {np.shape(b)}, residual-only {np.shape(b0)}")


def replay(data):
    return False


# ----------------------------------------------------------------------------- tier Ps: the slicing done by assemble


def case_assemble(pp, pattern, with_state):
    """The real EquationSystem.assemble on `len(pattern)` equations (pattern[e] = True: rows restricted to an arbitrary symbolic
    index array, False: whole equation) of symbolic sizes.  Modular stubs (contracts checked elsewhere): _parse_equations (returns
    the row blocks in a given order -- the order and the grid -> rows map are covered by the sweep), evaluate (C02: returns one
    (value, Jacobian) pair per equation, a function of (equation, state)), projection_to (C05: row selection of the sorted dofs of
    the requested variables)."""
    import z3

    from engine.arrays import SymArray, SymMat
    from engine.sym import SymBool, iterm, rterm

    k = len(pattern)

    def run(ctx):
        N, q = ctx.int("num_dofs"), ctx.int("num_selected_dofs")
        ctx.assume((N >= 1) & (q >= 0))
        colmap = z3.Function("colmap", z3.IntSort(), z3.IntSort())
        g = z3.Int("__c")
        ctx.add_axiom(z3.ForAll([g], z3.Implies(z3.And(g >= 0, g < q.t), z3.And(colmap(g) >= 0, colmap(g) < N.t)), patterns=[colmap(g)]))
        names = [f"eq{e}" for e in range(k)]
        sizes, vals, jacs, rows = [], [], [], []
        for e in range(k):
            n = ctx.int(f"n{e}")
            ctx.assume(n >= 0)
            sizes.append(n)
            vals.append(SymArray.fresh(f"val{e}", n, "real"))
            jacs.append(SymMat.fresh(f"jac{e}", n, N))
            if pattern[e]:
                m = ctx.int(f"m{e}")
                ctx.assume(m >= 0)
                R = SymArray.fresh(f"rows{e}", m, "int")
                kk = z3.Int("__kr")
                ctx.add_axiom(z3.ForAll([kk], z3.Implies(z3.And(kk >= 0, kk < m.t), z3.And(R._elem(kk) >= 0, R._elem(kk) < n.t)), patterns=[R._elem(kk)]))
                rows.append(R)
            else:
                rows.append(None)
        es = pp.ad.EquationSystem.__new__(pp.ad.EquationSystem)
        es._equations = {nm: ("operator", nm) for nm in names}
        es._variables = {}
        es.assembled_equation_indices = {"stale": None}
        STATE = object() if with_state else None
        seen = {}
        es._parse_equations = lambda equations: {nm: rows[e] for e, nm in enumerate(names)}

        def evaluate(eqs, derivative=True, state=None):
            seen.setdefault("calls", []).append((tuple(eqs), derivative, state))
            if derivative:
                return [pp.ad.AdArray(vals[names.index(op[1])], jacs[names.index(op[1])]) for op in eqs]
            return [vals[names.index(op[1])] for op in eqs]

        es.evaluate = evaluate
        es.num_dofs = lambda: N
        es.projection_to = lambda variables: SymMat.row_selection(q, N, lambda r: colmap(r))
        A, b = es.assemble(equations=names, variables=["some variables"], state=STATE)
        b_only = es.assemble(evaluate_jacobian=False, equations=names, variables=["some variables"], state=STATE)
        ctx.prove("every equation is evaluated at the caller's state, in the order of the parsed blocks",
                  all(c[0] == tuple(("operator", nm) for nm in names) and c[2] is STATE for c in seen["calls"]) and len(seen["calls"]) == 2)
        blk = [(iterm(rows[e].n) if pattern[e] else sizes[e].t) for e in range(k)]
        offs = [z3.IntVal(0)]
        for e in range(k):
            offs.append(offs[-1] + blk[e])
        ctx.prove("shape: rows = sum of the block lengths, columns = number of selected dofs",
                  SymBool(z3.And(iterm(A.shape[0]) == offs[-1], iterm(A.shape[1]) == q.t, iterm(b.n) == offs[-1], iterm(b_only.n) == offs[-1])))
        r, c = ctx.int("r"), ctx.int("c")
        ctx.assume((r >= 0) & (c >= 0) & (c < q))
        ctx.assume(SymBool(r.t < offs[-1]))
        for e in range(k):
            inblk = z3.And(r.t >= offs[e], r.t < offs[e + 1])
            loc = r.t - offs[e]
            src = rows[e]._elem(loc) if pattern[e] else loc
            ctx.prove(f"block {e}: matrix row r is row rowmap(r) of that equation's Jacobian restricted to the selected columns: A[r, c] = J_e[rowmap(r), colmap(c)]",
                      SymBool(z3.Implies(inblk, A._entry(r.t, c.t) == jacs[e]._entry(src, colmap(c.t)))))
            ctx.prove(f"block {e}: right-hand side entry r is minus the residual at rowmap(r)", SymBool(z3.Implies(inblk, rterm(b.at(r)) == -vals[e]._elem(src))))
            ctx.prove(f"block {e}: residual-only assembly gives the same vector", SymBool(z3.Implies(inblk, rterm(b_only.at(r)) == rterm(b.at(r)))))
            idx = es.assembled_equation_indices.get(names[e])
            ctx.prove(f"block {e}: assembled_equation_indices is recorded", idx is not None)
            if idx is not None:
                t = ctx.int(f"t{e}")
                ctx.assume((t >= 0))
                ctx.prove(f"block {e}: assembled_equation_indices is the contiguous row range of the block",
                          SymBool(z3.And(iterm(idx.n) == blk[e], z3.Implies(t.t < blk[e], idx._elem(t.t) == offs[e] + t.t))))
        ctx.prove("assembled_equation_indices lists exactly the assembled equations (stale entries removed)", set(es.assembled_equation_indices) == set(names))
        if k >= 2:
            ctx.assume(SymBool(z3.And(blk[0] >= 1, blk[1] >= 1)))
            ctx.prove("CANARY: the second block starts at row 0", SymBool(z3.Implies(r.t == 0, A._entry(r.t, c.t) == jacs[1]._entry(rows[1]._elem(r.t) if pattern[1] else r.t, colmap(c.t)))),
                      expect_refuted=True)
        return "ok"

    return run


def prove(rep, pp):
    import itertools as it

    from engine import indexmodels, shims
    from engine.harness import run_case
    from porepy.numerics.ad import equation_system as esmod

    rep.under_contract("EquationSystem.assemble [tier Ps: row / column slicing, block offsets, residual-only path; <= 3 equations, all sizes symbolic]")
    rep.assume("tier Ps stubs: _parse_equations (row blocks given), evaluate (C02), projection_to (C05: row selection with in-range column map)")
    refuted = []
    with shims.shadow_builtins([esmod]), shims.numpy_shims(), indexmodels.index_shims():
        pats = [p for k in (1, 2, 3) for p in it.product((False, True), repeat=k)]
        if rep.tier == "quick":
            pats = [p for p in pats if len(p) <= 2] + [(True, False, True), (False, True, True)]
        for p in pats:
            rf, _ = run_case(rep, f"assemble[{','.join('restricted' if x else 'whole' for x in p)}]", case_assemble(pp, p, with_state=(sum(p) % 2 == 0)), tier="Ps")
            refuted += rf
    rep.trust(*sorted(shims.USED_MODELS))
    for name, ctx, r in refuted:
        rep.violation(name, name.split(":")[0], inputs=None, detail=f"z3 counter-model: {r['model']}"[:1500], confirmed=False, solver_output=str(r["model"]))


def run(rep):
    import porepy as pp

    rep.under_contract("EquationSystem.assemble", "EquationSystem._parse_equations", "EquationSystem._parse_single_equation", "EquationSystem.assembled_equation_indices",
                       "EquationSystem.set_equation (image-space bookkeeping)", "EquationSystem.projection_to (column selection)")
    rep.assume("requires: equation names unique; restricted grids are grids the equation is defined on")
    prove(rep, pp)
    _sweep(rep, pp)
    _scalar_equations(rep, pp)
