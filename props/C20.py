"""C20 -- grid geometry is equivariant under rigid motions.

Tier B (run-time contract sweep).  Relational postcondition on the real ``Grid.compute_geometry``: for a grid with
nodes X and the same grid with nodes R X + t (R a proper rotation, t a translation)

   V' = V,  area' = area,  x_c' = R x_c + t,  x_f' = R x_f + t,  n' = R n      (sign included: the sign of a
   normal is fixed by the cell_faces convention, so it must rotate with the grid)

The reference run is the grid in its natural position (1-D on the x-axis, 2-D in the xy-plane); R X + t embeds
1-D and 2-D grids in arbitrary lines / planes of 3-D space, which exercises ``map_geometry.compute_tangent`` (1-D
normals) and the plane-normal / ``compute_normal`` paths of ``_compute_geometry_2d``.

Grid family: the C19 family (``props.C19._cases`` in natural position: Cart/Tensor/structured and Delaunay simplex
grids, 1..3 cells per direction, clockwise-cell and reversed-face-node variants -> convex fallback branch, seeded
convexity-preserving perturbations, affine images, perturbed hexahedra, and the later C19 additions: cell sizes
1e-5 .. 1e4, 2-D unions of face-disconnected parts with mirrored (oppositely wound) parts incl. exactly mirrored halves,
TriangleGrid patches with a mirror image, 2-D Cart/Tensor grids with a non-convex 'dart' cell).  Motions: pure
translations (incl. far ones, |t| = 1e2 .. 4e4 with unit-spacing grids), the 24 axis-aligned proper rotations, seeded
random rotations (one of them combined with a far translation), near-identity rotations (1e-3 .. 1e-9 rad),
near-quarter-turns, each combined with a translation.  The rotation matrices are built here (Rodrigues / signed
permutations), not with porepy.

Second family (cells with different numbers of faces -- the statement says any grid, every C19 grid is uniform): hand-built
polygonal 2-D grids (quadrilateral + triangle, pentagon + triangle, hexagon in a ring of quadrilaterals, octagon + triangles, a
coarse cell with a hanging node, an agglomerated non-convex L-shaped cell, lattices of rectangles partly split into triangles
= ``props.C15.mixed_grid``), each with consistently oriented counter-clockwise / clockwise node loops (general branch of
``_compute_geometry_2d``) and with sorted face nodes and two sign assignments (convex-cell branch), plain / node-perturbed /
affine / scaled by 1e-3 and 1e3, and their prismatic extrusions to 3-D (cells with 5..10 faces); same motions.

Tolerance: 1e-10 * (1 + M / L) relative, M = largest coordinate magnitude after the motion, L = grid diameter
(differences of coordinates of size M lose M/L digits; nothing else is tolerated).

Detection power (scratch copy of /repo/src, POREPY_SRC, one mutant at a time):
  * map_geometry.compute_tangent: ``tangent / norm(tangent)`` -> ``tangent / norm(tangent[:2])`` (normalised in the xy-plane only)
      -> exit 1, "face normals rotate with the motion" (1-D grids, axis-aligned / random / near-quarter-turn motions)
  * grid.py _compute_geometry_2d: ``return plane_normal / len_normal`` -> ``[0, 0, sign(plane_normal[2])]`` (right only in the xy-plane)
      -> exit 1, volumes / centres / normals obligations (2-D grids, every rotation out of the plane)
  * grid.py _compute_geometry_1d: ``vn = v + nrm(v) * n * 0.001`` -> only the x-component of n used in the flip decision
      -> exit 1, "face normals rotate with the motion" (1-D grids rotated away from the x-axis)
  * grid.py _compute_geometry_2d: ``cz = bincount(cellno, weights=face_centers[2, faceno])`` -> ``face_centers[0, faceno]``
      -> exit 1, cell centres / normals obligations (2-D embedded grids)
  * map_geometry.compute_tangent: ``argmax(sum(tangent**2, axis=0))`` -> ``argmax(abs(tangent[0]))`` NOT caught: equivalent for this
    property (any non-zero node offset is a valid tangent and the sign is repaired by _compute_geometry_1d)
Seeded changes detected through the later additions:
  * map_geometry.compute_normal: collinearity tolerance scaled with |pts| instead of |pts - centre|
      -> exit 1, "returns on a rigidly moved admissible grid" (plane-fitting grids -- reversed face nodes, mirrored halves --
         under the far translations)
  * grid.py _compute_geometry_2d orientation check 2/3: ``len_normal < 1e-5 mean(area)^2`` -> ``len_normal == 0``
      -> exit 1, "face normals rotate with the motion" (exactly mirrored halves rotated into a non-coordinate plane)
  * grid.py _compute_geometry_2d: temporary cell centres divided by the mean number of faces per cell instead of the per-cell count
      -> exit 1, "cell centres move with the motion" (polygonal grids with cells of different numbers of faces, every motion that
         takes the grid plane off the origin; invisible on uniform grids and in planes through the origin)
"""
from __future__ import annotations

import itertools
import math
import warnings

import numpy as np

META = {
    "level": "exploration",
    "engine": "sweep",
    "technique": "run-time contract sweep (bounded stand-in for deduction): relational postcondition geometry(R X + t) = R geometry(X) + t "
                 "on the real Grid.compute_geometry over an enumerated family of grids x rigid motions",
    "text": "Bounded assurance only: volumes/areas invariant and centres/normals co-rotating for every enumerated grid (C19 family) and "
            "every enumerated motion (translations up to 1e3-4e4 grid diameters from the origin, all 24 axis-aligned rotations, seeded "
            "random, near-identity and near-quarter-turn rotations), including 1-D and 2-D grids embedded in 3-D, grids with cells of "
            "size 1e-5..1e4, 2-D grids with mirrored face-disconnected parts and 2-D grids with one non-convex cell; and for hand-built "
            "polygonal 2-D grids whose cells differ in their number of faces (3..8 faces, hanging nodes, one non-convex agglomerated cell; "
            "consistently oriented and sorted-face-node incidences) and their prismatic extrusions (<= 13 cells per layer, <= 2 layers). "
            "Improper motions (reflections) are outside the statement.",
    "note": "the reference is the same real function on the grid in natural position (the property is relational); rotation matrices are "
            "generated independently of porepy and checked orthonormal to 1e-14; tolerance 1e-10*(1+M/L)",
}

RTOL = 1e-10


def _axis_rotations():
    out = []
    for perm in itertools.permutations(range(3)):
        for sg in itertools.product((1.0, -1.0), repeat=3):
            R = np.zeros((3, 3))
            for i, p in enumerate(perm):
                R[i, p] = sg[i]
            if abs(np.linalg.det(R) - 1.0) < 1e-12:
                out.append(R)
    return out


def _motions(rng, quick, rodrigues):
    """(tag, class, R, t)"""
    I = np.eye(3)
    ms = [("t(1,-2,3)", "translation", I, np.array([1.0, -2.0, 3.0])),
          ("t(100,-50,25)", "translation", I, np.array([100.0, -50.0, 25.0]))]
    ax = _axis_rotations()
    sel = ax if not quick else [ax[k] for k in (1, 5, 8, 13, 18, 22)]
    for k, R in enumerate(sel):
        t = np.zeros(3) if k % 2 == 0 else np.array([0.5, 2.0, -1.5])
        ms.append((f"axis{k}:" + "".join(str(int(v)) for v in R.ravel()).replace("-1", "m"), "axis-aligned", R, t))
    for k in range(3 if quick else 10):
        R = rodrigues([rng.gauss(0, 1) for _ in range(3)], rng.uniform(0.05, math.pi))
        t = np.array([rng.uniform(-5, 5) for _ in range(3)])
        ms.append((f"rand{k}", "random", R, t))
    small = (1e-3, 1e-6, 1e-9) if not quick else (1e-6,)
    for a in small:
        for axis, nm in (([1, 0, 0], "x"), ([0, 1, 0], "y"), ([0, 0, 1], "z"), ([1, 1, 1], "d")):
            if quick and nm in ("z", "d"):
                continue
            ms.append((f"tilt{a:g}{nm}", "near-identity", rodrigues(axis, a), np.array([0.0, 0.0, 0.25])))
    for a in ((1e-7,) if quick else (1e-4, 1e-7, -1e-7)):
        ms.append((f"quarter-y{a:g}", "near-quarter-turn", rodrigues([0, 1, 0], math.pi / 2 - a), np.zeros(3)))
        ms.append((f"quarter-x{a:g}", "near-quarter-turn", rodrigues([1, 0, 0], math.pi / 2 + a), np.array([1.0, 1.0, 1.0])))
    # far from the origin (e.g. georeferenced coordinates): |t| = 1e3 .. 1e4 times the size of the unit-spacing grids
    ms.append(("t(2e3,-3e3,1.5e3)", "translation", I, np.array([2000.0, -3000.0, 1500.0])))
    R = rodrigues([rng.gauss(0, 1) for _ in range(3)], rng.uniform(0.3, 2.8))
    ms.append(("far-rand(-4e3,1e3,2.5e3)", "far random", R, np.array([-4000.0, 1000.0, 2500.0])))
    if not quick:
        ms.append(("t(1e4,2e4,-3e4)", "translation", I, np.array([1.0e4, 2.0e4, -3.0e4])))
        ms.append(("far-axis(0,-2e4,5e3)", "far axis-aligned", _axis_rotations()[9], np.array([0.0, -2.0e4, 5.0e3])))
    return ms


# ----------------------------------------------------------------------------- grids whose cells have different numbers of faces
# The C19 family is uniform per grid (all cells of a grid have the same number of faces).  The statement quantifies over any grid,
# so general polygonal grids (triangles next to quadrilaterals, pentagons, hexagons, an octagon, hanging nodes, an agglomerated
# L-shaped cell) and their prismatic extrusions are added here, hand-built from node loops the way such grids enter porepy.

ORIENTS = ("loops", "cw", "sorted", "sorted-alt")
_LOOPS: dict = {}


def poly_grid(pp, xy, polys, orient):
    """pp.Grid(2, ...) from node coordinates ``xy`` (2 x N) and counter-clockwise node loops ``polys``.
    orient: 'loops'      face nodes in the direction of the loop of the first cell that mentions the face, cell_faces +1 for that
                         cell and -1 for the other one (consistently oriented, counter-clockwise loops)
            'cw'         the same with every loop traversed clockwise (consistently oriented, clockwise)
            'sorted'     face nodes sorted by index, +1 for the first cell (not a consistently oriented grid -> porepy's branch for
                         convex cells; the convention of props.C15.mixed_grid)
            'sorted-alt' face nodes sorted, the first cell of face f gets +1 if f is even and -1 if f is odd (both signs occur on
                         boundary faces, as on extracted subgrids)"""
    import scipy.sparse as sps

    xy = np.asarray(xy, dtype=float)
    polys = [tuple(int(v) for v in p) for p in polys]
    if orient == "cw":
        polys = [p[::-1] for p in polys]
    faces, fn, rows, cols, vals = {}, [], [], [], []
    for c, poly in enumerate(polys):
        for k in range(len(poly)):
            p, q = poly[k], poly[(k + 1) % len(poly)]
            e = frozenset((p, q))
            if e not in faces:
                f = len(faces)
                first = 1 if (orient != "sorted-alt" or f % 2 == 0) else -1
                faces[e] = (f, first)
                fn += [p, q] if orient in ("loops", "cw") else [min(p, q), max(p, q)]
                sgn = first
            else:
                f, first = faces[e]
                sgn = -first
            rows.append(f)
            cols.append(c)
            vals.append(sgn)
    nf = len(faces)
    nodes = np.vstack([xy[:2], np.zeros(xy.shape[1])])
    face_nodes = sps.csc_matrix((np.ones(2 * nf, dtype=bool), np.array(fn), np.arange(0, 2 * nf + 1, 2)), shape=(nodes.shape[1], nf))
    cell_faces = sps.csc_matrix((np.array(vals), (np.array(rows), np.array(cols))), shape=(nf, len(polys)))
    return pp.Grid(2, nodes, face_nodes, cell_faces, "polygons with different numbers of faces")


def _poly_shapes():
    """name -> (xy, counter-clockwise loops); numbers of faces per cell in brackets"""
    c, s = 0.5, math.sqrt(3.0) / 2.0
    hexa = [(1.0, 0.0), (c, s), (-c, s), (-1.0, 0.0), (-c, -s), (c, -s)]
    return {
        # [4, 3] unit square with a roof triangle
        "house": ([(0, 0), (1, 0), (1, 1), (0, 1), (0.5, 1.6)], [(0, 1, 2, 3), (3, 2, 4)]),
        # [5, 3] unit square with one corner cut off
        "cut-corner": ([(0, 0), (1, 0), (1, 0.6), (0.6, 1), (0, 1), (1, 1)], [(0, 1, 2, 3, 4), (2, 5, 3)]),
        # [6, 4 x 6] regular hexagon inside a ring of six quadrilaterals
        "hexagon-ring": (hexa + [(2 * x, 2 * y) for x, y in hexa], [tuple(range(6))] + [(k, 6 + k, 6 + (k + 1) % 6, (k + 1) % 6) for k in range(6)]),
        # [8, 3 x 4] octagon inside a square
        "octagon": ([(1, 0), (2, 0), (3, 1), (3, 2), (2, 3), (1, 3), (0, 2), (0, 1), (0, 0), (3, 0), (3, 3), (0, 3)],
                    [tuple(range(8)), (8, 0, 7), (1, 9, 2), (3, 10, 4), (5, 11, 6)]),
        # [4, 4, 5] local refinement: the coarse cell has a hanging node on its left edge (five faces, two of them collinear)
        "hanging-node": ([(0, 0), (1, 0), (2, 0), (0, 0.5), (1, 0.5), (0, 1), (1, 1), (2, 1)], [(0, 1, 4, 3), (3, 4, 6, 5), (1, 2, 7, 6, 4)]),
        # [6, 4, 5] agglomerated cells: a non-convex L-shaped hexagon, a square, a rectangle with a hanging node
        "agglomerate": ([(0, 0), (2, 0), (3, 0), (2, 1), (3, 1), (1, 1), (0, 2), (1, 2), (3, 2)], [(0, 1, 3, 5, 7, 6), (1, 2, 4, 3), (5, 3, 4, 8, 7)]),
    }


def _poly_parts(pp, C19, args):
    """(xy 2 x N, counter-clockwise loops, grid or None) of a 'poly2d' description: a named shape, or a lattice of rectangles
    with some of them split into triangles (props.C15.mixed_grid; the loops are read off its incidences)."""
    if "shape" in args:
        xy, polys = _poly_shapes()[args["shape"]]
        return np.array(xy, dtype=float).T, [tuple(p) for p in polys], None
    from props import C15

    lat = args["lattice"]
    g0 = C15.mixed_grid(pp, lat["n"], lat["phys"], lat["split"])
    key = repr(lat)
    if key not in _LOOPS:  # the loops depend on the description only; the grid object is always a fresh one
        CF, fnodes = C19.topo(g0)
        _LOOPS[key] = [tuple(l) for l in C19.cell_loops_2d(CF, fnodes, np.array(g0.nodes, dtype=float))]
    return np.array(g0.nodes[:2], dtype=float), _LOOPS[key], g0


def build(pp, C19, family, args):
    """C19.build extended by 'poly2d' (polygons with different numbers of faces) and 'poly3d' (their prismatic extrusion)."""
    if family == "poly2d":
        xy, loops, g0 = _poly_parts(pp, C19, args)
        if g0 is not None and args["orient"] == "sorted":
            return g0  # props.C15.mixed_grid as it is
        return poly_grid(pp, xy, loops, args["orient"])
    if family == "poly3d":
        g2 = build(pp, C19, "poly2d", args)
        with warnings.catch_warnings():
            warnings.simplefilter("ignore")
            g3, _, _ = pp.grid_extrusion.extrude_grid(g2, np.array(args["z"], dtype=float))
        return g3
    return C19.build(pp, family, args)


def _loops_convex(nat, loops, eps):
    for vo in loops:
        Q = nat[:2, list(vo)]
        m = len(vo)
        for i in range(m):
            a, b, c = Q[:, i], Q[:, (i + 1) % m], Q[:, (i + 2) % m]
            if (b[0] - a[0]) * (c[1] - b[1]) - (b[1] - a[1]) * (c[0] - b[0]) < eps:
                return False
    return True


def poly_valid(pp, C19, case, nat):
    """requires for the polygonal families, checked on the natural-position nodes without porepy geometry: every cell is a simple
    polygon with positive area in the loop direction of the construction; convex (angles of 180 degrees at hanging nodes admitted)
    when the grid is not consistently oriented ('sorted*') or extruded -- porepy documents its general 2-D branch for consistently
    oriented grids only.  Extruded grids: the layers are images of the base under one affine map (checked), so cells are convex
    prisms with planar faces."""
    xy, loops, _ = _poly_parts(pp, C19, case["args"])
    n2 = xy.shape[1]
    if case["dim"] == 3:
        # nat must be A [x; y; z_k] for the recorded affine map A with det >= 0.2; the polygons are then judged in the base plane
        z = np.array(case["args"]["z"], dtype=float)
        if np.any(np.diff(z) <= 0) or z[0] < 0 or nat.shape[1] != n2 * z.size:
            return False
        X0 = np.vstack([np.tile(xy, (1, z.size)), np.repeat(z, n2)])
        A = np.array(case.get("A", np.eye(3)), dtype=float)
        if np.linalg.det(A) < 0.2 or np.max(np.abs(A @ X0 - nat)) > 1e-12 * (1 + np.max(np.abs(nat))):
            return False
        base = np.vstack([xy, np.zeros(n2)])
    else:
        if nat.shape[1] != n2 or np.any(nat[2] != 0.0):
            return False
        base = nat
    h = float(np.max(np.ptp(base[:2], axis=1))) or 1.0
    if not C19.polygons_valid(base, loops, 1e-3 * h, 1e-6 * h * h):
        return False
    if case["args"]["orient"].startswith("sorted") or case["dim"] == 3:
        if not _loops_convex(base, loops, -1e-12 * h * h):
            return False
    return True


def _poly_cases(pp, C19, rng, quick):
    """yield case dicts (keys family, args, dim, nodes, op, kind[, A]) of the polygonal families in natural position"""
    shapes = list(_poly_shapes())
    lattices = [
        {"n": [2, 1], "phys": [2.0, 1.0], "split": [[0, 0]]},
        {"n": [2, 2], "phys": [1.0, 1.0], "split": [[0, 0], [1, 0]]},
        {"n": [3, 2], "phys": [2.1, 1.3], "split": [[1, 0], [2, 1]]},
        {"n": [3, 3], "phys": [3.0, 3.0], "split": [[1, 1]]},
    ]
    if not quick:
        for nx, ny in itertools.product((1, 2, 3), repeat=2):
            if nx * ny == 1:
                continue
            while True:
                split = [[i, j] for j in range(ny) for i in range(nx) if rng.random() < 0.5]
                if 0 < len(split) < nx * ny:
                    break
            lattices.append({"n": [nx, ny], "phys": [round(rng.uniform(0.5, 2.0) * nx, 3), round(rng.uniform(0.5, 2.0) * ny, 3)], "split": split})
    meshes = [{"shape": s} for s in shapes] + [{"lattice": l} for l in lattices]
    ops2 = ("plain", "perturb0", "affine0", "scale0") if quick else ("plain", "perturb0", "perturb1", "perturb2", "affine0", "affine1", "scale0", "scale1")
    for k, mesh in enumerate(meshes):
        xy, _, _ = _poly_parts(pp, C19, {**mesh, "orient": "loops"})
        base = np.vstack([xy, np.zeros(xy.shape[1])])
        dd = np.linalg.norm(base[:, :, None] - base[:, None, :], axis=0)
        hmin = float(np.min(dd[dd > 0]))
        variants = [("plain", base)]
        for s in range(3):
            amp = (0.1, 0.25, 0.05)[s] * hmin
            pert = base.copy()
            for i in range(base.shape[1]):
                for d in range(2):
                    pert[d, i] += amp * rng.uniform(-1, 1) / math.sqrt(2)
            variants.append((f"perturb{s}", pert))
        for s in range(2):
            Aff = np.eye(3)
            Aff[0, 1], Aff[1, 0] = rng.uniform(-0.4, 0.4), rng.uniform(-0.4, 0.4)
            Aff[0, 0], Aff[1, 1] = rng.uniform(0.5, 1.5), rng.uniform(0.5, 1.5)
            if np.linalg.det(Aff) >= 0.2:
                variants.append((f"affine{s}", Aff @ base))
        variants += [("scale0", 1e-3 * base), ("scale1", 1e3 * base)]
        orients = ORIENTS if not quick else ("loops", "sorted") + (("cw",) if k % 3 == 0 else ("sorted-alt",) if k % 3 == 1 else ())
        for orient in orients:
            for op, nodes in variants:
                if op in ops2:
                    yield {"family": "poly2d", "args": {**mesh, "orient": orient}, "dim": 2, "nodes": nodes, "op": op, "kind": "poly"}
    # prismatic extrusions: cells with 5, 6, 7, 8, 10 faces in one 3-D grid, triangular / quadrilateral / polygonal faces
    meshes3 = ([({"shape": "house"}, [0.0, 1.0]), ({"lattice": lattices[0]}, [0.0, 0.5, 1.5])] if quick
               else [({"shape": s}, [0.0, 0.5, 1.5]) for s in shapes if s != "agglomerate"] + [({"lattice": l}, [0.0, 1.0]) for l in lattices[:6]])
    for k, (mesh, z) in enumerate(meshes3):
        for orient in (("loops", "sorted")[k % 2:][:1] if quick else ("loops", "sorted")):
            args = {**mesh, "orient": orient, "z": z}
            xy, _, _ = _poly_parts(pp, C19, args)
            X0 = np.vstack([np.tile(xy, (1, len(z))), np.repeat(np.array(z), xy.shape[1])])
            yield {"family": "poly3d", "args": args, "dim": 3, "nodes": X0, "op": "plain", "kind": "poly", "A": np.eye(3)}
            for s in range(1 if quick else 2):
                Aff = np.eye(3)
                for i in range(3):
                    for j in range(3):
                        if i != j:
                            Aff[i, j] = rng.uniform(-0.4, 0.4)
                    Aff[i, i] = rng.uniform(0.5, 1.5)
                if np.linalg.det(Aff) >= 0.2:
                    yield {"family": "poly3d", "args": args, "dim": 3, "nodes": Aff @ X0, "op": f"affine{s}", "kind": "poly", "A": Aff}


def _json_poly_case(case):
    out = {k: case[k] for k in ("family", "args", "dim", "op", "kind")}
    out["nodes"] = np.asarray(case["nodes"]).tolist()
    if "A" in case:
        out["A"] = np.asarray(case["A"]).tolist()
    return out


def _geometry(g):
    with warnings.catch_warnings():
        warnings.simplefilter("ignore")
        g.compute_geometry()
    return {k: np.array(getattr(g, k), dtype=float) for k in ("cell_volumes", "face_areas", "cell_centers", "face_centers", "face_normals")}


def compare(G0, G1, R, t, L, M):
    """ensures.  Returns list of (obligation, detail)."""
    bad = []
    tol = RTOL * (1.0 + M / L)
    for nm, label in (("cell_volumes", "cell volumes unchanged"), ("face_areas", "face areas unchanged")):
        a, b = G0[nm], G1[nm]
        if a.shape != b.shape or np.any(np.abs(a - b) > tol * np.maximum(np.abs(a), 1e-300)):
            k = int(np.argmax(np.abs(a - b))) if a.shape == b.shape else -1
            bad.append((f"compute_geometry: {label} by a rigid motion", f"index {k}: {a[k]!r} -> {b[k]!r}" if k >= 0 else "shape"))
    for nm, label in (("cell_centers", "cell centres move with the motion"), ("face_centers", "face centres move with the motion")):
        a, b = R @ G0[nm] + t[:, None], G1[nm]
        if a.shape != b.shape or np.any(np.abs(a - b) > tol * L):
            k = int(np.argmax(np.max(np.abs(a - b), axis=0))) if a.shape == b.shape else -1
            bad.append((f"compute_geometry: {label}", f"index {k}: expected {a[:, k]} got {b[:, k]}" if k >= 0 else "shape"))
    a, b = R @ G0["face_normals"], G1["face_normals"]
    sc = np.maximum(G0["face_areas"], 1e-300)
    if a.shape != b.shape or np.any(np.abs(a - b) > tol * sc[None, :]):
        k = int(np.argmax(np.max(np.abs(a - b) / sc[None, :], axis=0))) if a.shape == b.shape else -1
        bad.append(("compute_geometry: face normals rotate with the motion", f"face {k}: expected {a[:, k]} got {b[:, k]}" if k >= 0 else "shape"))
    return bad


def run_case(pp, C19, case, R, t):
    """requires (validity, as C19) + both runs + ensures.  -> ('skip'|'ok', violations)"""
    g = build(pp, C19, case["family"], case["args"])
    dim = case["dim"]
    nat = np.array(case["nodes"], dtype=float)
    CF, fnodes = C19.topo(g)
    h = float(np.max(np.ptp(nat, axis=1))) or 1.0
    if case["family"] in ("poly2d", "poly3d"):
        if "_admissible" not in case:  # does not depend on the motion: decided once per case object (never stored in the inputs)
            case["_admissible"] = poly_valid(pp, C19, case, nat)
        if not case["_admissible"]:
            return "skip", None
    elif dim == 2 and case["op"].startswith("dart"):
        # non-convex cells of consistently oriented grids: simple polygons (as in C19)
        loops = C19.cell_loops_2d(CF, fnodes, np.array(g.nodes, dtype=float))
        if loops is None or not C19.polygons_valid(nat, loops, 1e-3 * h, 1e-6 * h * h):
            return "skip", None
    elif dim < 3:
        ref = nat if case["op"].startswith("affine") else np.array(g.nodes, dtype=float)
        if not C19.cells_valid(dim, nat, CF, fnodes, 1e-6 * h * (h if dim == 2 else 1), ref):
            return "skip", None
    elif case["kind"] == "simplex":
        cn = np.array([sorted({int(v) for f in np.nonzero(CF[:, c])[0] for v in fnodes[f]}) for c in range(CF.shape[1])]).T
        _, vol0 = C19.tets_valid(np.array(g.nodes, float), cn, 1.0, -np.inf)
        ok, _ = C19.tets_valid(nat, cn, np.sign(vol0), 1e-7 * h ** 3)
        if not ok:
            return "skip", None
    R, t = np.array(R, float), np.array(t, float)
    if np.max(np.abs(R @ R.T - np.eye(3))) > 1e-14 or abs(np.linalg.det(R) - 1) > 1e-14:
        return "skip", None
    g.nodes = nat.copy()
    try:
        G0 = _geometry(g)
    except Exception:
        return "skip", None  # the reference position itself is C19's business
    g2 = build(pp, C19, case["family"], case["args"])
    g2.nodes = R @ nat + t[:, None]
    L = float(np.max(np.linalg.norm(nat - nat[:, [0]], axis=0))) or 1.0
    M = float(np.max(np.abs(g2.nodes)))
    try:
        G1 = _geometry(g2)
    except Exception as e:
        return "ok", [("compute_geometry: returns on a rigidly moved admissible grid", f"{type(e).__name__}: {e}")]
    return "ok", compare(G0, G1, R, t, L, M)


def run(rep):
    import porepy as pp
    from props import C19

    rep.under_contract("Grid.compute_geometry", "Grid._compute_geometry_1d", "Grid._compute_geometry_2d", "Grid._compute_geometry_3d",
                       "map_geometry.compute_tangent", "map_geometry.compute_normal")
    rep.assume("requires: admissible grid (non-degenerate convex cells, or simple polygons for the 2-D dart operation, checked "
               "independently as in C19) and a proper rotation "
               "(orthonormal to 1e-14, det=+1) built without porepy",
               "the reference geometry is the real function's output in natural position (relational property); its absolute "
               "correctness is C19's obligation",
               "requires (polygonal family): cells are simple polygons of positive area (convex, hanging nodes admitted, when the "
               "incidences are not consistently oriented node loops or the grid is extruded); the absolute geometry of these grids is "
               "checked by no property here, only its equivariance")
    quick = rep.tier == "quick"
    motions = _motions(rep.rng, quick, C19.rodrigues)
    ops_ok = (("plain", "perturb0", "affine0", "prism0", "dart0") if quick
              else ("plain", "perturb0", "perturb1", "perturb2", "affine0", "affine1", "prism0", "prism1", "dart0", "dart1", "dart2", "dart3"))
    with rep.sweep(
        "rigid-motion equivariance",
        rule="C19 grid family in natural position (plain | seeded perturbation | affine image | dart) x motions {2 near + 1 (2 thorough) "
             "far translations, axis-aligned proper rotations (6 quick / all 24 thorough), seeded random rotations (3/10), one random "
             "rotation with a far translation, near-identity tilts 1e-3..1e-9 rad about x,y,z,(1,1,1), near-quarter-turns about x and "
             "y}; non-trivial = rotation differs from the identity; distinct by (family, args, operation, motion)",
        bound="<= 3 cells per direction (20 cells for the small-cell 1-D grid); 17 (quick) / 58 (thorough) motions per grid",
        exhaustive=False,
    ) as sw:
        seen = set()
        for case in C19._cases(pp, rep.rng, quick):
            if case["emb"] != "id" or case["op"] not in ops_ok or "error" in case:
                continue
            ck = (case["family"], repr(case["args"])[:200], case["op"])
            if ck in seen:
                continue
            seen.add(ck)
            if quick and case["dim"] == 3 and case["op"] != "plain" and len(case["nodes"][0]) > 40:
                continue
            for tag, cls, R, t in motions:
                status, bad = run_case(pp, C19, case, R, t)
                if status == "skip":
                    sw.skip()
                    continue
                sw.case(ck + (tag,), nontrivial=cls != "translation",
                        sample={"family": case["family"], "args": case["args"] if len(repr(case["args"])) < 200 else "...", "op": case["op"], "motion": tag})
                for ob, detail in bad:
                    sig = f"{case['dim']}-d {case['family']} {case['op'].rstrip('0123456789')} {cls}"
                    rep.violation(ob, sig, inputs={**C19._json_case(case), "R": np.asarray(R).tolist(), "t": np.asarray(t).tolist(), "motion": tag},
                                  detail=detail, confirmed=True)

    rep.trust("pp.grid_extrusion.extrude_grid only as a generator of the topology of the extruded polygonal grids")
    with rep.sweep(
        "rigid-motion equivariance, cells with different numbers of faces",
        rule="hand-built polygonal 2-D grids whose cells differ in their number of faces (quadrilateral + triangle, pentagon + triangle, "
             "hexagon in a ring of quadrilaterals, octagon + triangles, coarse cell with a hanging node, agglomerated L-shaped cell; "
             "lattices of rectangles with some of them split into triangles, props.C15.mixed_grid) x incidence convention (consistently "
             "oriented counter-clockwise / clockwise loops | sorted face nodes with the two sign assignments -> convex-cell branch) x node "
             "operation (plain | seeded perturbation of all nodes | in-plane affine image | scaled by 1e-3, 1e3), and their prismatic "
             "extrusions to 3-D (plain | 3-D affine image), x the same motions; non-trivial = rotation differs from the identity; "
             "distinct by (mesh, convention, operation, motion)",
        bound="<= 13 cells per 2-D grid, <= 8 faces per 2-D cell, <= 2 layers of prisms; 10 (quick) / 18 (thorough) meshes; 17 / 58 motions per grid",
        exhaustive=False,
    ) as sw:
        for case in _poly_cases(pp, C19, rep.rng, quick):
            ck = (case["family"], repr(case["args"]), case["op"])
            for tag, cls, R, t in motions:
                status, bad = run_case(pp, C19, case, R, t)
                if status == "skip":
                    sw.skip()
                    continue
                sw.case(ck + (tag,), nontrivial=cls != "translation",
                        sample={"family": case["family"], "args": case["args"], "op": case["op"], "motion": tag})
                for ob, detail in bad:
                    sig = f"{case['dim']}-d {case['family']} {case['args']['orient']} {case['op'].rstrip('0123456789')} {cls}"
                    rep.violation(ob, sig, inputs={**_json_poly_case(case), "R": np.asarray(R).tolist(), "t": np.asarray(t).tolist(), "motion": tag},
                                  detail=detail, confirmed=True)


def replay(data):
    import porepy as pp
    from props import C19

    case = data["inputs"]
    status, bad = run_case(pp, C19, case, case["R"], case["t"])
    print("replay:", status, bad)
    return status == "ok" and any(ob == data["obligation"] for ob, _ in bad)
