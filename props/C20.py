"""C20 -- grid geometry is equivariant under rigid motions.

Tier B (run-time contract sweep).  Relational postcondition on the real ``Grid.compute_geometry``: for a grid with
nodes X and the same grid with nodes R X + t (R a proper rotation, t a translation)

   V' = V,  area' = area,  x_c' = R x_c + t,  x_f' = R x_f + t,  n' = R n      (sign included: the sign of a
   normal is fixed by the cell_faces convention, so it must rotate with the grid)

The reference run is the grid in its natural position (1-D on the x-axis, 2-D in the xy-plane); R X + t embeds
1-D and 2-D grids in arbitrary lines / planes of 3-D space, which exercises ``map_geometry.compute_tangent`` (1-D
normals) and the plane-normal / ``compute_normal`` paths of ``_compute_geometry_2d``.

Grid family: the C19 family (``props.C19._cases`` in natural position: Cart/Tensor/structured and Delaunay simplex
grids, 1..3 cells per direction, clockwise-cell and reversed-face-node variants -> convex fallback branch, seeded
convexity-preserving perturbations, affine images, perturbed hexahedra, and the later C19 additions: cell sizes
1e-5 .. 1e4, 2-D unions of face-disconnected parts with mirrored (oppositely wound) parts incl. exactly mirrored halves,
TriangleGrid patches with a mirror image, 2-D Cart/Tensor grids with a non-convex 'dart' cell).  Motions: pure
translations (incl. far ones, |t| = 1e2 .. 4e4 with unit-spacing grids), the 24 axis-aligned proper rotations, seeded
random rotations (one of them combined with a far translation), near-identity rotations (1e-3 .. 1e-9 rad),
near-quarter-turns, each combined with a translation.  The rotation matrices are built here (Rodrigues / signed
permutations), not with porepy.

Tolerance: 1e-10 * (1 + M / L) relative, M = largest coordinate magnitude after the motion, L = grid diameter
(differences of coordinates of size M lose M/L digits; nothing else is tolerated).

Detection power (scratch copy of /repo/src, POREPY_SRC, one mutant at a time):
  * map_geometry.compute_tangent: ``tangent / norm(tangent)`` -> ``tangent / norm(tangent[:2])`` (normalised in the xy-plane only)
      -> exit 1, "face normals rotate with the motion" (1-D grids, axis-aligned / random / near-quarter-turn motions)
  * grid.py _compute_geometry_2d: ``return plane_normal / len_normal`` -> ``[0, 0, sign(plane_normal[2])]`` (right only in the xy-plane)
      -> exit 1, volumes / centres / normals obligations (2-D grids, every rotation out of the plane)
  * grid.py _compute_geometry_1d: ``vn = v + nrm(v) * n * 0.001`` -> only the x-component of n used in the flip decision
      -> exit 1, "face normals rotate with the motion" (1-D grids rotated away from the x-axis)
  * grid.py _compute_geometry_2d: ``cz = bincount(cellno, weights=face_centers[2, faceno])`` -> ``face_centers[0, faceno]``
      -> exit 1, cell centres / normals obligations (2-D embedded grids)
  * map_geometry.compute_tangent: ``argmax(sum(tangent**2, axis=0))`` -> ``argmax(abs(tangent[0]))`` NOT caught: equivalent for this
    property (any non-zero node offset is a valid tangent and the sign is repaired by _compute_geometry_1d)
Seeded changes detected through the later additions:
  * map_geometry.compute_normal: collinearity tolerance scaled with |pts| instead of |pts - centre|
      -> exit 1, "returns on a rigidly moved admissible grid" (plane-fitting grids -- reversed face nodes, mirrored halves --
         under the far translations)
  * grid.py _compute_geometry_2d orientation check 2/3: ``len_normal < 1e-5 mean(area)^2`` -> ``len_normal == 0``
      -> exit 1, "face normals rotate with the motion" (exactly mirrored halves rotated into a non-coordinate plane)
"""
from __future__ import annotations

import itertools
import math
import warnings

import numpy as np

META = {
    "level": "exploration",
    "engine": "sweep",
    "technique": "run-time contract sweep (bounded stand-in for deduction): relational postcondition geometry(R X + t) = R geometry(X) + t "
                 "on the real Grid.compute_geometry over an enumerated family of grids x rigid motions",
    "text": "Bounded assurance only: volumes/areas invariant and centres/normals co-rotating for every enumerated grid (C19 family) and "
            "every enumerated motion (translations up to 1e3-4e4 grid diameters from the origin, all 24 axis-aligned rotations, seeded "
            "random, near-identity and near-quarter-turn rotations), including 1-D and 2-D grids embedded in 3-D, grids with cells of "
            "size 1e-5..1e4, 2-D grids with mirrored face-disconnected parts and 2-D grids with one non-convex cell. Improper motions "
            "(reflections) are outside the statement.",
    "note": "the reference is the same real function on the grid in natural position (the property is relational); rotation matrices are "
            "generated independently of porepy and checked orthonormal to 1e-14; tolerance 1e-10*(1+M/L)",
}

RTOL = 1e-10


def _axis_rotations():
    out = []
    for perm in itertools.permutations(range(3)):
        for sg in itertools.product((1.0, -1.0), repeat=3):
            R = np.zeros((3, 3))
            for i, p in enumerate(perm):
                R[i, p] = sg[i]
            if abs(np.linalg.det(R) - 1.0) < 1e-12:
                out.append(R)
    return out


def _motions(rng, quick, rodrigues):
    """(tag, class, R, t)"""
    I = np.eye(3)
    ms = [("t(1,-2,3)", "translation", I, np.array([1.0, -2.0, 3.0])),
          ("t(100,-50,25)", "translation", I, np.array([100.0, -50.0, 25.0]))]
    ax = _axis_rotations()
    sel = ax if not quick else [ax[k] for k in (1, 5, 8, 13, 18, 22)]
    for k, R in enumerate(sel):
        t = np.zeros(3) if k % 2 == 0 else np.array([0.5, 2.0, -1.5])
        ms.append((f"axis{k}:" + "".join(str(int(v)) for v in R.ravel()).replace("-1", "m"), "axis-aligned", R, t))
    for k in range(3 if quick else 10):
        R = rodrigues([rng.gauss(0, 1) for _ in range(3)], rng.uniform(0.05, math.pi))
        t = np.array([rng.uniform(-5, 5) for _ in range(3)])
        ms.append((f"rand{k}", "random", R, t))
    small = (1e-3, 1e-6, 1e-9) if not quick else (1e-6,)
    for a in small:
        for axis, nm in (([1, 0, 0], "x"), ([0, 1, 0], "y"), ([0, 0, 1], "z"), ([1, 1, 1], "d")):
            if quick and nm in ("z", "d"):
                continue
            ms.append((f"tilt{a:g}{nm}", "near-identity", rodrigues(axis, a), np.array([0.0, 0.0, 0.25])))
    for a in ((1e-7,) if quick else (1e-4, 1e-7, -1e-7)):
        ms.append((f"quarter-y{a:g}", "near-quarter-turn", rodrigues([0, 1, 0], math.pi / 2 - a), np.zeros(3)))
        ms.append((f"quarter-x{a:g}", "near-quarter-turn", rodrigues([1, 0, 0], math.pi / 2 + a), np.array([1.0, 1.0, 1.0])))
    # far from the origin (e.g. georeferenced coordinates): |t| = 1e3 .. 1e4 times the size of the unit-spacing grids
    ms.append(("t(2e3,-3e3,1.5e3)", "translation", I, np.array([2000.0, -3000.0, 1500.0])))
    R = rodrigues([rng.gauss(0, 1) for _ in range(3)], rng.uniform(0.3, 2.8))
    ms.append(("far-rand(-4e3,1e3,2.5e3)", "far random", R, np.array([-4000.0, 1000.0, 2500.0])))
    if not quick:
        ms.append(("t(1e4,2e4,-3e4)", "translation", I, np.array([1.0e4, 2.0e4, -3.0e4])))
        ms.append(("far-axis(0,-2e4,5e3)", "far axis-aligned", _axis_rotations()[9], np.array([0.0, -2.0e4, 5.0e3])))
    return ms


def _geometry(g):
    with warnings.catch_warnings():
        warnings.simplefilter("ignore")
        g.compute_geometry()
    return {k: np.array(getattr(g, k), dtype=float) for k in ("cell_volumes", "face_areas", "cell_centers", "face_centers", "face_normals")}


def compare(G0, G1, R, t, L, M):
    """ensures.  Returns list of (obligation, detail)."""
    bad = []
    tol = RTOL * (1.0 + M / L)
    for nm, label in (("cell_volumes", "cell volumes unchanged"), ("face_areas", "face areas unchanged")):
        a, b = G0[nm], G1[nm]
        if a.shape != b.shape or np.any(np.abs(a - b) > tol * np.maximum(np.abs(a), 1e-300)):
            k = int(np.argmax(np.abs(a - b))) if a.shape == b.shape else -1
            bad.append((f"compute_geometry: {label} by a rigid motion", f"index {k}: {a[k]!r} -> {b[k]!r}" if k >= 0 else "shape"))
    for nm, label in (("cell_centers", "cell centres move with the motion"), ("face_centers", "face centres move with the motion")):
        a, b = R @ G0[nm] + t[:, None], G1[nm]
        if a.shape != b.shape or np.any(np.abs(a - b) > tol * L):
            k = int(np.argmax(np.max(np.abs(a - b), axis=0))) if a.shape == b.shape else -1
            bad.append((f"compute_geometry: {label}", f"index {k}: expected {a[:, k]} got {b[:, k]}" if k >= 0 else "shape"))
    a, b = R @ G0["face_normals"], G1["face_normals"]
    sc = np.maximum(G0["face_areas"], 1e-300)
    if a.shape != b.shape or np.any(np.abs(a - b) > tol * sc[None, :]):
        k = int(np.argmax(np.max(np.abs(a - b) / sc[None, :], axis=0))) if a.shape == b.shape else -1
        bad.append(("compute_geometry: face normals rotate with the motion", f"face {k}: expected {a[:, k]} got {b[:, k]}" if k >= 0 else "shape"))
    return bad


def run_case(pp, C19, case, R, t):
    """requires (validity, as C19) + both runs + ensures.  -> ('skip'|'ok', violations)"""
    g = C19.build(pp, case["family"], case["args"])
    dim = case["dim"]
    nat = np.array(case["nodes"], dtype=float)
    CF, fnodes = C19.topo(g)
    h = float(np.max(np.ptp(nat, axis=1))) or 1.0
    if dim == 2 and case["op"].startswith("dart"):
        # non-convex cells of consistently oriented grids: simple polygons (as in C19)
        loops = C19.cell_loops_2d(CF, fnodes, np.array(g.nodes, dtype=float))
        if loops is None or not C19.polygons_valid(nat, loops, 1e-3 * h, 1e-6 * h * h):
            return "skip", None
    elif dim < 3:
        ref = nat if case["op"].startswith("affine") else np.array(g.nodes, dtype=float)
        if not C19.cells_valid(dim, nat, CF, fnodes, 1e-6 * h * (h if dim == 2 else 1), ref):
            return "skip", None
    elif case["kind"] == "simplex":
        cn = np.array([sorted({int(v) for f in np.nonzero(CF[:, c])[0] for v in fnodes[f]}) for c in range(CF.shape[1])]).T
        _, vol0 = C19.tets_valid(np.array(g.nodes, float), cn, 1.0, -np.inf)
        ok, _ = C19.tets_valid(nat, cn, np.sign(vol0), 1e-7 * h ** 3)
        if not ok:
            return "skip", None
    R, t = np.array(R, float), np.array(t, float)
    if np.max(np.abs(R @ R.T - np.eye(3))) > 1e-14 or abs(np.linalg.det(R) - 1) > 1e-14:
        return "skip", None
    g.nodes = nat.copy()
    try:
        G0 = _geometry(g)
    except Exception:
        return "skip", None  # the reference position itself is C19's business
    g2 = C19.build(pp, case["family"], case["args"])
    g2.nodes = R @ nat + t[:, None]
    L = float(np.max(np.linalg.norm(nat - nat[:, [0]], axis=0))) or 1.0
    M = float(np.max(np.abs(g2.nodes)))
    try:
        G1 = _geometry(g2)
    except Exception as e:
        return "ok", [("compute_geometry: returns on a rigidly moved admissible grid", f"{type(e).__name__}: {e}")]
    return "ok", compare(G0, G1, R, t, L, M)


def run(rep):
    import porepy as pp
    from props import C19

    rep.under_contract("Grid.compute_geometry", "Grid._compute_geometry_1d", "Grid._compute_geometry_2d", "Grid._compute_geometry_3d",
                       "map_geometry.compute_tangent", "map_geometry.compute_normal")
    rep.assume("requires: admissible grid (non-degenerate convex cells, or simple polygons for the 2-D dart operation, checked "
               "independently as in C19) and a proper rotation "
               "(orthonormal to 1e-14, det=+1) built without porepy",
               "the reference geometry is the real function's output in natural position (relational property); its absolute "
               "correctness is C19's obligation")
    quick = rep.tier == "quick"
    motions = _motions(rep.rng, quick, C19.rodrigues)
    ops_ok = (("plain", "perturb0", "affine0", "prism0", "dart0") if quick
              else ("plain", "perturb0", "perturb1", "perturb2", "affine0", "affine1", "prism0", "prism1", "dart0", "dart1", "dart2", "dart3"))
    with rep.sweep(
        "rigid-motion equivariance",
        rule="C19 grid family in natural position (plain | seeded perturbation | affine image | dart) x motions {2 near + 1 (2 thorough) "
             "far translations, axis-aligned proper rotations (6 quick / all 24 thorough), seeded random rotations (3/10), one random "
             "rotation with a far translation, near-identity tilts 1e-3..1e-9 rad about x,y,z,(1,1,1), near-quarter-turns about x and "
             "y}; non-trivial = rotation differs from the identity; distinct by (family, args, operation, motion)",
        bound="<= 3 cells per direction (20 cells for the small-cell 1-D grid); 17 (quick) / 58 (thorough) motions per grid",
        exhaustive=False,
    ) as sw:
        seen = set()
        for case in C19._cases(pp, rep.rng, quick):
            if case["emb"] != "id" or case["op"] not in ops_ok or "error" in case:
                continue
            ck = (case["family"], repr(case["args"])[:200], case["op"])
            if ck in seen:
                continue
            seen.add(ck)
            if quick and case["dim"] == 3 and case["op"] != "plain" and len(case["nodes"][0]) > 40:
                continue
            for tag, cls, R, t in motions:
                status, bad = run_case(pp, C19, case, R, t)
                if status == "skip":
                    sw.skip()
                    continue
                sw.case(ck + (tag,), nontrivial=cls != "translation",
                        sample={"family": case["family"], "args": case["args"] if len(repr(case["args"])) < 200 else "...", "op": case["op"], "motion": tag})
                for ob, detail in bad:
                    sig = f"{case['dim']}-d {case['family']} {case['op'].rstrip('0123456789')} {cls}"
                    rep.violation(ob, sig, inputs={**C19._json_case(case), "R": np.asarray(R).tolist(), "t": np.asarray(t).tolist(), "motion": tag},
                                  detail=detail, confirmed=True)


def replay(data):
    import porepy as pp
    from props import C19

    case = data["inputs"]
    status, bad = run_case(pp, C19, case, case["R"], case["t"])
    print("replay:", status, bad)
    return status == "ok" and any(ob == data["obligation"] for ob, _ in bad)
