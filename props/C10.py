"""C10 — the simulation driver keeps solution state consistent across failures.

Tier Ps: the real run_time_dependent_model, NewtonSolver.solve / iteration, the real SolutionStrategy hooks
         (before_nonlinear_loop, after_nonlinear_iteration, after_nonlinear_convergence, after_nonlinear_failure,
         update_solution), the real EquationSystem storage (C08) and the real TimeManager run on a minimal model whose
         linear solves return fresh *symbolic* increments and whose convergence check returns fresh *symbolic* flags: every
         failure-injection pattern (which solve diverges or stalls, at which iteration) is a path of one symbolic run.
         Bounds: schedule [0, 1] with dt_init 1/2 (<= 2 accepted steps), <= 2 Newton iterations per solve, recomputation
         budget 2, storage depths (time steps, iterates) in {(1,1), (2,2)}, 3 dofs.  Obligations at every hook: exactly one
         of convergence / failure hook per solve and the returned flag matches; after convergence ts[0] equals the converged
         iterate and ts[1] the previous ts[0]; after failure it[0] equals ts[0] and the clock is the last accepted time; at
         the end the clock is the final time and the recorded accepted solutions are the ts[0] snapshots.
Tier B : a real nonlinear SinglePhaseFlow model (compressible fluid) with the real linear solver, failures injected through
         check_convergence at enumerated (solve, iteration) positions; the same clauses on floating-point vectors.
"""
from __future__ import annotations

META = {
    "level": "other",
    "engine": "pse",
    "technique": "contract-based verification by symbolic execution of the real driver, Newton solver, solution-strategy hooks and storage with symbolic increments and symbolic convergence outcomes (all failure patterns in one run, bounded step/iteration counts); native failure-injection sweep on a real flow model as stand-in",
    "text": "Tier Ps: all failure/convergence patterns within the bounds (<= 2 accepted steps, <= 2 iterations per solve, recomputation budget 2, "
            "storage depth 1-2) are explored symbolically on the real driver code; the hook postconditions of the statement are discharged on every path. "
            "Tier B: enumerated injection patterns on a real SinglePhaseFlow model. Counts are bounded, hence level 'other'.",
    "note": "stubs: assemble_linear_system / solve_linear_system (fresh symbolic increment), check_convergence (fresh symbolic flags), data saving and derived-quantity "
            "updates (no-ops); TimeManager with concrete parameters (its own behaviour is C09); progress bars off",
}

import itertools
import warnings

import numpy as np
import z3

from engine import shims, sym
from engine.arrays import SymArray
from engine.harness import run_case
from engine.sym import SymBool, explore

NDOF = 3
SYMBOLIC_SOLVES = 3  # solves with arbitrary (symbolic) convergence outcomes; later solves converge at their first iteration


def _eq(a, b):
    """SymBool: two length-NDOF arrays (SymArray or ndarray) are entrywise equal"""
    ts = []
    for k in range(NDOF):
        x = a.elem(k) if isinstance(a, SymArray) else sym.rterm(a[k])
        y = b.elem(k) if isinstance(b, SymArray) else sym.rterm(b[k])
        ts.append(x == y)
    return SymBool(z3.And(*ts))


def _mini_model(pp, ctx, depth_ts, depth_it, max_iter):
    g = pp.CartGrid([NDOF])
    g.compute_geometry()
    mdg = pp.MixedDimensionalGrid()
    mdg.add_subdomains(g)

    class Stats:
        num_iteration = 0
        nonlinear_increment_norms: list = []

        def reset(self):
            self.num_iteration = 0

    class Mini(pp.SolutionStrategy):
        def __init__(self):
            self.mdg = mdg
            self.equation_system = pp.ad.EquationSystem(mdg)
            self.equation_system.create_variables("u", subdomains=[g])
            self.time_manager = pp.TimeManager(schedule=[0, 1], dt_init=0.5, dt_min_max=(0.05, 1.0), iter_max=max_iter, iter_optimal_range=(1, max_iter),
                                               recomp_factor=0.5, recomp_max=2, constant_dt=False)
            self.ad_time_step = pp.ad.Scalar(self.time_manager.dt)
            self.nonlinear_solver_statistics = Stats()
            self.convergence_status = False
            self.params = {}
            self.ghost = {"accepted": [], "events": [], "solves": 0}
            self._ctx = ctx

        time_step_indices = property(lambda self: np.arange(depth_ts))
        iterate_indices = property(lambda self: np.arange(depth_it))

        # ---- stubs (not under contract here)
        def update_time_dependent_ad_arrays(self):
            pass

        def update_derived_quantities(self):
            pass

        def save_data_time_step(self):
            pass

        def _is_nonlinear_problem(self):
            return True

        def before_nonlinear_iteration(self):
            pass

        def assemble_linear_system(self):
            pass

        def solve_linear_system(self):
            return SymArray.fresh("incr", NDOF, "real")

        def check_convergence(self, nonlinear_increment, residual, reference_residual, nl_params):
            if self.ghost["solves"] > SYMBOLIC_SOLVES:
                return True, False  # bound: only the first SYMBOLIC_SOLVES solves have arbitrary outcomes
            conv = self._ctx.bool("converged")
            div = self._ctx.bool("diverged")
            c = bool(conv)
            d = False if c else bool(div)
            return c, d

        def after_simulation(self):
            pass

        # ---- hooks under contract: real implementation + postconditions
        def before_nonlinear_loop(self):
            self.ghost["solves"] += 1
            self.ghost["hook_calls"] = 0
            self.ghost["ts0_at_start"] = self.equation_system.get_variable_values(time_step_index=0)
            self.ghost["time_at_start"] = self.time_manager.time
            super().before_nonlinear_loop()

        def after_nonlinear_convergence(self):
            c = self._ctx
            es = self.equation_system
            it0 = es.get_variable_values(iterate_index=0)
            ts0_old = es.get_variable_values(time_step_index=0)
            t_acc = self.time_manager.time
            super().after_nonlinear_convergence()
            self.ghost["hook_calls"] += 1
            self.ghost["last"] = "conv"
            c.prove("after convergence: the most recent time-step values equal the converged iterate", _eq(es.get_variable_values(time_step_index=0), it0))
            if depth_ts > 1:
                c.prove("after convergence: the second time-step slot holds the previously accepted solution", _eq(es.get_variable_values(time_step_index=1), ts0_old))
            c.prove("after convergence: the convergence flag of the model is set", self.convergence_status is True)
            c.prove("after convergence: the clock stays at the accepted time", self.time_manager.time == t_acc)
            self.ghost["accepted"].append((t_acc, es.get_variable_values(time_step_index=0)))
            self._history(c, "after convergence")

        def _history(self, c, when):
            """the whole time-step history (every stored slot, not only the first two) is the sequence of accepted solutions"""
            H = [self.ghost["init"]] + [a[1] for a in self.ghost["accepted"]]
            es = self.equation_system
            for k in range(min(depth_ts, len(H))):
                try:
                    got = es.get_variable_values(time_step_index=k)
                except (KeyError, ValueError, IndexError) as e:
                    c.prove(f"{when}: time-step slot {k} is stored once {k + 1} solutions (incl. the initial one) exist", False)
                    continue
                c.prove(f"{when}: time-step slot {k} holds the accepted solution {k} steps back", _eq(got, H[-1 - k]))

        def after_nonlinear_failure(self):
            c = self._ctx
            es = self.equation_system
            ts0 = es.get_variable_values(time_step_index=0)
            super().after_nonlinear_failure()
            self.ghost["hook_calls"] += 1
            self.ghost["last"] = "fail"
            c.prove("after failure: the current iterate is reset to the last accepted time-step values", _eq(es.get_variable_values(iterate_index=0), ts0))
            c.prove("after failure: the time-step values are untouched", _eq(es.get_variable_values(time_step_index=0), self.ghost["ts0_at_start"]))
            last_t = self.ghost["accepted"][-1][0] if self.ghost["accepted"] else 0
            c.prove("after failure: the clock is back at the last accepted time", abs(float(self.time_manager.time) - float(last_t)) <= 1e-12)
            c.trace.append(("failure clock", float(self.time_manager.time), float(last_t)))
            self._history(c, "after failure")

    m = Mini()
    init = SymArray.fresh("u0", NDOF, "real")
    m.equation_system.set_variable_values(init, time_step_index=0)
    m.equation_system.set_variable_values(init, iterate_index=0)
    m.ghost["init"] = init
    return m


def case_driver(pp, depth_ts, depth_it, max_iter):
    def run(ctx):
        m = _mini_model(pp, ctx, depth_ts, depth_it, max_iter)
        solver_holder = {}

        class Solver(pp.NewtonSolver):
            def solve(self_s, model):
                r = super().solve(model)
                ctx.prove("solve: exactly one of after_nonlinear_convergence / after_nonlinear_failure was called", model.ghost["hook_calls"] == 1)
                ctx.prove("solve: the returned flag says which one", (r is True and model.ghost["last"] == "conv") or (r is False and model.ghost["last"] == "fail"))
                ctx.prove("solve: at most max_iterations + 1 Newton iterations", model.nonlinear_solver_statistics.num_iteration <= max_iter + 1)
                return r

        try:
            with warnings.catch_warnings():
                warnings.simplefilter("ignore")
                pp.run_time_dependent_model(m, {"prepare_simulation": False, "max_iterations": max_iter, "nonlinear_solver": Solver, "progressbars": False,
                                                "nl_convergence_tol_res": np.inf, "nl_divergence_tol": np.inf})
        except ValueError as e:
            ctx.prove("the run aborts only when the recomputation budget is exhausted or the minimal step is reached (time manager contract)",
                      ("recomputing attempts" in str(e)) or ("minimum admissible" in str(e)) or ("dt_min" in str(e)))
            return "aborted"
        tm = m.time_manager
        ctx.prove("end of run: the clock is at the final time", abs(float(tm.time) - 1.0) <= 1e-10)
        acc = m.ghost["accepted"]
        ctx.prove("end of run: at least one step was accepted and accepted times strictly increase up to the final time",
                  len(acc) >= 1 and all(a[0] < b[0] for a, b in zip(acc, acc[1:])) and abs(float(acc[-1][0]) - 1.0) <= 1e-10)
        es = m.equation_system
        ctx.prove("end of run: the stored most recent time-step values are the last accepted solution", _eq(es.get_variable_values(time_step_index=0), acc[-1][1]))
        if depth_ts > 1:
            prev = acc[-2][1] if len(acc) >= 2 else m.ghost["init"]
            ctx.prove("end of run: the time-step history holds the sequence of accepted solutions (slot 1 = the one before the last)", _eq(es.get_variable_values(time_step_index=1), prev))
        return "ok"

    return run


# ----------------------------------------------------------------------------- tier B


def _sweep(rep, pp):
    from porepy.applications.md_grids.model_geometries import SquareDomainOrthogonalFractures
    from porepy.models.fluid_mass_balance import SinglePhaseFlow

    quick = rep.tier == "quick"
    rng = rep.rng

    def make(pattern, depth, depth_it=None):
        depth_it = depth if depth_it is None else depth_it

        class M(SquareDomainOrthogonalFractures, SinglePhaseFlow):
            time_step_indices = property(lambda self: np.arange(depth))
            iterate_indices = property(lambda self: np.arange(depth_it))

            def _history(self, when):
                """every stored time-step slot holds the accepted solution that many steps back (initial values before that)"""
                g = self._ghost
                es = self.equation_system
                H = g["init_slots"][::-1] + [a[1] for a in g["accepted"]]
                for k in range(depth):
                    try:
                        got = es.get_variable_values(time_step_index=k)
                    except Exception as e:  # noqa
                        g["bad"].append((f"{when}: the whole time-step history is the sequence of accepted solutions", f"slot {k} not stored ({type(e).__name__})"))
                        continue
                    if not np.array_equal(got, H[-1 - k]):
                        g["bad"].append((f"{when}: the whole time-step history is the sequence of accepted solutions", f"slot {k} after solve {g['solves']}"))

            def bc_values_pressure(self, bg):
                vals = np.zeros(bg.num_cells)
                vals[self.domain_boundary_sides(bg).east] = 1.0e5
                return vals

            def check_convergence(self, nonlinear_increment, residual, reference_residual, nl_params):
                g = self._ghost
                key = (g["solves"], self.nonlinear_solver_statistics.num_iteration)
                act = pattern.get(key)
                if act == "diverge":
                    return False, True
                if act == "stall":
                    return False, False
                return super().check_convergence(nonlinear_increment, residual, reference_residual, nl_params)

            def before_nonlinear_loop(self):
                if self._ghost["solves"] == 0:
                    self._ghost["init_slots"] = [self.equation_system.get_variable_values(time_step_index=k) for k in range(depth)]
                self._ghost["solves"] += 1
                self._ghost["ts0_start"] = self.equation_system.get_variable_values(time_step_index=0)
                super().before_nonlinear_loop()

            def after_nonlinear_convergence(self):
                es = self.equation_system
                it0 = es.get_variable_values(iterate_index=0)
                old = es.get_variable_values(time_step_index=0)
                t = float(self.time_manager.time)
                super().after_nonlinear_convergence()
                g = self._ghost
                g["calls"].append("conv")
                if not np.array_equal(es.get_variable_values(time_step_index=0), it0):
                    g["bad"].append(("after every converged step the stored most-recent time-step values equal the converged iterate", f"solve {g['solves']}"))
                if depth > 1 and not np.array_equal(es.get_variable_values(time_step_index=1), old):
                    g["bad"].append(("after a converged step the second time-step slot holds the previously accepted solution", f"solve {g['solves']}"))
                g["accepted"].append((t, es.get_variable_values(time_step_index=0)))
                self._history("after a converged step")

            def after_nonlinear_failure(self):
                es = self.equation_system
                ts0 = es.get_variable_values(time_step_index=0)
                super().after_nonlinear_failure()
                g = self._ghost
                g["calls"].append("fail")
                if not np.array_equal(es.get_variable_values(iterate_index=0), ts0):
                    g["bad"].append(("after every failed step the current iterate is reset to the last accepted time-step values", f"solve {g['solves']}"))
                if not np.array_equal(es.get_variable_values(time_step_index=0), g["ts0_start"]):
                    g["bad"].append(("a failed step leaves the time-step values untouched", f"solve {g['solves']}"))
                last = g["accepted"][-1][0] if g["accepted"] else 0.0
                if abs(float(self.time_manager.time) - last) > 1e-12:
                    g["bad"].append(("after a failed step the clock is back at the last accepted time", f"time {self.time_manager.time} vs {last}"))
                self._history("after a failed step")

        fluid = pp.FluidComponent(compressibility=1e-6, density=1000.0, viscosity=1e-3)
        tm = pp.TimeManager(schedule=[0, 1.0], dt_init=0.5, dt_min_max=(0.01, 1.0), iter_max=8, iter_optimal_range=(2, 5), recomp_factor=0.5, recomp_max=3, constant_dt=False)
        m = M({"material_constants": {"fluid": fluid}, "time_manager": tm, "fracture_indices": [0], "cartesian": True, "times_to_export": []})
        m._ghost = {"solves": 0, "calls": [], "bad": [], "accepted": []}
        return m

    with rep.sweep("failure injection on a real flow model",
                   rule="compressible SinglePhaseFlow on the unit square with one fracture (Cartesian), schedule [0,1], dt_init 1/2, adaptive stepping; injection patterns = "
                        "subsets of {solve 1..4} x {diverge at iteration 1, stall on all iterations, diverge at iteration 2}, within the recomputation budget; storage "
                        "depths (time steps / iterates) 1/1, 2/2 and 3/1; nontrivial = at least one injected failure; distinct by (pattern, depth)", bound="<= 2 injected failures among the first 4 solves",
                   exhaustive=True) as sw:
        acts = ["diverge1", "stall", "diverge2"]
        pats = [{}]
        for s in range(1, 5):
            for a in acts:
                pats.append({s: a})
        for s1, s2 in itertools.combinations(range(1, 5), 2):
            for a1, a2 in (("diverge1", "diverge1"), ("stall", "diverge2")) if quick else itertools.product(acts, repeat=2):
                pats.append({s1: a1, s2: a2})
        if quick:
            pats = pats[:7] + rng.sample(pats[7:13], 3) + rng.sample(pats[13:], 4)
        for pat in pats:
            for depth, depth_it in ((1, 1), (2, 2), (3, 1)):
                pattern = {}
                for s, a in pat.items():
                    if a == "diverge1":
                        pattern[(s, 1)] = "diverge"
                    elif a == "diverge2":
                        pattern[(s, 2)] = "diverge"
                        pattern[(s, 1)] = "stall"
                    else:
                        for it in range(0, 12):
                            pattern[(s, it)] = "stall"
                inp = {"pattern": {str(k): v for k, v in pat.items()}, "depth": depth, "iterate_depth": depth_it}
                sw.case((tuple(sorted(pat.items())), depth, depth_it), nontrivial=bool(pat), sample=inp)
                try:
                    with warnings.catch_warnings():
                        warnings.simplefilter("ignore")
                        m = make(pattern, depth, depth_it)
                        pp.run_time_dependent_model(m, {"max_iterations": 8, "nl_convergence_tol": 1e-8, "progressbars": False})
                except ValueError as e:
                    if "recomputing attempts" in str(e) or "minimum admissible" in str(e):
                        continue
                    rep.violation("driver: runs to the final time within the recomputation budget", f"raises ValueError", inputs=inp, detail=str(e)[:200])
                    continue
                except Exception as e:  # noqa
                    rep.violation("driver: runs to the final time within the recomputation budget", f"raises {type(e).__name__}", inputs=inp, detail=str(e)[:200])
                    continue
                g = m._ghost
                for clause, detail in g["bad"]:
                    rep.violation("driver: " + clause, f"depth {depth}", inputs=inp, detail=detail)
                if len(g["calls"]) != g["solves"]:
                    rep.violation("driver: every solve ends in exactly one of the convergence / failure hooks", f"depth {depth}", inputs=inp, detail=f"{g['calls']} for {g['solves']} solves")
                if abs(float(m.time_manager.time) - 1.0) > 1e-10:
                    rep.violation("driver: the run ends at the final time", f"depth {depth}", inputs=inp, detail=str(m.time_manager.time))
                acc = g["accepted"]
                es = m.equation_system
                if not acc or not np.array_equal(es.get_variable_values(time_step_index=0), acc[-1][1]):
                    rep.violation("driver: the time-step history equals the sequence of accepted solutions", f"depth {depth}", inputs=inp, detail="slot 0")
                if depth > 1 and len(acc) >= 2 and not np.array_equal(es.get_variable_values(time_step_index=1), acc[-2][1]):
                    rep.violation("driver: the time-step history equals the sequence of accepted solutions", f"depth {depth}", inputs=inp, detail="slot 1")
                if not all(a[0] < b[0] for a, b in zip(acc, acc[1:])):
                    rep.violation("driver: accepted times strictly increase", f"depth {depth}", inputs=inp, detail=str([a[0] for a in acc]))


def replay(data):
    return False


def run(rep):
    import porepy as pp
    from porepy.models import run_models, solution_strategy
    from porepy.numerics.ad import ad_utils, equation_system
    from porepy.numerics.nonlinear import nonlinear_solvers

    rep.under_contract("run_time_dependent_model", "NewtonSolver.solve", "NewtonSolver.iteration", "SolutionStrategy.before_nonlinear_loop", "SolutionStrategy.after_nonlinear_iteration",
                       "SolutionStrategy.after_nonlinear_convergence", "SolutionStrategy.after_nonlinear_failure", "SolutionStrategy.update_solution",
                       "EquationSystem.set/get_variable_values, shift_time_step_values, shift_iterate_values (as used by the hooks)")
    rep.assume("bounds of the symbolic run: schedule [0,1], dt_init 1/2, <= 2 Newton iterations per solve, recomputation budget 2, 3 dofs, storage depths (1,1) and (2,2)",
               "linear solves and the convergence test are stubs returning fresh symbolic values (any increment, any outcome)")
    refuted = []
    mods = [run_models, solution_strategy, nonlinear_solvers, equation_system, ad_utils]
    with shims.shadow_builtins(mods), shims.numpy_shims():
        for depth_ts, depth_it in ((1, 1), (2, 2), (3, 1), (1, 2)):
            for max_iter in (((1,) if (depth_ts, depth_it) != (2, 2) else (1, 2)) if rep.tier == "quick" else (1, 2, 3)):
                rf, _ = run_case(rep, f"driver(depth={depth_ts}/{depth_it}, max_iterations={max_iter})", case_driver(pp, depth_ts, depth_it, max_iter), tier="Ps",
                                 allowed_exceptions=(ValueError,), max_paths=20000)
                refuted += rf
    rep.trust(*sorted(shims.USED_MODELS))
    for name, ctx, r in refuted:
        rep.violation(name, name.split(":")[1].strip()[:60], inputs={"decisions": r.get("decisions")}, detail=f"path decisions (converged/diverged flags in order): {r.get('decisions')}", confirmed=False,
                      solver_output=str(r["model"]))
    _sweep(rep, pp)
