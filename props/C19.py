"""C19 -- computed grid geometry satisfies the divergence theorem.

Tier B (run-time contract sweep).  The contract is the statement itself: after the real
``Grid.compute_geometry`` every clause below is evaluated with dense numpy on the grid's own incidence
(``cell_faces``), never by calling porepy again:

  A  cell volumes are positive                                   B  they sum to the domain measure (known from
  C  |n_f| = area_f (planar faces; |n_f| <= area_f otherwise)       the construction of the grid, not from porepy)
  D  sigma_cf n_f . (x_f - x_c) > 0  (normal points out of the cell with positive sign)
  E  sum_f sigma_cf n_f = 0 per cell
  F  sum_f sigma_cf (x_f . n_f) = dim V_c                        (planar faces)
  G  sum_f sigma_cf (x_f . n_f) x_f = (dim+1) V_c x_c            (planar faces; positions from a grid node)
  H  n_f is orthogonal to the face's edges and lies in the grid's line / plane

Enumerated family (see ``_cases``): Cart / Tensor / StructuredTriangle / StructuredTetrahedral grids with 1..3
cells per direction in 1-D, 2-D, 3-D, Delaunay triangle / tetrahedral grids, triangle grids with clockwise cells
(sign repair branch of TriangleGrid), 2-D grids with reversed face-node order on some faces (convex fallback
branch of _compute_geometry_2d), seeded interior-node perturbations that keep cells convex (checked
independently -- otherwise sw.skip()), affine images (planar faces kept), perturbed hexahedra (non-planar faces:
only A, B, D, E and |n|<=area are demanded), and rigid embeddings of 1-D / 2-D grids in 3-D.  Added later:
  * length scales far from 1 (1-D / 2-D / 3-D Cart, Tensor and structured simplex grids with cells of size 1e-5 .. 1e4;
    the embedding offset is scaled with the grid so that rounding of the input nodes stays below the tolerance);
  * 2-D grids made of parts that share no faces (family ``union2d``: Cart / StructuredTriangle parts stacked into one
    pp.Grid, face-node order kept), some parts mirrored (x -> -x: opposite sense of rotation of the node loops), in
    minority, in majority, as exactly half of the area, and alone; and user triangulations of a patch plus its mirror
    image with the same node triples (TriangleGrid).  Only nodes on no boundary face are perturbed, measure = sum of parts;
  * non-convex cells: one interior node of a 2-D Cart / Tensor grid moved 75% / 90% of the way to a diagonal neighbour
    (a 'dart' whose node average lies outside the cell).  requires = every cell is a simple polygon with the loop direction
    of the constructed grid (``polygons_valid``); clause D is then evaluated against the outward edge normal (dy, -dx) of
    the counter-clockwise loop instead of the centre-to-face vector (which presumes convexity).  Only generated for
    grids with consistently oriented node loops, the documented precondition of _compute_geometry_2d for such cells.
Seeded changes that these additions detect: unscaled probe step in _compute_geometry_1d (small cells: D, E, F, G),
orientation check 3/3 replaced by a cell-wise sign switch (union2d with a mirrored minority part: D, F, G), orientation
check 1/3 on |cell_faces| (dart: B, D, E, F, G), orientation check 2/3 ``== 0`` (equal mirrored halves embedded in a
generic plane: C, F, G, H).

Detection power (scratch copy of /repo/src, POREPY_SRC, one mutant at a time; exit 1 + VIOLATION unless stated otherwise):
  * grid.py _compute_geometry_2d: sub_centroids weight ``(c + 2 f)/3`` -> ``(2 c + f)/3``    -> caught by G
    (only on perturbed / non-parallelogram quadrilaterals, as expected)
  * grid.py _compute_geometry_3d: ``tri_centroids = 3/4 * dist`` -> ``2/3 * dist``            -> caught by G (only on the
    column-perturbed prisms over general quadrilaterals: for tetrahedra and parallelepipeds the mutant is equivalent)
  * grid.py _compute_geometry_1d: flip condition ``sgn > 0`` <-> ``sgn < 0`` swapped          -> caught by D, E, F
  * structured.py _create_3d_grid: z-face node order (fn1,fn2,fn3,fn4) -> (fn1,fn4,fn3,fn2)    -> caught (compute_geometry
    raises "negative volume" -> "compute_geometry: returns on an admissible grid")
  * grid.py _compute_geometry_2d fallback: ``flip = ... < 0`` -> ``> 0``                       -> caught by D, F
  * simplex.py TetrahedralGrid: sign rule ``data[sgn_change] = -1`` -> ``+1`` is rejected by the Grid
    constructor itself (ValueError) -> reported as violation "grid constructor: builds a consistently oriented grid"
  * grid.py _compute_geometry_3d: ``face_areas = edge_2_face.T * sub_areas`` -> ``* 0.5``       -> caught (compute_geometry raises
    "negative volume" on every 3-D grid -> "compute_geometry: returns on an admissible grid")
  * simplex.py TriangleGrid: ``cf_data = sign(n1 - n0)`` -> ``sign(n0 - n1)`` NOT caught: equivalent mutant for this property
    (all cell-face signs flip, the 2-D kernel re-orients the normals accordingly, every identity still holds)
"""
from __future__ import annotations

import itertools
import math
import warnings

import numpy as np

META = {
    "level": "exploration",
    "engine": "sweep",
    "technique": "run-time contract sweep (bounded stand-in for deduction): divergence-theorem identities evaluated "
                 "with dense numpy on the output of the real Grid.compute_geometry over an enumerated grid family",
    "text": "Bounded assurance only: every clause of the statement (positivity, measure, |n|=area, outward normals, closure, "
            "first and second moment identities) holds on all enumerated grids (Cart/Tensor/structured and Delaunay simplex, "
            "1-3 cells per direction, seeded convexity-preserving perturbations, affine images, embeddings in 3-D, cell sizes "
            "1e-5..1e4, 2-D unions of face-disconnected parts with mirrored (oppositely wound) parts, and 2-D Cart/Tensor grids "
            "with one deeply non-convex 'dart' cell). Non-convex cells are covered only in that 2-D dart form (not in 3-D, not on "
            "grids without oriented node loops); grids from the external mesher are not covered; no tier-Ps proof of the kernels "
            "was attempted.",
    "note": "domain measure is taken from the construction (box extents x |det A|, sum over disconnected parts); validity of perturbed "
            "cells (convexity, or simplicity of the polygon for dart cells) is checked by an independent routine and inadmissible inputs "
            "are skipped; tolerances 1e-10 relative to the magnitude of the summed terms",
}

RTOL = 1e-10


# ----------------------------------------------------------------------------- small independent helpers


def rodrigues(axis, angle):
    a = np.asarray(axis, dtype=float)
    a = a / np.linalg.norm(a)
    K = np.array([[0, -a[2], a[1]], [a[2], 0, -a[0]], [-a[1], a[0], 0]])
    return np.eye(3) + math.sin(angle) * K + (1 - math.cos(angle)) * (K @ K)


def build(pp, family, args):
    """Rebuild a grid from a JSON-able description (topology only; nodes may be overwritten afterwards)."""
    if family == "cart":
        n = np.array(args["n"])
        if args.get("scalar_nx"):
            n = int(args["n"][0])
        if args.get("box") is not None:
            return pp.CartGrid(n, dict(args["box"]))  # physdims as a bounding-box dictionary (domain not at the origin)
        phys = args.get("phys")
        return pp.CartGrid(n, None if phys is None else np.array(phys, dtype=float))
    if family == "tensor":
        return pp.TensorGrid(*[np.array(x, dtype=float) for x in args["x"]])
    if family == "stri":
        return pp.StructuredTriangleGrid(np.array(args["n"]), np.array(args["phys"], dtype=float))
    if family == "stet":
        return pp.StructuredTetrahedralGrid(np.array(args["n"]), np.array(args["phys"], dtype=float))
    if family == "tri":
        return pp.TriangleGrid(np.array(args["p"], dtype=float), np.array(args["tri"], dtype=int))
    if family == "tet":
        return pp.TetrahedralGrid(np.array(args["p"], dtype=float), np.array(args["tet"], dtype=int))
    if family == "cart_flipfn":
        g0 = pp.CartGrid(np.array(args["n"]))
        fn = g0.face_nodes.copy()
        ind = fn.indices.copy()
        for f in args["flip"]:
            s, e = fn.indptr[f], fn.indptr[f + 1]
            ind[s:e] = ind[s:e][::-1]
        fn.indices = ind
        return pp.Grid(2, g0.nodes.copy(), fn, g0.cell_faces.copy(), "flipped-face-node CartGrid")
    if family == "union2d":
        # several 2-D parts that share neither nodes nor faces, stacked into one grid; a part with "mirror" is the reflection
        # x -> -x of the constructed part (same topology, hence the opposite sense of rotation of its node loops)
        xs, fns, cfs = [], [], []
        for prt in args["parts"]:
            gp = build(pp, prt["family"], prt["args"])
            x = np.array(gp.nodes, dtype=float)
            if prt.get("mirror"):
                x[0] = -x[0]
            x[0] += prt["shift"][0]
            x[1] += prt["shift"][1]
            xs.append(x)
            fns.append(gp.face_nodes)
            cfs.append(gp.cell_faces)
        return pp.Grid(2, np.hstack(xs), _stack_csc(fns), _stack_csc(cfs), "union of face-disconnected 2-D parts")
    raise ValueError(family)


def _stack_csc(mats):
    """Block-diagonal stacking of csc matrices that keeps the order of the row indices within each column (the order of
    face_nodes.indices is the orientation of a 2-D face; scipy.sparse.block_diag would sort it)."""
    import scipy.sparse as sps

    indices, indptr, data = [], [np.array([0])], []
    row_off, nnz_off, ncol = 0, 0, 0
    for m in mats:
        m = sps.csc_matrix(m)
        indices.append(m.indices + row_off)
        indptr.append(m.indptr[1:] + nnz_off)
        data.append(m.data)
        row_off += m.shape[0]
        nnz_off += m.nnz
        ncol += m.shape[1]
    return sps.csc_matrix((np.hstack(data), np.hstack(indices), np.hstack(indptr)), shape=(row_off, ncol))


def topo(g):
    CF = np.asarray(g.cell_faces.toarray(), dtype=float)
    ptr, ind = g.face_nodes.indptr, g.face_nodes.indices
    fnodes = [ind[ptr[f]:ptr[f + 1]] for f in range(g.num_faces)]
    return CF, fnodes


def cells_valid(dim, nodes, CF, fnodes, eps, ref):
    """requires: every cell is a non-degenerate convex cell with the same orientation as in the reference
    configuration ``ref`` (the grid as constructed), so that the cells still tile the domain
    (natural coordinates: 1-D on x, 2-D in xy)."""
    nc = CF.shape[1]
    if dim == 1:
        for c in range(nc):
            fs = np.nonzero(CF[:, c])[0]
            if len(fs) != 2:
                return False
            xs = [nodes[0, fnodes[f][0]] for f in fs]
            xr = [ref[0, fnodes[f][0]] for f in fs]
            if (xs[1] - xs[0]) * np.sign(xr[1] - xr[0]) < eps:
                return False
        # no overlap: cell intervals must be disjoint
        iv = sorted(sorted(nodes[0, fnodes[f][0]] for f in np.nonzero(CF[:, c])[0]) for c in range(nc))
        return all(a[1] <= b[0] + 1e-14 for a, b in zip(iv, iv[1:]))
    if dim == 2:
        for c in range(nc):
            fs = np.nonzero(CF[:, c])[0]
            edges = {frozenset(int(v) for v in fnodes[f]) for f in fs}
            vs = sorted({v for e in edges for v in e})
            P = ref[:2, vs]
            ctr = P.mean(axis=1, keepdims=True)
            ang = np.arctan2(P[1] - ctr[1], P[0] - ctr[0])
            o = np.argsort(ang)
            vo = [vs[i] for i in o]
            m = len(vo)
            if {frozenset((vo[i], vo[(i + 1) % m])) for i in range(m)} != edges:
                return False
            Q = nodes[:2, vo]
            for i in range(m):
                a, b, cc = Q[:, i], Q[:, (i + 1) % m], Q[:, (i + 2) % m]
                cr = (b[0] - a[0]) * (cc[1] - b[1]) - (b[1] - a[1]) * (cc[0] - b[0])
                if cr < eps:
                    return False
        return True
    return True


def cell_loops_2d(CF, fnodes, ref):
    """Counter-clockwise node loop of every 2-D cell, read off the reference configuration ``ref`` (the grid as
    constructed, convex cells) by sorting the cell's nodes by angle; None if the sorted loop is not the cell's edge set."""
    loops = []
    for c in range(CF.shape[1]):
        fs = np.nonzero(CF[:, c])[0]
        edges = {frozenset(int(v) for v in fnodes[f]) for f in fs}
        vs = sorted({v for e in edges for v in e})
        P = ref[:2, vs]
        ctr = P.mean(axis=1, keepdims=True)
        o = np.argsort(np.arctan2(P[1] - ctr[1], P[0] - ctr[0]))
        vo = [vs[i] for i in o]
        m = len(vo)
        if {frozenset((vo[i], vo[(i + 1) % m])) for i in range(m)} != edges:
            return None
        loops.append(vo)
    return loops


def polygons_valid(nodes, loops, eps_len, eps_area):
    """requires (possibly non-convex 2-D cells): every cell is a simple polygon -- positive shoelace area in the loop
    direction of the reference configuration, no vertex within eps_len of an edge it does not belong to, no two
    non-adjacent edges crossing.  With the domain boundary fixed, simple equally oriented cells tile the domain (the
    winding numbers of the cell loops add up to that of the boundary)."""

    def orient(a, b, c):
        return (b[0] - a[0]) * (c[1] - a[1]) - (b[1] - a[1]) * (c[0] - a[0])

    def dist(p, a, b):
        ab = b - a
        s = min(1.0, max(0.0, float((p - a) @ ab) / float(ab @ ab)))
        return float(np.linalg.norm(p - (a + s * ab)))

    for vo in loops:
        Q = nodes[:2, vo]
        m = len(vo)
        x, y = Q
        if 0.5 * float(np.sum(x * np.roll(y, -1) - np.roll(x, -1) * y)) < eps_area:
            return False
        for i in range(m):
            a, b = Q[:, i], Q[:, (i + 1) % m]
            if np.linalg.norm(b - a) < eps_len:
                return False
            for k in range(m):
                if k != i and k != (i + 1) % m and dist(Q[:, k], a, b) < eps_len:
                    return False
            for j in range(i + 2, m):
                if (j + 1) % m == i:
                    continue
                c, d = Q[:, j], Q[:, (j + 1) % m]
                if orient(a, b, c) * orient(a, b, d) < 0 and orient(c, d, a) * orient(c, d, b) < 0:
                    return False
    return True


def outward_normals_2d(nodes, loops, CF, fnodes, R):
    """Independent oracle for 'points out of the cell' on a simple (possibly non-convex) polygon: the outward normal of
    the edge a -> b of a counter-clockwise loop is (dy, -dx), mapped into space by the embedding rotation R.
    -> {(face, cell): outward 3-vector}"""
    face_of = {frozenset(int(v) for v in fn): f for f, fn in enumerate(fnodes)}
    out = {}
    for c, vo in enumerate(loops):
        m = len(vo)
        for i in range(m):
            a, b = vo[i], vo[(i + 1) % m]
            d = nodes[:2, b] - nodes[:2, a]
            out[(face_of[frozenset((a, b))], c)] = R @ np.array([d[1], -d[0], 0.0])
    return out


def tets_valid(nodes, tets, sign0, eps):
    a, b, c, d = (nodes[:, tets[i]] for i in range(4))
    vol = np.einsum("ij,ij->j", np.cross(b - a, c - a, axis=0), d - a) / 6.0
    return bool(np.all(vol * sign0 > eps)), vol


def polyhedra_convex(nodes, CF, fnodes, eps):
    """requires (3-D, planar faces): every cell is strictly convex -- all its nodes lie on one side of each face plane."""
    for c in range(CF.shape[1]):
        fs = np.nonzero(CF[:, c])[0]
        vs = sorted({int(v) for f in fs for v in fnodes[f]})
        for f in fs:
            P = nodes[:, fnodes[f]]
            nrm = np.cross(P[:, 1] - P[:, 0], P[:, 2] - P[:, 0])
            nrm = nrm / np.linalg.norm(nrm)
            others = [v for v in vs if v not in set(int(x) for x in fnodes[f])]
            d = (nodes[:, others] - P[:, [0]]).T @ nrm
            if not (np.all(d > eps) or np.all(d < -eps)):
                return False
    return True


def faces_planar(nodes, fnodes, tol):
    for fn in fnodes:
        if len(fn) <= 3:
            continue
        P = nodes[:, fn]
        nrm = np.cross(P[:, 1] - P[:, 0], P[:, 2] - P[:, 0])
        nn = np.linalg.norm(nrm)
        if nn == 0:
            return False
        if np.max(np.abs((P - P[:, [0]]).T @ (nrm / nn))) > tol:
            return False
    return True


# ----------------------------------------------------------------------------- the contract


def check_geometry(g, dim, CF, fnodes, measure, planar, frame, outward=None):
    """Evaluate the statement's clauses.  Returns list of (obligation, detail).  ``frame`` = None (3-D) or the
    unit tangent (1-D) / unit plane normal (2-D) of the grid's line / plane, known from the construction.
    ``outward`` (2-D grids with non-convex cells only): {(face, cell): outward edge normal} from ``outward_normals_2d``."""
    bad = []
    nodes = g.nodes
    V, xc0 = np.asarray(g.cell_volumes, float), np.asarray(g.cell_centers, float)
    n, ar, xf0 = np.asarray(g.face_normals, float), np.asarray(g.face_areas, float), np.asarray(g.face_centers, float)
    nf, nc = CF.shape
    if V.shape != (nc,) or xc0.shape != (3, nc) or n.shape != (3, nf) or ar.shape != (nf,) or xf0.shape != (3, nf):
        return [("compute_geometry: geometry fields have the documented shapes", f"{V.shape} {xc0.shape} {n.shape} {ar.shape} {xf0.shape}")]
    if not all(np.all(np.isfinite(a)) for a in (V, xc0, n, ar, xf0)):
        return [("compute_geometry: geometry fields are finite", "nan/inf")]
    p = nodes[:, [0]]
    xf, xc = xf0 - p, xc0 - p
    D = float(np.max(np.linalg.norm(nodes - p, axis=0))) or 1.0
    A = np.abs(CF)
    area_c = A.T @ ar  # total face area per cell
    L = D  # length scale
    # A
    if not np.all(V > 0):
        bad.append(("compute_geometry: cell volumes are positive", f"min volume {V.min()}"))
    # B
    if abs(V.sum() - measure) > RTOL * max(measure, 1e-300) * 10:
        bad.append(("compute_geometry: cell volumes sum to the domain measure", f"sum {V.sum()!r} expected {measure!r}"))
    # C
    nn = np.linalg.norm(n, axis=0)
    if planar:
        if np.any(np.abs(nn - ar) > RTOL * np.maximum(ar, 1e-300)):
            k = int(np.argmax(np.abs(nn - ar)))
            bad.append(("compute_geometry: face normal length equals face area", f"face {k}: |n|={nn[k]!r} area={ar[k]!r}"))
    else:
        if np.any(nn > ar * (1 + RTOL)):
            bad.append(("compute_geometry: face normal length equals face area", "non-planar face with |n| > area"))
    # D
    fi, ci = np.nonzero(CF)
    if outward is None:  # convex cells: the vector from the cell centre to the face centre leaves the cell through the face
        out = CF[fi, ci] * np.einsum("ij,ij->j", n[:, fi], xf[:, fi] - xc[:, ci])
    else:  # simple, possibly non-convex 2-D cells: compare with the outward edge normal of the counter-clockwise loop
        out = np.array([CF[f, c] * float(n[:, f] @ outward[(int(f), int(c))]) for f, c in zip(fi, ci)])
    if np.any(out <= 0):
        k = int(np.argmin(out))
        bad.append(("compute_geometry: face normals point out of the cell that has positive sign",
                    f"face {fi[k]} cell {ci[k]} " + ("sigma*n.(xf-xc)" if outward is None else "sigma*n.(outward edge normal)") + f"={out[k]!r}"))
    # E
    clo = n @ CF
    if np.any(np.abs(clo) > RTOL * area_c[None, :]):
        k = int(np.argmax(np.max(np.abs(clo), axis=0)))
        bad.append(("compute_geometry: signed sum of face normals vanishes per cell", f"cell {k}: {clo[:, k]}"))
    if planar:
        # F
        d = np.einsum("ij,ij->j", xf, n)
        s = d @ CF
        tolF = RTOL * (area_c * D + dim * np.abs(V))
        if np.any(np.abs(s - dim * V) > tolF):
            k = int(np.argmax(np.abs(s - dim * V) - tolF))
            bad.append(("compute_geometry: sum sigma (x_f . n_f) = dim * V_c", f"cell {k}: lhs {s[k]!r} rhs {dim * V[k]!r}"))
        # G
        m = (xf * d[None, :]) @ CF
        rhs = (dim + 1) * V[None, :] * xc
        tolG = RTOL * (area_c * D * D + (dim + 1) * np.abs(V) * D)
        if np.any(np.abs(m - rhs) > tolG[None, :]):
            k = int(np.argmax(np.max(np.abs(m - rhs), axis=0) - tolG))
            bad.append(("compute_geometry: sum sigma (x_f . n_f) x_f = (dim+1) V_c x_c", f"cell {k}: lhs {m[:, k]} rhs {rhs[:, k]}"))
    # H
    tolH = RTOL * np.maximum(ar, 1e-300) * L * 10
    if dim == 1:
        t = frame
        off = np.linalg.norm(n - t[:, None] * (t @ n)[None, :], axis=0)
        if np.any(off > RTOL * 10):
            bad.append(("compute_geometry: face normal is normal to the face within the grid's line/plane", f"1-D normal off the line by {off.max()}"))
    else:
        worst = 0.0
        for f, fn in enumerate(fnodes):
            P = nodes[:, fn]
            E = np.roll(P, -1, axis=1) - P if len(fn) > 2 else (P[:, [1]] - P[:, [0]])
            if dim == 3 and not planar and len(fn) > 3:
                continue
            worst = max(worst, float(np.max(np.abs(n[:, f] @ E)) / max(tolH[f], 1e-300)))
        if dim == 2:
            inpl = np.abs(frame @ n)
            worst = max(worst, float(np.max(inpl / np.maximum(RTOL * 10 * ar, 1e-300))))
        if worst > 1.0:
            bad.append(("compute_geometry: face normal is normal to the face within the grid's line/plane", f"violation ratio {worst:.3g}"))
    return bad


# ----------------------------------------------------------------------------- enumeration


def _box_measure(ext):
    m = 1.0
    for a in ext:
        m *= a
    return m


def _base_grids(pp, rng, quick):
    """yield (family, args, dim, measure, kind) -- kind in {'quad','simplex'}"""
    out = []
    # 1-D
    for n in (1, 2, 3):
        out.append(("cart", {"n": [n]}, 1, float(n), "quad"))
        out.append(("cart", {"n": [n], "phys": [0.5 * n + 0.25]}, 1, 0.5 * n + 0.25, "quad"))
    for x in ([0.0, 0.3], [-1.0, 0.0, 2.5], [0.1, 0.2, 0.9, 4.0]):
        out.append(("tensor", {"x": [x]}, 1, x[-1] - x[0], "quad"))
    # 2-D
    for nx, ny in itertools.product((1, 2, 3), repeat=2):
        out.append(("cart", {"n": [nx, ny]}, 2, float(nx * ny), "quad"))
        out.append(("stri", {"n": [nx, ny], "phys": [float(nx), float(ny)]}, 2, float(nx * ny), "simplex"))
        if (nx + ny) % 2 == 1 or not quick:
            out.append(("cart", {"n": [nx, ny], "phys": [0.7 * nx, 1.3]}, 2, 0.7 * nx * 1.3, "quad"))
            out.append(("stri", {"n": [nx, ny], "phys": [2.0, 0.25 * ny]}, 2, 2.0 * 0.25 * ny, "simplex"))
    for xs in ([[0.0, 0.2, 1.0], [0.0, 3.0]], [[-1.0, 0.5], [0.0, 0.1, 0.2, 2.0]], [[0.0, 1.0, 1.5, 4.0], [1.0, 2.0, 2.25]]):
        out.append(("tensor", {"x": xs}, 2, (xs[0][-1] - xs[0][0]) * (xs[1][-1] - xs[1][0]), "quad"))
    # Delaunay triangles on the unit square (corners included -> measure 1)
    import scipy.spatial

    for k in range(2 if quick else 6):
        npt = 1 + k
        pts = np.hstack([np.array([[0, 1, 1, 0], [0, 0, 1, 1.0]]), np.array([[0.15 + 0.7 * rng.random() for _ in range(npt)] for _ in range(2)])])
        tri = scipy.spatial.Delaunay(pts.T).simplices.T
        out.append(("tri", {"p": pts.tolist(), "tri": tri.tolist()}, 2, 1.0, "simplex"))
        # same triangulation, every other cell listed clockwise (exercises the sign-repair loop of TriangleGrid)
        tri2 = tri.copy()
        tri2[:, ::2] = tri2[::-1, ::2]
        out.append(("tri", {"p": pts.tolist(), "tri": tri2.tolist()}, 2, 1.0, "simplex"))
    # reversed face-node order on some faces -> convex fallback branch
    for n, flip in (([1, 1], [0]), ([2, 2], [0, 5, 7]), ([3, 2], [1, 2, 9, 12, 16]), ([2, 3], list(range(0, 17, 2)))):
        out.append(("cart_flipfn", {"n": n, "flip": flip}, 2, float(n[0] * n[1]), "quad"))
    # 3-D
    rng3 = (1, 2, 3)
    for nx, ny, nz in itertools.product(rng3, repeat=3):
        if quick and (nx * ny * nz > 12):
            continue
        out.append(("cart", {"n": [nx, ny, nz]}, 3, float(nx * ny * nz), "quad"))
        out.append(("stet", {"n": [nx, ny, nz], "phys": [float(nx), float(ny), float(nz)]}, 3, float(nx * ny * nz), "simplex"))
        if (nx + ny + nz) % 3 == 0 or not quick:
            out.append(("cart", {"n": [nx, ny, nz], "phys": [0.5 * nx, 2.0, 0.3 * nz]}, 3, 0.5 * nx * 2.0 * 0.3 * nz, "quad"))
            out.append(("stet", {"n": [nx, ny, nz], "phys": [1.5, 0.4 * ny, 1.0]}, 3, 1.5 * 0.4 * ny, "simplex"))
    if quick:
        for n3 in ([3, 3, 3], [3, 3, 2]):
            out.append(("cart", {"n": n3}, 3, float(np.prod(n3)), "quad"))
            out.append(("stet", {"n": n3, "phys": [float(v) for v in n3]}, 3, float(np.prod(n3)), "simplex"))
    for xs in ([[0.0, 0.2, 1.0], [0.0, 3.0], [1.0, 1.5, 1.75]], [[-1.0, 0.5], [0.0, 0.1, 0.2, 2.0], [0.0, 1.0]]):
        out.append(("tensor", {"x": xs}, 3, _box_measure([x[-1] - x[0] for x in xs]), "quad"))
    for k in range(2 if quick else 6):
        npt = 1 + k
        corners = np.array(list(itertools.product((0.0, 1.0), repeat=3))).T
        pts = np.hstack([corners, np.array([[0.2 + 0.6 * rng.random() for _ in range(npt)] for _ in range(3)])])
        tet = scipy.spatial.Delaunay(pts.T).simplices.T
        a, b, c, d = (pts[:, tet[i]] for i in range(4))
        vol = np.abs(np.einsum("ij,ij->j", np.cross(b - a, c - a, axis=0), d - a)) / 6
        tet = tet[:, vol > 1e-9]  # Delaunay may return slivers on the cube faces
        if abs(vol[vol > 1e-9].sum() - 1.0) > 1e-12:
            continue
        out.append(("tet", {"p": pts.tolist(), "tet": tet.tolist()}, 3, 1.0, "simplex"))
    # ---- length scales far from 1 (cells of size 1e-5 .. 1e4): every clause of the statement is scale-free
    # Cartesian grids given by a bounding box that does not start at the origin (1-d with array and scalar nx, 2-d, 3-d)
    out.append(("cart", {"n": [4], "box": {"xmin": 1.0, "xmax": 3.0}}, 1, 2.0, "quad"))
    out.append(("cart", {"n": [3], "scalar_nx": True, "box": {"xmin": -1.0, "xmax": 0.5}}, 1, 1.5, "quad"))
    out.append(("cart", {"n": [2, 3], "box": {"xmin": 1.0, "xmax": 3.0, "ymin": -1.0, "ymax": 0.5}}, 2, 3.0, "quad"))
    out.append(("cart", {"n": [2, 1, 2], "box": {"xmin": 1.0, "xmax": 2.0, "ymin": 0.5, "ymax": 1.0, "zmin": -2.0, "zmax": 0.0}}, 3, 1.0, "quad"))
    out.append(("cart", {"n": [20], "phys": [0.01]}, 1, 0.01, "quad"))
    out.append(("cart", {"n": [3], "phys": [3e-5]}, 1, 3e-5, "quad"))
    out.append(("cart", {"n": [2], "phys": [2e4]}, 1, 2e4, "quad"))
    out.append(("tensor", {"x": [[0.0, 1e-4, 2.5e-4, 1e-3]]}, 1, 1e-3, "quad"))
    out.append(("cart", {"n": [2, 2], "phys": [1e-3, 2e-3]}, 2, 2e-6, "quad"))
    out.append(("stri", {"n": [2, 1], "phys": [1e-4, 1e-4]}, 2, 1e-8, "simplex"))
    out.append(("cart", {"n": [2, 3], "phys": [2e3, 1e3]}, 2, 2e6, "quad"))
    out.append(("cart", {"n": [2, 1, 2], "phys": [1e-3, 1e-3, 2e-3]}, 3, 2e-9, "quad"))
    out.append(("stet", {"n": [1, 2, 1], "phys": [1e-3, 2e-3, 1e-3]}, 3, 2e-9, "simplex"))
    if not quick:
        out.append(("cart", {"n": [2, 2, 2], "phys": [1e3, 2e3, 1e3]}, 3, 2e9, "quad"))
        out.append(("stet", {"n": [2, 1, 1], "phys": [1e3, 1e3, 1e3]}, 3, 1e9, "simplex"))
        out.append(("tensor", {"x": [[0.0, 2e-5, 3e-5], [0.0, 1e-5]]}, 2, 3e-10, "quad"))
    # ---- 2-D grids made of parts that share no faces; a mirrored part has the opposite sense of rotation of its node loops
    # (orientation checks 2/3 and 3/3 of _compute_geometry_2d).  Parts are placed in disjoint boxes, measure = sum of the parts.
    def part(fam, n, phys, mirror, shift):
        return {"family": fam, "args": {"n": n, "phys": phys}, "mirror": mirror, "shift": shift}

    A = ("cart", [3, 2], [3.0, 2.0])
    B = ("cart", [2, 2], [1.0, 2.0])
    T = ("stri", [3, 2], [1.5, 1.0])
    S = ("stri", [2, 2], [2.0, 1.0])
    unions = [
        ("cart3x2+cart2x2", [part(*A, False, [0.0, 0.0]), part(*B, False, [-2.0, 0.0])]),
        ("cart3x2+Mcart2x2", [part(*A, False, [0.0, 0.0]), part(*B, True, [-1.0, 0.0])]),
        ("Mcart2x2+cart3x2", [part(*B, True, [-1.0, 0.0]), part(*A, False, [0.0, 0.0])]),
        ("stri3x2+Mstri2x2", [part(*T, False, [0.0, 0.0]), part(*S, True, [-1.0, 0.5])]),
        ("cart3x2+Mcart3x2", [part(*A, False, [0.0, 0.0]), part(*A, True, [-1.0, 0.0])]),
        ("Mcart3x2-alone", [part(*A, True, [0.0, 0.0])]),
    ]
    if not quick:
        unions.append(("Mstri3x2+stri3x2+cart2x2", [part(*T, True, [-0.5, 0.0]), part(*T, False, [0.0, 0.0]), part(*B, False, [0.0, 1.5])]))
        unions.append(("stri2x2+Mcart3x2", [part(*S, False, [0.0, 0.0]), part(*A, True, [-0.25, -1.0])]))
    for name, parts in unions:
        meas = sum(p["args"]["phys"][0] * p["args"]["phys"][1] for p in parts)
        out.append(("union2d", {"name": name, "parts": parts}, 2, meas, "quad" if all(p["family"] == "cart" for p in parts) else "simplex"))
    # a user-supplied triangulation of a patch plus its disconnected mirror image with the same node triples (TriangleGrid)
    for nx, ny, lx, ly in ((1, 1, 1.0, 1.0), (3, 2, 1.5, 1.0)):
        pts, tri = _mirrored_patches(nx, ny, lx, ly, 0.5)
        out.append(("tri", {"name": f"mirrored-patches{nx}x{ny}", "p": pts, "tri": tri}, 2, 2 * lx * ly, "simplex"))
    return out


def _mirrored_patches(nx, ny, lx, ly, gap):
    """[0,lx]x[0,ly] split into 2 nx ny counter-clockwise triangles, plus the mirror image in the line x = lx + gap/2 listing
    the corresponding node triples in the same order (clockwise triangles).  -> points (2 x n list), triangles (3 x m list)"""
    stride = nx + 1
    n_half = stride * (ny + 1)
    pts = np.zeros((2, 2 * n_half))
    for j in range(ny + 1):
        for i in range(nx + 1):
            pts[:, i + stride * j] = (lx * i / nx, ly * j / ny)
            pts[:, n_half + i + stride * j] = (2 * lx + gap - lx * i / nx, ly * j / ny)
    tri = []
    for off in (0, n_half):
        for j in range(ny):
            for i in range(nx):
                a = off + i + stride * j
                tri.append([a, a + 1, a + 1 + stride])
                tri.append([a, a + 1 + stride, a + stride])
    return pts.tolist(), np.array(tri).T.tolist()


def _boundary_free_nodes(g):
    """Nodes that lie on no boundary face (a face with a single neighbouring cell): for grids made of several parts the
    bounding box does not tell which nodes may be moved without changing the domain."""
    CFa = abs(g.cell_faces)
    nb = np.asarray(CFa.sum(axis=1)).ravel()
    ptr, ind = g.face_nodes.indptr, g.face_nodes.indices
    on_bnd = np.zeros(g.num_nodes, dtype=bool)
    for f in np.nonzero(nb == 1)[0]:
        on_bnd[ind[ptr[f]:ptr[f + 1]]] = True
    return np.where(~on_bnd)[0]


def _interior_nodes(nodes, dim, lo, hi):
    inside = np.ones(nodes.shape[1], dtype=bool)
    for k in range(dim):
        inside &= (nodes[k] > lo[k] + 1e-9) & (nodes[k] < hi[k] - 1e-9)
    return np.where(inside)[0]


def _embeddings(dim, rng, quick):
    """(tag, R, t) rigid motions used to embed 1-D / 2-D grids in 3-D."""
    I = np.eye(3)
    if dim == 3:
        return [("id", I, np.zeros(3))]
    embs = [("id", I, np.zeros(3))]
    embs.append(("axis:x->y,y->z", np.array([[0, 0, 1.0], [1, 0, 0], [0, 1, 0]]), np.array([0.5, -2.0, 1.0])))
    embs.append(("rand", rodrigues([rng.gauss(0, 1) for _ in range(3)], rng.uniform(0.3, 2.8)), np.array([rng.uniform(-3, 3) for _ in range(3)])))
    if not quick:
        embs.append(("rand2", rodrigues([rng.gauss(0, 1) for _ in range(3)], rng.uniform(0.3, 2.8)), np.array([10.0, 20.0, -5.0])))
        embs.append(("tilt1e-7", rodrigues([1, 0, 0], 1e-7), np.zeros(3)))
    return embs


def _cases(pp, rng, quick):
    """yield dict(case) with keys: key, family, args, dim, nodes (natural, 3xN), measure, planar, op, emb"""
    nper = 2 if quick else 12
    for family, args, dim, measure, kind in _base_grids(pp, rng, quick):
        try:
            g0 = build(pp, family, args)
        except Exception as e:  # the constructor rejected its own topology: a violated postcondition, not a checker crash
            yield {"family": family, "args": args, "dim": dim, "nodes": np.zeros((3, 0)), "measure": measure, "planar": True,
                   "op": "plain", "emb": "id", "R": np.eye(3), "t": np.zeros(3), "kind": kind, "error": f"{type(e).__name__}: {e}"}
            continue
        base = np.array(g0.nodes, dtype=float)
        lo, hi = base.min(axis=1), base.max(axis=1)
        extent = float(np.max(hi - lo))
        h = None
        variants = [("plain", base, measure, True)]
        inter = _boundary_free_nodes(g0) if (family == "union2d" or "name" in args) else _interior_nodes(base, dim, lo, hi)
        # minimal node spacing -> perturbation amplitude
        if base.shape[1] > 1:
            dd = np.linalg.norm(base[:, :, None] - base[:, None, :], axis=0)
            h = float(np.min(dd[dd > 0]))
        if inter.size and h:
            for s in range(nper):
                amp = ((0.1, 0.2, 0.3)[s % 3] if (dim == 3 and kind == "quad") else (0.1, 0.3, 0.45, 0.7)[s % 4]) * h
                pert = base.copy()
                for i in inter:
                    for k in range(dim):
                        pert[k, i] += amp * rng.uniform(-1, 1) / math.sqrt(dim)
                planar = not (dim == 3 and kind == "quad")
                variants.append((f"perturb{s}", pert, measure, planar))
            if dim == 3 and kind == "quad":
                # column-wise perturbation in xy (same shift for all nodes above each other): cells become prisms over
                # general convex quadrilaterals, all faces stay planar, centroid != mean of face centres
                for s in range(nper):
                    amp = (0.15, 0.3, 0.45)[s % 3] * h
                    pert = base.copy()
                    shift = {}
                    for i in inter:
                        kxy = (round(base[0, i], 9), round(base[1, i], 9))
                        if kxy not in shift:
                            shift[kxy] = (amp * rng.uniform(-1, 1) / math.sqrt(2), amp * rng.uniform(-1, 1) / math.sqrt(2))
                    for i in range(base.shape[1]):
                        kxy = (round(base[0, i], 9), round(base[1, i], 9))
                        if kxy in shift:
                            pert[0, i] += shift[kxy][0]
                            pert[1, i] += shift[kxy][1]
                    if shift:
                        variants.append((f"prism{s}", pert, measure, True))
            if dim == 2 and family in ("cart", "tensor"):
                # one interior node moved 75% / 90% of the way to a diagonally opposite node: the cell between them becomes
                # a non-convex 'dart' whose node average lies outside the cell; all cells stay simple polygons (checked).
                # Only for grids whose cells are consistently oriented node loops (the documented precondition of
                # _compute_geometry_2d for non-convex cells).
                moves = [(int(i), sx, sy, f) for i in inter for sx in (1, -1) for sy in (1, -1) for f in (0.9, 0.75)]
                if quick:
                    moves = [moves[(5 * k) % len(moves)] for k in range(2)]
                for s, (i, sx, sy, f) in enumerate(moves):
                    q = (np.sign(base[0] - base[0, i]) == sx) & (np.sign(base[1] - base[1, i]) == sy)
                    if not q.any():
                        continue
                    cand = np.where(q)[0]
                    j = cand[np.argmin(np.linalg.norm(base[:2, cand] - base[:2, [i]], axis=0))]
                    pert = base.copy()
                    pert[:, i] = base[:, i] + f * (base[:, j] - base[:, i])
                    variants.append((f"dart{s}", pert, measure, True))
        # affine images (keep faces planar): shear + anisotropic scaling in the grid's own dimensions
        for s in range(1 if quick else 3):
            Aff = np.eye(3)
            for i in range(dim):
                for j in range(dim):
                    if i != j:
                        Aff[i, j] = rng.uniform(-0.4, 0.4)
                Aff[i, i] = rng.uniform(0.5, 1.5)
            det = float(np.linalg.det(Aff))
            if det < 0.2:
                continue
            variants.append((f"affine{s}", Aff @ base, measure * det, True))
        for op, nodes, meas, planar in variants:
            for tag, R, t in _embeddings(dim, rng, quick):
                if dim == 3 and tag != "id":
                    continue
                if tag != "id" and op.startswith("perturb") and op not in ("perturb0", "perturb1"):
                    continue
                if tag != "id" and op.startswith("dart") and op not in ("dart0", "dart1", "dart2"):
                    continue
                if extent < 0.1:
                    # keep the offset comparable with the grid: a translation by O(1) of a grid of size 1e-5 rounds the node
                    # coordinates to ~1e-11 relative to the cells, which is input error and not the function's
                    t = t * extent
                yield {"family": family, "args": args, "dim": dim, "nodes": nodes, "measure": meas, "planar": planar,
                       "op": op, "emb": tag, "R": R, "t": t, "kind": kind}


def run_case(pp, case, record_branch=False):
    """Build, validate (requires), run the real compute_geometry, evaluate the contract.
    Returns (status, data): status 'skip' | 'ok' ; data = list of violated (obligation, detail)."""
    try:
        g = build(pp, case["family"], case["args"])
    except Exception as e:
        return "ok", ([("grid constructor: builds a consistently oriented grid", f"{type(e).__name__}: {e}")], False)
    dim = case["dim"]
    nat = np.array(case["nodes"], dtype=float)
    CF, fnodes = topo(g)
    h = float(np.max(np.ptp(nat, axis=1))) or 1.0
    loops = None
    if dim == 2 and case["op"].startswith("dart"):
        # non-convex cells admitted: simple polygons with the loop direction of the grid as constructed
        loops = cell_loops_2d(CF, fnodes, np.array(g.nodes, dtype=float))
        if loops is None or not polygons_valid(nat, loops, 1e-3 * h, 1e-6 * h * h):
            return "skip", None
    elif dim < 3:
        ref = np.array(g.nodes, dtype=float)
        if case["op"].startswith("affine"):
            ref = nat  # an affine map with positive determinant keeps validity; orientation is taken from the image itself
        if not cells_valid(dim, nat, CF, fnodes, 1e-6 * h * (h if dim == 2 else 1), ref):
            return "skip", None
    elif case["kind"] == "simplex":
        cn = np.array([sorted({int(v) for f in np.nonzero(CF[:, c])[0] for v in fnodes[f]}) for c in range(CF.shape[1])]).T
        ok0, vol0 = tets_valid(np.array(g.nodes, float), cn, 1.0, -np.inf)
        ok, _ = tets_valid(nat, cn, np.sign(vol0), 1e-7 * h ** 3)
        if not ok:
            return "skip", None
    planar = case["planar"]
    if dim == 3 and planar and not faces_planar(nat, fnodes, 1e-12 * h):
        return "skip", None
    if dim == 3 and planar and not polyhedra_convex(nat, CF, fnodes, 1e-6 * h):
        return "skip", None
    R, t = np.array(case["R"], float), np.array(case["t"], float)
    g.nodes = R @ nat + t[:, None]
    frame = None if dim == 3 else (R[:, 0] if dim == 1 else R[:, 2])
    fallback = False
    try:
        with warnings.catch_warnings(record=True) as w:
            warnings.simplefilter("always")
            g.compute_geometry()
        fallback = any("Orientations are inconsistent" in str(x.message) for x in w)
    except Exception as e:  # a crash on an admissible grid is a violated postcondition
        return "ok", ([("compute_geometry: returns on an admissible grid", f"{type(e).__name__}: {e}")], False)
    outward = None if loops is None else outward_normals_2d(nat, loops, CF, fnodes, R)
    return "ok", (check_geometry(g, dim, CF, fnodes, case["measure"], planar, frame, outward), fallback)


def _json_case(case):
    return {"family": case["family"], "args": case["args"], "dim": case["dim"], "nodes": np.asarray(case["nodes"]).tolist(),
            "measure": case["measure"], "planar": case["planar"], "op": case["op"], "emb": case["emb"],
            "R": np.asarray(case["R"]).tolist(), "t": np.asarray(case["t"]).tolist(), "kind": case["kind"]}


def run(rep):
    import porepy as pp

    rep.under_contract("Grid.compute_geometry", "Grid._compute_geometry_1d", "Grid._compute_geometry_2d", "Grid._compute_geometry_3d",
                       "TensorGrid/CartGrid topology", "TriangleGrid/StructuredTriangleGrid topology",
                       "TetrahedralGrid/StructuredTetrahedralGrid topology", "map_geometry.compute_tangent (1-D normals)")
    rep.assume("requires: cells are non-degenerate and convex (checked by an independent routine; other generated inputs are skipped); "
               "for the 2-D 'dart' operation on grids with oriented node loops: cells are simple polygons with positive area "
               "(outwardness is then judged against the outward edge normal of the counter-clockwise loop)",
               "requires (clauses C-equality, F, G, H): faces are planar; for perturbed hexahedra (non-planar faces) only A, B, D, E and |n|<=area are demanded",
               "the domain measure is known from the construction (box extents, |det| of the affine map); Delaunay families include the box corners")
    rep.trust("scipy.spatial.Delaunay only as a generator of input triangulations")
    quick = rep.tier == "quick"
    with rep.sweep(
        "compute_geometry identities",
        rule="grid family (Cart/Tensor/StructuredTriangle/StructuredTetrahedral 1..3 cells per direction, Delaunay, clockwise-cell and "
             "reversed-face-node variants, cell sizes 1e-5..1e4, unions of face-disconnected 2-D parts with mirrored parts, mirrored "
             "triangle patches) x node operation (plain | seeded interior perturbation amplitudes 0.1/0.3/0.45 h | affine map | one "
             "interior node of a 2-D Cart/Tensor grid moved 75/90% towards a diagonal neighbour -> non-convex dart cell) x rigid "
             "embedding of 1-D/2-D grids in 3-D; non-trivial = anything but an unperturbed unit-spacing grid in natural position; distinct by "
             "(family, args, operation, embedding)",
        bound="<= 3 cells per direction (27 hexahedra / 162 tetrahedra; 20 cells for the small-cell 1-D grid; <= 3 parts per union); 2 (quick) / 6 (thorough) perturbation seeds per grid; 3 / 5 embeddings",
        exhaustive=False,
    ) as sw:
        for case in _cases(pp, rep.rng, quick):
            status, data = run_case(pp, case)
            if status == "skip":
                sw.skip()
                continue
            bad, fallback = data
            key = (case["family"], repr(case["args"])[:200], case["op"], case["emb"])
            trivial = case["op"] == "plain" and case["emb"] == "id" and case["family"] == "cart" and "phys" not in case["args"]
            sw.case(key, nontrivial=not trivial,
                    sample={"family": case["family"], "args": case["args"] if len(repr(case["args"])) < 200 else "...", "op": case["op"],
                            "emb": case["emb"], "fallback_branch": fallback})
            for ob, detail in bad:
                sig = f"{case['dim']}-d {case['family']} {case['op'].rstrip('0123456789')}" + ("" if case["emb"] == "id" else " embedded")
                rep.violation(ob, sig, inputs=_json_case(case), detail=detail, confirmed=True)


def replay(data):
    import porepy as pp

    case = data["inputs"]
    status, res = run_case(pp, case)
    print("replay:", status, res)
    return status == "ok" and any(ob == data["obligation"] for ob, _ in res[0])
