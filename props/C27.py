"""C27 -- global projection operators are consistent permutations.

Tier B, exhaustive orderings.  Postconditions on ``pp.ad.SubdomainProjections.{cell,face}_{restriction,prolongation}``,
``pp.ad.MortarProjections.{mortar_to_X,X_to_mortar}_{int,avg}`` (X in primary, secondary) and
``pp.ad.BoundaryProjection.{subdomain_to_boundary, boundary_to_subdomain}`` (evaluated with ``.parse(mdg)``) for
small real md-grids, quantity dimension 1, 2, 3:

  * the matrix returned for a constructor list C = [g_1..g_k] and an argument list A (any ordering of any subset of C)
    equals the 0/1 matrix whose column block for the s-th grid of A is the identity placed at row offset
    dim * sum_{j before g in C} n_j and column offset dim * sum_{t<s} n_{a_t} (n = cells or faces); restrictions are the
    transposes;
  * restriction(A) @ prolongation(A) = identity; for A a permutation of C the prolongation is a permutation matrix;
  * mortar projections for (subdomain list S, interface list J) equal the per-interface projection
    ``intf.<name>(dim)`` placed at the face (co-dimension 1 primary) / cell (secondary, co-dimension 2 primary) offset of
    its subdomain in S and the mortar-cell offset of the interface in J; zero blocks for subdomains not in S;
  * boundary projection equals the per-grid boundary selection (domain-boundary faces in ascending order, component-wise
    for vectors) at the face offsets of S, rows stacked in list order (0-d grids contribute no rows);
    boundary_to_subdomain is its transpose and subdomain_to_boundary @ boundary_to_subdomain = identity.

All expected matrices are built as dense numpy arrays from integer offset arithmetic (and, for the mortar blocks, from
the per-interface projections, as the statement says).

Detection power (scratch copy of /repo/src, POREPY_SRC=<copy>, quick tier; each run exited 1 with VIOLATION):
  (filled in after the mutation runs)
"""
from __future__ import annotations

META = {
    "level": "exploration",
    "engine": "sweep",
    "technique": "run-time contract sweep (bounded stand-in for deduction): every projection matrix of the AD grid operators compared with an "
                 "independently assembled dense 0/1 (or per-interface block) matrix for all orderings and subsets of the grid lists of four small "
                 "real md-grids, quantity dimension 1-3",
    "text": "Bounded (tier B): four small md-grids (2-D X-intersection with 0-d point; 2-D single fracture with a refined, non-matching 1-d grid; "
            "3-D with two intersecting fractures; 2-D with two co-dimension-2 point couplings), quantity dimension 1, 2, 3. SubdomainProjections: "
            "every ordered subset as constructor list x every ordered subset of it as argument, all four methods. BoundaryProjection: every "
            "ordered subset. MortarProjections: quick - every ordered subset of subdomains x a structured selection of interface lists and vice "
            "versa; thorough - the full cross product of ordered subsets. Not covered: md-grids with more than four subdomains, interface lists "
            "mixing co-dimensions (rejected by porepy by design), Trace/Divergence operators (not part of the statement).",
    "note": "per-interface projections MortarGrid.*(nd) are the reference blocks for the mortar clause (C26 covers them); the boundary blocks are "
            "additionally checked against the domain_boundary_faces tags; tolerance 1e-12 on non-integer mortar weights, exact equality for 0/1 matrices",
}

import itertools

MORTAR_NAMES = ("mortar_to_primary_int", "mortar_to_primary_avg", "primary_to_mortar_int", "primary_to_mortar_avg",
                "mortar_to_secondary_int", "mortar_to_secondary_avg", "secondary_to_mortar_int", "secondary_to_mortar_avg")


def ordered_subsets(items, max_len=None):
    n = len(items)
    out = []
    for k in range(0, (n if max_len is None else min(n, max_len)) + 1):
        out.extend(itertools.permutations(range(n), k))
    return out


# ----------------------------------------------------------------------------- md-grids


def build_mdgs(pp, np):
    import scipy.sparse as sps

    MS = pp.grids.mortar_grid.MortarSides
    out = []
    # A: 2-D, X intersection, 1-d grids of different size, one 0-d grid
    mdg = pp.meshing.cart_grid([np.array([[0.0, 3.0], [1.0, 1.0]]), np.array([[1.0, 1.0], [0.0, 2.0]])], np.array([3, 2]))
    mdg.compute_geometry()
    out.append(("A: 2-d X-intersection (2d, two 1d, one 0d)", mdg))
    # B: 2-D, one fracture, 1-d grid refined -> non-matching secondary projections
    mdg = pp.meshing.cart_grid([np.array([[0.0, 2.0], [1.0, 1.0]])], np.array([3, 2]))
    g1 = mdg.subdomains(dim=1)[0]
    mdg.replace_subdomains_and_interfaces({g1: pp.refinement.refine_grid_1d(g1, ratio=2)})
    mdg.compute_geometry()
    out.append(("B: 2-d single fracture, refined non-matching 1d grid", mdg))
    # C: 3-D, two intersecting fractures of different size
    fa = np.array([[1.0, 1.0, 1.0, 1.0], [0.0, 2.0, 2.0, 0.0], [0.0, 0.0, 2.0, 2.0]])
    fb = np.array([[0.0, 3.0, 3.0, 0.0], [1.0, 1.0, 1.0, 1.0], [0.0, 0.0, 2.0, 2.0]])
    mdg = pp.meshing.cart_grid([fa, fb], np.array([3, 2, 2]))
    mdg.compute_geometry()
    out.append(("C: 3-d two intersecting fractures (3d, two 2d, one 1d)", mdg))
    # D: 2-D grid with two 0-d grids coupled by co-dimension-2 interfaces (wells-like)
    g2 = pp.CartGrid(np.array([3, 2]))
    g2.compute_geometry()
    mdg = pp.MixedDimensionalGrid()
    pts = [pp.PointGrid(np.array([0.5, 0.5, 0.0])), pp.PointGrid(np.array([2.5, 1.5, 0.0]))]
    for p in pts:
        p.compute_geometry()
    mdg.add_subdomains([g2] + pts)
    for p in pts:
        cell = int(np.argmin(np.sum((g2.cell_centers - p.cell_centers) ** 2, axis=0)))
        fc = sps.csc_matrix((np.ones(1), ([0], [cell])), shape=(1, g2.num_cells))
        mg = pp.MortarGrid(0, {MS.LEFT_SIDE: p.copy()}, fc, codim=2)
        mdg.add_interface(mg, (g2, p), fc)
    mdg.compute_geometry()
    mdg.set_boundary_grid_projections()
    out.append(("D: 2-d grid with two co-dimension-2 point couplings", mdg))
    return out


# ----------------------------------------------------------------------------- expected matrices (oracle)


def offsets(sizes, dim):
    off, acc = [], 0
    for n in sizes:
        off.append(acc)
        acc += n * dim
    return off, acc


def expected_prolongation(np, sizes_C, A, dim):
    """Dense (N x n_A) matrix: identity blocks of the grids A (indices into C) at the offsets of C."""
    offC, N = offsets(sizes_C, dim)
    offA, nA = offsets([sizes_C[a] for a in A], dim)
    E = np.zeros((N, nA))
    for s, a in enumerate(A):
        for i in range(sizes_C[a] * dim):
            E[offC[a] + i, offA[s] + i] = 1.0
    return E


def lists_class(n_all, C, A=None):
    c = "full, md-grid order" if list(C) == list(range(n_all)) else ("full, permuted" if len(C) == n_all else ("empty" if len(C) == 0 else "subset"))
    if A is None:
        return c
    if len(A) == 0:
        a = "empty"
    elif list(A) == list(C):
        a = "all, constructor order"
    elif len(A) == len(C):
        a = "all, permuted"
    else:
        a = "subset"
    return f"constructor list {c}; argument {a}"


# ----------------------------------------------------------------------------- checks


def check_subdomain_projections(pp, np, mdg, subs, C, dim, sw, rep, name):
    grids = [subs[i] for i in C]
    try:
        proj = pp.ad.SubdomainProjections(grids, dim)
    except Exception as e:  # noqa: BLE001
        rep.violation("SubdomainProjections: constructed for any list of distinct subdomains", f"dim {dim}; constructor list {lists_class(len(subs), C)}",
                      inputs={"mdg": name, "dim": dim, "constructor": list(C)}, detail=f"{type(e).__name__}: {e}", confirmed=True)
        return
    sizes = {"cell": [g.num_cells for g in grids], "face": [g.num_faces for g in grids]}
    for Apos in ordered_subsets(list(range(len(C)))):
        A = [grids[i] for i in Apos]
        mats = {}
        sig = f"dim {dim}; {lists_class(len(subs), C, [C[i] for i in Apos])}"
        inputs = {"mdg": name, "dim": dim, "constructor": list(C), "argument": [C[i] for i in Apos], "operator": "SubdomainProjections"}
        for kind in ("cell", "face"):
            E = expected_prolongation(np, sizes[kind], list(Apos), dim)
            for meth, exp in ((f"{kind}_prolongation", E), (f"{kind}_restriction", E.T)):
                sw.case(key=(name, dim, tuple(C), tuple(Apos), meth), nontrivial=len(Apos) > 0, sample=dict(inputs, method=meth) if len(C) == 3 and len(Apos) == 2 else None)
                try:
                    M = getattr(proj, meth)(list(A)).parse(mdg)
                    Md = M.toarray()
                except Exception as e:  # noqa: BLE001
                    rep.violation(f"SubdomainProjections.{meth}: defined for any ordered subset of the constructor list", sig, inputs=dict(inputs, method=meth),
                                  detail=f"{type(e).__name__}: {e}", confirmed=True)
                    continue
                mats[meth] = Md
                if Md.shape != exp.shape or not np.array_equal(Md, exp):
                    rep.violation(f"SubdomainProjections.{meth}: identity blocks in list order at offsets sum n_j*dim", sig, inputs=dict(inputs, method=meth),
                                  detail=f"shape {Md.shape} expected {exp.shape}; differing entries {int(np.sum(Md != exp)) if Md.shape == exp.shape else 'n/a'}", confirmed=True)
            if f"{kind}_prolongation" in mats and f"{kind}_restriction" in mats:
                R, P = mats[f"{kind}_restriction"], mats[f"{kind}_prolongation"]
                if R.shape[1] == P.shape[0]:
                    RP = R @ P
                    if not np.array_equal(RP, np.eye(RP.shape[0])):
                        rep.violation(f"SubdomainProjections: {kind} restriction @ prolongation = identity", sig, inputs=inputs, detail="product differs from the identity", confirmed=True)
                    if len(Apos) == len(C) and P.shape[0] == P.shape[1]:
                        ok = np.all((P == 0) | (P == 1)) and np.all(P.sum(axis=0) == 1) and np.all(P.sum(axis=1) == 1)
                        if not ok:
                            rep.violation(f"SubdomainProjections: {kind} prolongations of all listed grids form a permutation matrix", sig, inputs=inputs, detail="not a permutation matrix", confirmed=True)


def mortar_expected(np, mdg, S, J, dim, name):
    """Per-interface blocks at the global offsets (independent assembly)."""
    codims = {i.codim for i in J}
    to_mortar = name.split("_to_")[1].startswith("mortar")
    primary = "primary" in name
    use_faces = primary and (not J or codims == {1})
    sizes_S = [(g.num_faces if use_faces else g.num_cells) for g in S]
    offS, nS = offsets(sizes_S, dim)
    offJ, nJ = offsets([i.num_cells for i in J], dim)
    E = np.zeros((nJ, nS) if to_mortar else (nS, nJ))
    for k, intf in enumerate(J):
        hi, lo = mdg.interface_to_subdomain_pair(intf)
        g = hi if primary else lo
        pos = [n for n, s in enumerate(S) if s is g]
        if not pos:
            continue
        B = getattr(intf, name)(dim).toarray()
        r0, c0 = (offJ[k], offS[pos[0]]) if to_mortar else (offS[pos[0]], offJ[k])
        E[r0:r0 + B.shape[0], c0:c0 + B.shape[1]] += B
    return E


def check_mortar_projections(pp, np, mdg, subs, intfs, Sidx, Jidx, dim, sw, rep, name):
    S, J = [subs[i] for i in Sidx], [intfs[i] for i in Jidx]
    sig = f"dim {dim}; subdomains {lists_class(len(subs), Sidx)}; interfaces {lists_class(len(intfs), Jidx)}"
    inputs = {"mdg": name, "dim": dim, "subdomains": list(Sidx), "interfaces": list(Jidx), "operator": "MortarProjections"}
    try:
        proj = pp.ad.MortarProjections(mdg, S, J, dim)
    except Exception as e:  # noqa: BLE001
        rep.violation("MortarProjections: constructed for any subdomain / interface lists", sig, inputs=inputs, detail=f"{type(e).__name__}: {e}", confirmed=True)
        return
    for nm in MORTAR_NAMES:
        sw.case(key=(name, dim, tuple(Sidx), tuple(Jidx), nm), nontrivial=len(S) > 0 and len(J) > 0, sample=dict(inputs, method=nm) if len(Sidx) == 2 and len(Jidx) == 2 else None)
        try:
            Md = getattr(proj, nm)().parse(mdg).toarray()
        except Exception as e:  # noqa: BLE001
            rep.violation(f"MortarProjections.{nm}: defined for any lists of one co-dimension", sig, inputs=dict(inputs, method=nm), detail=f"{type(e).__name__}: {e}", confirmed=True)
            continue
        E = mortar_expected(np, mdg, S, J, dim, nm)
        if Md.shape != E.shape or float(np.max(np.abs(Md - E), initial=0.0)) > 1e-12:
            rep.violation(f"MortarProjections.{nm}: per-interface blocks at the global offsets", sig, inputs=dict(inputs, method=nm),
                          detail=f"shape {Md.shape} expected {E.shape}; max difference {float(np.max(np.abs(Md - E), initial=0.0)) if Md.shape == E.shape else 'n/a'}", confirmed=True)


def boundary_block(np, g, dim):
    """Selection of the domain-boundary faces of g in ascending order, component-wise (independent of BoundaryGrid)."""
    faces = np.where(g.tags["domain_boundary_faces"])[0]
    B = np.zeros((faces.size * dim, g.num_faces * dim))
    for r, f in enumerate(faces):
        for d in range(dim):
            B[r * dim + d, f * dim + d] = 1.0
    return B


def check_boundary_projection(pp, np, mdg, subs, Sidx, dim, sw, rep, name):
    S = [subs[i] for i in Sidx]
    sig = f"dim {dim}; subdomains {lists_class(len(subs), Sidx)}" + ("; contains a 0-d grid" if any(g.dim == 0 for g in S) else "")
    inputs = {"mdg": name, "dim": dim, "subdomains": list(Sidx), "operator": "BoundaryProjection"}
    sw.case(key=(name, dim, tuple(Sidx), "boundary"), nontrivial=len(S) > 0, sample=inputs if len(Sidx) == 2 else None)
    try:
        proj = pp.ad.BoundaryProjection(mdg, S, dim)
        s2b = proj.subdomain_to_boundary.parse(mdg).toarray()
        b2s = proj.boundary_to_subdomain.parse(mdg).toarray()
    except Exception as e:  # noqa: BLE001
        rep.violation("BoundaryProjection: defined for any list of subdomains", sig, inputs=inputs, detail=f"{type(e).__name__}: {e}", confirmed=True)
        return
    offF, nF = offsets([g.num_faces for g in S], dim)
    blocks = [boundary_block(np, g, dim) if g.dim > 0 else np.zeros((0, 0)) for g in S]
    nB = sum(b.shape[0] for b in blocks)
    E = np.zeros((nB, nF))
    r0 = 0
    for k, b in enumerate(blocks):
        E[r0:r0 + b.shape[0], offF[k]:offF[k] + b.shape[1]] = b
        r0 += b.shape[0]
    for g in S:
        if g.dim > 0:
            bg = mdg.subdomain_to_boundary_grid(g)
            if not np.array_equal(bg.projection(dim).toarray(), boundary_block(np, g, dim)):
                rep.violation("BoundaryGrid.projection: selects the domain-boundary faces in ascending order, per component", f"dim {dim}; {g.dim}-d grid", inputs=inputs,
                              detail="per-grid projection differs from the tag-based selection", confirmed=True)
    if s2b.shape != E.shape or not np.array_equal(s2b, E):
        rep.violation("BoundaryProjection.subdomain_to_boundary: per-grid blocks at the face offsets, rows in list order", sig, inputs=inputs,
                      detail=f"shape {s2b.shape} expected {E.shape}", confirmed=True)
    if b2s.shape != E.T.shape or not np.array_equal(b2s, E.T):
        rep.violation("BoundaryProjection.boundary_to_subdomain: transpose of subdomain_to_boundary", sig, inputs=inputs, detail=f"shape {b2s.shape} expected {E.T.shape}", confirmed=True)
    if s2b.shape[1] == b2s.shape[0] and not np.array_equal(s2b @ b2s, np.eye(s2b.shape[0])):
        rep.violation("BoundaryProjection: subdomain_to_boundary @ boundary_to_subdomain = identity", sig, inputs=inputs, detail="product differs from the identity", confirmed=True)


# ----------------------------------------------------------------------------- entry points


def interface_lists(intfs, tier, rng):
    """Ordered subsets of interfaces of one co-dimension."""
    by_codim = {}
    for n, i in enumerate(intfs):
        by_codim.setdefault(i.codim, []).append(n)
    out = [()]
    for idx in by_codim.values():
        for k in range(1, len(idx) + 1):
            out.extend(itertools.permutations(idx, k))
    return out


def run(rep):
    import warnings

    import numpy as np
    import porepy as pp

    warnings.simplefilter("ignore")
    quick = rep.tier == "quick"
    rep.under_contract("pp.ad.SubdomainProjections.cell_restriction", "pp.ad.SubdomainProjections.cell_prolongation", "pp.ad.SubdomainProjections.face_restriction",
                       "pp.ad.SubdomainProjections.face_prolongation", "pp.ad.MortarProjections (8 projections)", "pp.ad.BoundaryProjection",
                       "porepy.numerics.ad.grid_operators._cell_projections", "porepy.numerics.ad.grid_operators._face_projections", "pp.BoundaryGrid.projection")
    rep.assume("requires: constructor lists contain distinct subdomains of the md-grid; argument lists are ordered subsets (no repetition) of the constructor "
               "list; interface lists contain interfaces of a single co-dimension (1 or 2)")
    rep.trust("per-interface projections MortarGrid.*(nd) as reference blocks of the mortar clause (covered by C26)")
    mdgs = build_mdgs(pp, np)
    dims = (1, 2, 3)

    with rep.sweep(
        "SubdomainProjections",
        rule="for each md-grid (A, B, C, D) and dim in {1,2,3}: every ordered subset of the subdomains as constructor list x every ordered subset of it as argument "
             "x {cell,face}_{prolongation,restriction}; matrix compared entrywise with the expected 0/1 matrix; non-trivial when the argument is non-empty; distinct "
             "by (md-grid, dim, constructor list, argument list, method)",
        bound="md-grids with <= 4 subdomains; dim <= 3",
        exhaustive=True,
    ) as sw:
        for name, mdg in mdgs:
            subs = mdg.subdomains()
            for dim in dims:
                for C in ordered_subsets(subs):
                    check_subdomain_projections(pp, np, mdg, subs, C, dim, sw, rep, name)

    with rep.sweep(
        "BoundaryProjection",
        rule="for each md-grid and dim in {1,2,3}: every ordered subset of the subdomains; subdomain_to_boundary / boundary_to_subdomain compared with the "
             "tag-based selection blocks at the face offsets; non-trivial when the list is non-empty",
        bound="md-grids with <= 4 subdomains; dim <= 3",
        exhaustive=True,
    ) as sw:
        for name, mdg in mdgs:
            subs = mdg.subdomains()
            for dim in dims:
                for Sidx in ordered_subsets(subs):
                    check_boundary_projection(pp, np, mdg, subs, Sidx, dim, sw, rep, name)

    with rep.sweep(
        "MortarProjections",
        rule="for each md-grid and dim in {1,2,3}: (subdomain list, interface list) pairs x the 8 projections, each compared with the per-interface blocks at "
             "the global offsets; thorough: full cross product of ordered subsets of subdomains and ordered subsets of interfaces of one co-dimension; quick: "
             "every ordered subdomain subset x {all interfaces in md-grid order, reversed, 2 seeded permutations/subsets, empty} plus every interface list x "
             "{all subdomains in md-grid order, reversed, one seeded subset}; non-trivial when both lists are non-empty",
        bound="md-grids with <= 4 subdomains and <= 4 interfaces; dim <= 3",
        exhaustive=not quick,
    ) as sw:
        for name, mdg in mdgs:
            subs, intfs = mdg.subdomains(), mdg.interfaces()
            S_all = ordered_subsets(subs)
            J_all = interface_lists(intfs, rep.tier, rep.rng)
            for dim in dims:
                if quick:
                    full_J = [j for j in J_all if len(j) == max(len(x) for x in J_all)]
                    J_sel = {(), full_J[0], full_J[-1]} | set(rep.rng.sample(J_all, min(2, len(J_all))))
                    n = len(subs)
                    S_sel = {tuple(range(n)), tuple(range(n))[::-1], rep.rng.choice(S_all)}
                    pairs = {(s, j) for s in S_all for j in J_sel} | {(s, j) for s in S_sel for j in J_all}
                    pairs = sorted(pairs)
                else:
                    pairs = [(s, j) for s in S_all for j in J_all]
                for Sidx, Jidx in pairs:
                    check_mortar_projections(pp, np, mdg, subs, intfs, Sidx, Jidx, dim, sw, rep, name)


def replay(data):
    import warnings

    import numpy as np
    import porepy as pp

    from engine.report import Report

    warnings.simplefilter("ignore")
    inp = data.get("inputs") or {}
    if "mdg" not in inp:
        return False
    name, mdg = [m for m in build_mdgs(pp, np) if m[0] == inp["mdg"]][0]
    rep = Report("C27-replay", "quick", 0)
    subs, intfs = mdg.subdomains(), mdg.interfaces()
    with rep.sweep("replay", "replay", "replay") as sw:
        if inp.get("operator") == "SubdomainProjections":
            check_subdomain_projections(pp, np, mdg, subs, tuple(inp["constructor"]), inp["dim"], sw, rep, name)
        elif inp.get("operator") == "MortarProjections":
            check_mortar_projections(pp, np, mdg, subs, intfs, tuple(inp["subdomains"]), tuple(inp["interfaces"]), inp["dim"], sw, rep, name)
        elif inp.get("operator") == "BoundaryProjection":
            check_boundary_projection(pp, np, mdg, subs, tuple(inp["subdomains"]), inp["dim"], sw, rep, name)
    for v in rep.violations:
        print("replay:", v["obligation"], "|", v["signature"], "|", v["detail"][:200])
    return bool(rep.violations)
