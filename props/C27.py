"""C27 -- global projection operators are consistent permutations.

Tier B, exhaustive orderings.  Postconditions on ``pp.ad.SubdomainProjections.{cell,face}_{restriction,prolongation}``,
``pp.ad.MortarProjections.{mortar_to_X,X_to_mortar}_{int,avg}`` (X in primary, secondary) and
``pp.ad.BoundaryProjection.{subdomain_to_boundary, boundary_to_subdomain}`` (evaluated with ``.parse(mdg)``) for
small real md-grids, quantity dimension 1, 2, 3:

  * the matrix returned for a constructor list C = [g_1..g_k] and an argument list A (any ordering of any subset of C)
    equals the 0/1 matrix whose column block for the s-th grid of A is the identity placed at row offset
    dim * sum_{j before g in C} n_j and column offset dim * sum_{t<s} n_{a_t} (n = cells or faces); restrictions are the
    transposes;
  * restriction(A) @ prolongation(A) = identity; for A a permutation of C the prolongation is a permutation matrix;
  * mortar projections for (subdomain list S, interface list J) equal the per-interface projection
    ``intf.<name>(dim)`` placed at the face (co-dimension 1 primary) / cell (secondary, co-dimension 2 primary) offset of
    its subdomain in S and the mortar-cell offset of the interface in J; zero blocks for subdomains not in S;
  * boundary projection equals the per-grid boundary selection (domain-boundary faces in ascending order, component-wise
    for vectors) at the face offsets of S, rows stacked in list order (0-d grids contribute no rows);
    boundary_to_subdomain is its transpose and subdomain_to_boundary @ boundary_to_subdomain = identity.

All expected matrices are built in triplet form from integer offset arithmetic (and, for the mortar blocks, from
the per-interface projections, as the statement says).

Mortar grids that do not match the PRIMARY grid (md-grids F - I: mortar grid refined, coarser and not nested, refined
on one of several interfaces, re-triangulated 2-d mortar grid in 3-d): there the integrating and averaging projections
to / from the primary faces differ, so each of the eight global projections is tied to its own per-interface
projection (md-grids A - E are conforming on the primary side, where *_int and *_avg to the primary grid coincide).
Order of requests: one MortarProjections object asked for the eight projections in the reversed order (averaging
before integrating) and then a second time (the object stores what it has built); every answer must be the expected one.

Detection power (scratch copy of /repo/src with the candidate defect below repaired so that the baseline exits 0,
POREPY_SRC=<copy>, quick tier; every mutant run exited 1 with VIOLATION lines):
  M1 grid_operators._cell_projections: ``cell_offset = cell_ind[-1] + 1`` -> ``cell_offset += sd.num_cells`` (dim factor lost)
       caught by "SubdomainProjections.cell_prolongation/cell_restriction: identity blocks at offsets sum n_j*dim" (dim 2, 3), mortar clauses
  M2 grid_operators._face_projections: offset advanced for ``sd.dim > 1`` only
       caught by "SubdomainProjections.face_prolongation/face_restriction: identity blocks at offsets sum n_j*dim"
  M3 MortarProjections.mortar_to_secondary_avg builds the *_int projection
       caught by "MortarProjections.mortar_to_secondary_avg: per-interface blocks at global offsets" (md-grid B, non-matching)
  M4 boundary_grid.set_projections: boundary faces taken in descending order
       caught by "BoundaryGrid.projection: selects the domain-boundary faces in order", "BoundaryProjection.subdomain_to_boundary: ..."
  M5 SubdomainProjections.cell_prolongation: blocks emitted in constructor order instead of argument order
       caught by "SubdomainProjections.cell_prolongation: identity blocks at offsets sum n_j*dim", "cell restriction @ prolongation = identity"

Candidate defect of the unchanged tree found by this check (kept strict; reported to the lead):
  MortarProjections._construct_projection sizes the zero block of an interface whose primary subdomain is not in the
  subdomain list with the number of FACES of the listed subdomains even for co-dimension-2 interfaces, whose primary
  projections act on CELLS: the primary projections then have inconsistent shapes (e.g. (0, m) for a list holding only
  the 0-d grid, where the cell-based size is (dim*1, m)).  signature "codim [2]; primary subdomains listed: none".
"""
from __future__ import annotations

META = {
    "level": "other",
    "engine": "pse",
    "technique": "contract-based deductive verification of the subdomain projections: the real _cell_projections / _face_projections and "
                 "SubdomainProjections methods run on stub grids with symbolic cell / face counts (<= 3 grids, all ordered sub-lists, dim 1-3); "
                 "entrywise placement, transposition, injectivity and identity postconditions discharged by z3 (linear integer arithmetic); "
                 "run-time contract sweep (bounded stand-in) for all projection classes: every projection matrix of the AD grid operators compared with an "
                 "independently assembled 0/1 (or per-interface block) matrix for all orderings and subsets of the grid lists of nine small "
                 "real md-grids (four of them with mortar grids that do not match the primary grid), quantity dimension 1-3",
    "text": "Bounded (tier B): four small md-grids (2-D X-intersection with 0-d point; 2-D single fracture with a refined, non-matching 1-d grid; "
            "3-D with two intersecting fractures; 2-D with two co-dimension-2 point couplings), quantity dimension 1, 2, 3. SubdomainProjections: "
            "every ordered subset as constructor list x every ordered subset of it as argument, all four methods. BoundaryProjection: every "
            "ordered subset. MortarProjections: quick - every ordered subset of subdomains x a structured selection of interface lists and vice "
            "versa; thorough - the full cross product of ordered subsets. Added md-grids E (1-d grid coarsened, mortar finer than secondary) and F - I with "
            "a replaced MORTAR grid, non-conforming on the primary side (F: 2-D, coarser and not nested, the two sides differ; G: two fractures, one "
            "mortar grid refined, one conforming; H: X-intersection with one refined 2d-1d mortar grid; I: 3-D tetrahedra, 2-d mortar grid "
            "re-triangulated), so that integrating and averaging primary projections differ. Order of requests: the 8 projections requested from one "
            "object in reversed order and a second time (stored matrices), for a selection of list pairs. Not covered: md-grids with more than four subdomains, interface lists "
            "mixing co-dimensions (rejected by porepy by design), Trace/Divergence operators (not part of the statement).",
    "note": "per-interface projections MortarGrid.*(nd) are the reference blocks for the mortar clause (C26 covers them); the boundary blocks are "
            "additionally checked against the domain_boundary_faces tags; tolerance 1e-12 on non-integer mortar weights, exact equality for 0/1 matrices",
}

import itertools

MORTAR_NAMES = ("mortar_to_primary_int", "mortar_to_primary_avg", "primary_to_mortar_int", "primary_to_mortar_avg",
                "mortar_to_secondary_int", "mortar_to_secondary_avg", "secondary_to_mortar_int", "secondary_to_mortar_avg")


def ordered_subsets(items, max_len=None):
    n = len(items)
    out = []
    for k in range(0, (n if max_len is None else min(n, max_len)) + 1):
        out.extend(itertools.permutations(range(n), k))
    return out


# ----------------------------------------------------------------------------- md-grids


def build_mdgs(pp, np):
    import scipy.sparse as sps

    MS = pp.grids.mortar_grid.MortarSides
    out = []
    # A: 2-D, X intersection, 1-d grids of different size, one 0-d grid
    mdg = pp.meshing.cart_grid([np.array([[0.0, 3.0], [1.0, 1.0]]), np.array([[1.0, 1.0], [0.0, 2.0]])], np.array([3, 2]))
    mdg.compute_geometry()
    out.append(("A: 2-d X-intersection (2d, two 1d, one 0d)", mdg))
    # B: 2-D, one fracture, 1-d grid refined -> non-matching secondary projections
    mdg = pp.meshing.cart_grid([np.array([[0.0, 2.0], [1.0, 1.0]])], np.array([3, 2]))
    g1 = mdg.subdomains(dim=1)[0]
    mdg.replace_subdomains_and_interfaces({g1: pp.refinement.refine_grid_1d(g1, ratio=2)})
    mdg.compute_geometry()
    out.append(("B: 2-d single fracture, refined non-matching 1d grid", mdg))
    # C: 3-D, two intersecting fractures of different size
    fa = np.array([[1.0, 1.0, 1.0, 1.0], [0.0, 2.0, 2.0, 0.0], [0.0, 0.0, 2.0, 2.0]])
    fb = np.array([[0.0, 3.0, 3.0, 0.0], [1.0, 1.0, 1.0, 1.0], [0.0, 0.0, 2.0, 2.0]])
    mdg = pp.meshing.cart_grid([fa, fb], np.array([3, 2, 2]))
    mdg.compute_geometry()
    out.append(("C: 3-d two intersecting fractures (3d, two 2d, one 1d)", mdg))
    # D: 2-D grid with two 0-d grids coupled by co-dimension-2 interfaces (wells-like)
    g2 = pp.CartGrid(np.array([3, 2]))
    g2.compute_geometry()
    mdg = pp.MixedDimensionalGrid()
    pts = [pp.PointGrid(np.array([0.5, 0.5, 0.0])), pp.PointGrid(np.array([2.5, 1.5, 0.0]))]
    for p in pts:
        p.compute_geometry()
    mdg.add_subdomains([g2] + pts)
    for p in pts:
        cell = int(np.argmin(np.sum((g2.cell_centers - p.cell_centers) ** 2, axis=0)))
        fc = sps.csc_matrix((np.ones(1), ([0], [cell])), shape=(1, g2.num_cells))
        mg = pp.MortarGrid(0, {MS.LEFT_SIDE: p.copy()}, fc, codim=2)
        mdg.add_interface(mg, (g2, p), fc)
    mdg.compute_geometry()
    mdg.set_boundary_grid_projections()
    out.append(("D: 2-d grid with two co-dimension-2 point couplings", mdg))
    # E: 2-D, one fracture, 1-d grid COARSENED to a single cell: the mortar grid is a nested refinement of the secondary grid
    # (mortar -> secondary: integrating weights all 1, averaging weights 1/2)
    mdg = pp.meshing.cart_grid([np.array([[0.0, 2.0], [1.0, 1.0]])], np.array([3, 2]))
    g1 = mdg.subdomains(dim=1)[0]
    coarse = pp.TensorGrid(np.array([0.0, 2.0]))
    coarse.nodes[1] = 1.0
    coarse.compute_geometry()
    mdg.replace_subdomains_and_interfaces({g1: coarse})
    mdg.compute_geometry()
    out.append(("E: 2-d single fracture, 1d grid coarsened to one cell (mortar finer than secondary)", mdg))

    # F - I: the MORTAR grid itself is replaced, so that the interface is non-conforming on the PRIMARY side as well (integrating and
    # averaging projections to / from the primary faces differ; A - E are conforming on the primary side).
    def line(p0, p1, ts):
        ts = np.asarray(ts, dtype=float)
        g = pp.TensorGrid(ts)
        p0, p1 = np.asarray(p0, dtype=float), np.asarray(p1, dtype=float)
        g.nodes = p0[:, None] + (p1 - p0)[:, None] * ts[None, :]
        g.compute_geometry()
        return g

    # F: 2-D, one fracture, mortar sides replaced by coarser grids that are NOT nested in the primary faces / secondary cells
    # (fractional weights, the two sides differ)
    mdg = pp.meshing.cart_grid([np.array([[0.0, 4.0], [1.0, 1.0]])], np.array([4, 2]))
    intf = mdg.interfaces()[0]
    sides = list(intf.side_grids)
    new = {sides[0]: line([0, 1, 0], [4, 1, 0], [0, 0.375, 1]), sides[1]: line([0, 1, 0], [4, 1, 0], [0, 0.625, 0.75, 1])}
    mdg.replace_subdomains_and_interfaces(interface_map={intf: new})
    mdg.compute_geometry()
    out.append(("F: 2-d single fracture, mortar grid coarser and not nested (non-conforming on both sides)", mdg))
    # G: 2-D, two parallel fractures; mortar grid of the first refined (ratio 3 on one side, 2 on the other), the second conforming
    mdg = pp.meshing.cart_grid([np.array([[0.0, 4.0], [1.0, 1.0]]), np.array([[1.0, 3.0], [2.0, 2.0]])], np.array([4, 3]))
    intf = mdg.interfaces()[0]
    new = {s: pp.refinement.refine_grid_1d(g, ratio=3 - k) for k, (s, g) in enumerate(intf.side_grids.items())}
    mdg.replace_subdomains_and_interfaces(interface_map={intf: new})
    mdg.compute_geometry()
    out.append(("G: 2-d two parallel fractures, mortar grid of the first refined (one conforming and one non-conforming interface)", mdg))
    # H: 2-D X intersection, mortar grid of one 2d-1d interface refined by 3 (lists mix it with conforming 1-d and 0-d interfaces)
    mdg = pp.meshing.cart_grid([np.array([[0.0, 2.0], [1.0, 1.0]]), np.array([[1.0, 1.0], [0.0, 2.0]])], np.array([2, 2]))
    intf = mdg.interfaces(dim=1)[0]
    mdg.replace_subdomains_and_interfaces(interface_map={intf: {s: pp.refinement.refine_grid_1d(g, ratio=3) for s, g in intf.side_grids.items()}})
    mdg.compute_geometry()
    out.append(("H: 2-d X-intersection, mortar grid of one 2d-1d interface refined", mdg))
    # I: 3-D tetrahedral grid with a 2-d triangle grid on its boundary plane x = 0 (hand-built, one-sided interface); the 2-d mortar
    # grid is replaced by another triangulation of the same square (not nested: overlaps computed by match_2d)
    g3 = pp.StructuredTetrahedralGrid(np.array([1, 1, 1]))
    g3.compute_geometry()
    faces = np.where(np.abs(g3.face_centers[0]) < 1e-10)[0]
    g2, _, _ = pp.partition.extract_subgrid(g3, faces, faces=True)
    g2.compute_geometry()
    mdg = pp.MixedDimensionalGrid()
    mdg.add_subdomains([g3, g2])
    fc = sps.csc_matrix((np.ones(g2.num_cells), (np.arange(g2.num_cells), faces)), shape=(g2.num_cells, g3.num_faces))
    mdg.add_interface(pp.MortarGrid(2, {MS.LEFT_SIDE: g2.copy()}, fc), (g3, g2), fc)
    mdg.compute_geometry()
    tri = pp.StructuredTriangleGrid(np.array([2, 1]), np.array([1.0, 1.0]))
    tri.nodes = np.vstack([np.zeros(tri.num_nodes), tri.nodes[0], tri.nodes[1]])
    tri.compute_geometry()
    mdg.replace_subdomains_and_interfaces(interface_map={mdg.interfaces()[0]: {MS.LEFT_SIDE: tri}})
    mdg.compute_geometry()
    mdg.set_boundary_grid_projections()
    out.append(("I: 3-d tetrahedra with a 2-d triangle grid on a boundary plane, 2-d mortar grid re-triangulated (not nested)", mdg))
    return out


def primary_side_nonconforming(np, mdg):
    """Interfaces of the md-grid whose integrating and averaging mortar -> primary projections differ (from the per-interface matrices)."""
    out = []
    for n, intf in enumerate(mdg.interfaces()):
        a, b = intf.mortar_to_primary_int(1), intf.mortar_to_primary_avg(1)
        if a.shape != b.shape or abs(a - b).max() > 1e-6:
            out.append(n)
    return out


# ----------------------------------------------------------------------------- expected matrices (oracle)
# Matrices are compared in canonical triplet form (shape, sorted (row, col) of the non-zero entries, values).


def offsets(sizes, dim):
    off, acc = [], 0
    for n in sizes:
        off.append(acc)
        acc += int(n) * dim
    return off, acc


def canon(np, M):
    """Canonical triplets of a scipy sparse matrix (duplicates summed, explicit zeros dropped)."""
    M = M.tocoo()
    if M.nnz == 0:
        return M.shape, np.zeros(0, dtype=np.int64), np.zeros(0, dtype=np.int64), np.zeros(0)
    key = M.row.astype(np.int64) * max(M.shape[1], 1) + M.col.astype(np.int64)
    uk, inv = np.unique(key, return_inverse=True)
    val = np.zeros(uk.size)
    np.add.at(val, inv, M.data.astype(float))
    keep = val != 0
    uk, val = uk[keep], val[keep]
    return M.shape, uk // max(M.shape[1], 1), uk % max(M.shape[1], 1), val


def canon_triplets(np, shape, rows, cols, vals):
    rows, cols, vals = np.asarray(rows, dtype=np.int64), np.asarray(cols, dtype=np.int64), np.asarray(vals, dtype=float)
    if rows.size == 0:
        return shape, rows, cols, vals
    key = rows * max(shape[1], 1) + cols
    uk, inv = np.unique(key, return_inverse=True)
    val = np.zeros(uk.size)
    np.add.at(val, inv, vals)
    keep = val != 0
    uk, val = uk[keep], val[keep]
    return shape, uk // max(shape[1], 1), uk % max(shape[1], 1), val


def same(np, a, b, tol=0.0):
    return a[0] == b[0] and a[1].size == b[1].size and bool(np.array_equal(a[1], b[1])) and bool(np.array_equal(a[2], b[2])) and \
        (bool(np.array_equal(a[3], b[3])) if tol == 0.0 else bool(np.all(np.abs(a[3] - b[3]) <= tol)))


def transposed(np, c):
    shape, r, col, v = c
    return canon_triplets(np, (shape[1], shape[0]), col, r, v)


def expected_prolongation(np, sizes_C, A, dim):
    """(N x n_A) 0/1 matrix: identity blocks of the grids A (positions in C) at the offsets of C, columns in the order of A."""
    offC, N = offsets(sizes_C, dim)
    offA, nA = offsets([sizes_C[a] for a in A], dim)
    rows, cols = [], []
    for s, a in enumerate(A):
        k = np.arange(sizes_C[a] * dim, dtype=np.int64)
        rows.append(offC[a] + k)
        cols.append(offA[s] + k)
    rows = np.concatenate(rows) if rows else np.zeros(0, dtype=np.int64)
    cols = np.concatenate(cols) if cols else np.zeros(0, dtype=np.int64)
    return canon_triplets(np, (N, nA), rows, cols, np.ones(rows.size))


def lists_class(n_all, C, A=None):
    c = "full sorted" if list(C) == list(range(n_all)) else ("full permuted" if len(C) == n_all else ("empty" if len(C) == 0 else "subset"))
    if A is None:
        return c
    if len(A) == 0:
        a = "empty"
    elif list(A) == list(C):
        a = "all same order"
    elif len(A) == len(C):
        a = "all permuted"
    else:
        a = "subset"
    return f"ctor {c}; arg {a}"


# ----------------------------------------------------------------------------- checks


def check_subdomain_projections(pp, np, mdg, subs, C, dim, sw, rep, name, quick=False):
    import scipy.sparse as sps

    grids = [subs[i] for i in C]
    try:
        proj = pp.ad.SubdomainProjections(grids, dim)
    except Exception as e:  # noqa: BLE001
        rep.violation("SubdomainProjections: constructed for any list of distinct subdomains", f"dim {dim}; ctor {lists_class(len(subs), C)}",
                      inputs={"mdg": name, "dim": dim, "constructor": list(C), "operator": "SubdomainProjections"}, detail=f"{type(e).__name__}: {e}", confirmed=True)
        return
    sizes = {"cell": [g.num_cells for g in grids], "face": [g.num_faces for g in grids]}
    for Apos in ordered_subsets(list(range(len(C)))):
        if quick and len(C) >= 4 and len(Apos) == 3:
            continue  # quick tier: for 4-grid constructor lists the 3-element arguments are left to the thorough tier
        A = [grids[i] for i in Apos]
        sig = f"dim {dim}; {lists_class(len(subs), C, [C[i] for i in Apos])}"
        inputs = {"mdg": name, "dim": dim, "constructor": list(C), "argument": [C[i] for i in Apos], "operator": "SubdomainProjections"}
        for kind in ("cell", "face"):
            E = expected_prolongation(np, sizes[kind], list(Apos), dim)
            mats = {}
            for meth, exp in ((f"{kind}_prolongation", E), (f"{kind}_restriction", transposed(np, E))):
                sw.case(key=(name, dim, tuple(C), tuple(Apos), meth), nontrivial=len(Apos) > 0, sample=dict(inputs, method=meth) if len(C) == 3 and len(Apos) == 2 else None)
                try:
                    M = getattr(proj, meth)(list(A)).parse(mdg)
                    got = canon(np, M)
                except Exception as e:  # noqa: BLE001
                    rep.violation(f"SubdomainProjections.{meth}: defined for any ordered subset", sig, inputs=dict(inputs, method=meth),
                                  detail=f"{type(e).__name__}: {e}", confirmed=True)
                    continue
                mats[meth] = M
                if not same(np, got, exp):
                    rep.violation(f"SubdomainProjections.{meth}: identity blocks at offsets sum n_j*dim", sig, inputs=dict(inputs, method=meth),
                                  detail=f"shape {got[0]} expected {exp[0]}; non-zeros {got[1].size} expected {exp[1].size}", confirmed=True)
            if len(mats) == 2:
                R, P = mats[f"{kind}_restriction"], mats[f"{kind}_prolongation"]
                if R.shape[1] == P.shape[0]:
                    RP = canon(np, sps.csr_matrix(R) @ sps.csc_matrix(P))
                    n = R.shape[0]
                    if not same(np, RP, canon_triplets(np, (n, n), np.arange(n), np.arange(n), np.ones(n))):
                        rep.violation(f"SubdomainProjections: {kind} restriction @ prolongation = identity", sig, inputs=inputs, detail="product differs from the identity", confirmed=True)
                    if len(Apos) == len(C):
                        c = canon(np, P)
                        ok = P.shape[0] == P.shape[1] and c[1].size == P.shape[0] and bool(np.all(c[3] == 1)) and \
                            np.unique(c[1]).size == P.shape[0] and np.unique(c[2]).size == P.shape[0]
                        if not ok:
                            rep.violation(f"SubdomainProjections: all {kind} prolongations form a permutation", sig, inputs=inputs, detail="not a permutation matrix", confirmed=True)


_BLOCKS = {}


def _block(intf, name, dim):
    """Per-interface projection intf.<name>(dim) in triplet form (cached: the interfaces are not modified during the sweep)."""
    key = (id(intf), name, dim)
    if key not in _BLOCKS:
        B = getattr(intf, name)(dim).tocoo()
        _BLOCKS[key] = (B.shape, B.row.copy(), B.col.copy(), B.data.astype(float))
    return _BLOCKS[key]


def mortar_expected(np, mdg, S, J, dim, name, pairs):
    """Per-interface blocks at the global offsets (independent assembly in triplet form)."""
    codims = {i.codim for i in J}
    to_mortar = name.split("_to_")[1].startswith("mortar")
    primary = "primary" in name
    use_faces = primary and (not J or codims == {1})
    sizes_S = [(g.num_faces if use_faces else g.num_cells) for g in S]
    offS, nS = offsets(sizes_S, dim)
    offJ, nJ = offsets([i.num_cells for i in J], dim)
    rows, cols, vals = [], [], []
    for k, intf in enumerate(J):
        hi, lo = pairs[id(intf)]
        g = hi if primary else lo
        pos = [n for n, s in enumerate(S) if s is g]
        if not pos:
            continue
        _, brow, bcol, bdata = _block(intf, name, dim)
        r0, c0 = (offJ[k], offS[pos[0]]) if to_mortar else (offS[pos[0]], offJ[k])
        rows.append(brow.astype(np.int64) + r0)
        cols.append(bcol.astype(np.int64) + c0)
        vals.append(bdata)
    z = np.zeros(0, dtype=np.int64)
    return canon_triplets(np, (nJ, nS) if to_mortar else (nS, nJ), np.concatenate(rows) if rows else z, np.concatenate(cols) if cols else z,
                          np.concatenate(vals) if vals else np.zeros(0))


_NONCONF = {}


def check_mortar_projections(pp, np, mdg, subs, intfs, Sidx, Jidx, dim, sw, rep, name, history="forward"):
    """history "forward": the eight projections are requested once, in the order of MORTAR_NAMES, from one MortarProjections object.
    history "reverse+repeat": requested in the reversed order (averaging before integrating, secondary before primary) and then all a
    second time from the same object (the object stores the matrices it has built); every returned matrix must be the expected one."""
    S, J = [subs[i] for i in Sidx], [intfs[i] for i in Jidx]
    codim = sorted({i.codim for i in J})
    pairs = {id(i): tuple(mdg.interface_to_subdomain_pair(i)) for i in J}
    if name not in _NONCONF:
        _NONCONF[name] = set(primary_side_nonconforming(np, mdg))
    nc = [j in _NONCONF[name] for j in Jidx]
    conf = "" if not any(nc) else ("; primary side non-conforming: " + ("all interfaces" if all(nc) else "some interfaces"))

    def listed(which):
        gs = [pairs[id(i)][0 if which == "primary" else 1] for i in J]
        n = sum(1 for g in gs if any(g is s for s in S))
        return "no interface" if not gs else ("all" if n == len(gs) else ("none" if n == 0 else "some"))

    inputs = {"mdg": name, "dim": dim, "subdomains": list(Sidx), "interfaces": list(Jidx), "operator": "MortarProjections"}
    order = f"dim {dim}; subdomains {lists_class(len(subs), Sidx)}; interfaces {lists_class(len(intfs), Jidx)}"
    try:
        proj = pp.ad.MortarProjections(mdg, S, J, dim)
    except Exception as e:  # noqa: BLE001
        rep.violation("MortarProjections: constructed for any subdomain / interface lists", f"co-dimension {codim}", inputs=inputs, detail=f"{order}: {type(e).__name__}: {e}", confirmed=True)
        return
    if history != "forward":
        inputs["history"] = history
    calls = [(nm, 1) for nm in MORTAR_NAMES] if history == "forward" else \
        [(nm, 1) for nm in reversed(MORTAR_NAMES)] + [(nm, 2) for nm in MORTAR_NAMES]
    for nm, nth in calls:
        which = "primary" if "primary" in nm else "secondary"
        sig = f"codim {codim}; {which} subdomains listed: {listed(which)}" + (conf if which == "primary" else "") + \
            ("" if history == "forward" else ("; requested in reversed order" if nth == 1 else "; second request on the same object"))
        sw.case(key=(name, dim, tuple(Sidx), tuple(Jidx), nm) + (() if history == "forward" else (history, nth)), nontrivial=len(S) > 0 and len(J) > 0,
                sample=dict(inputs, method=nm) if len(Sidx) == 2 and len(Jidx) == 2 else None)
        try:
            got = canon(np, getattr(proj, nm)().parse(mdg))
        except Exception as e:  # noqa: BLE001
            rep.violation(f"MortarProjections.{nm}: defined for any lists of one co-dimension", sig, inputs=dict(inputs, method=nm), detail=f"{order}: {type(e).__name__}: {e}", confirmed=True)
            continue
        E = mortar_expected(np, mdg, S, J, dim, nm, pairs)
        if not same(np, got, E, 1e-12):
            dv = ""
            if got[0] == E[0] and got[1].size == E[1].size and np.array_equal(got[1], E[1]) and np.array_equal(got[2], E[2]):
                k = int(np.argmax(np.abs(got[3] - E[3])))
                dv = f"; same sparsity pattern, entry ({int(got[1][k])}, {int(got[2][k])}) = {got[3][k]:.6g} expected {E[3][k]:.6g} (weights of intf.{nm})"
            rep.violation(f"MortarProjections.{nm}: per-interface blocks at global offsets", sig, inputs=dict(inputs, method=nm),
                          detail=f"{order}: shape {got[0]} expected {E[0]}; non-zeros {got[1].size} expected {E[1].size}{dv}", confirmed=True)


def boundary_block(np, g, dim):
    """Selection of the domain-boundary faces of g in ascending order, component-wise (independent of BoundaryGrid): (shape, rows, cols)."""
    faces = np.where(g.tags["domain_boundary_faces"])[0].astype(np.int64)
    r = np.arange(faces.size, dtype=np.int64)
    rows = (r[:, None] * dim + np.arange(dim)[None, :]).ravel()
    cols = (faces[:, None] * dim + np.arange(dim)[None, :]).ravel()
    return (faces.size * dim, g.num_faces * dim), rows, cols


def check_boundary_projection(pp, np, mdg, subs, Sidx, dim, sw, rep, name):
    import scipy.sparse as sps

    S = [subs[i] for i in Sidx]
    sig = f"dim {dim}; subdomains {lists_class(len(subs), Sidx)}" + ("; contains a 0-d grid" if any(g.dim == 0 for g in S) else "")
    inputs = {"mdg": name, "dim": dim, "subdomains": list(Sidx), "operator": "BoundaryProjection"}
    sw.case(key=(name, dim, tuple(Sidx), "boundary"), nontrivial=len(S) > 0, sample=inputs if len(Sidx) == 2 else None)
    try:
        proj = pp.ad.BoundaryProjection(mdg, S, dim)
        s2b_m = proj.subdomain_to_boundary.parse(mdg)
        b2s_m = proj.boundary_to_subdomain.parse(mdg)
        s2b, b2s = canon(np, s2b_m), canon(np, b2s_m)
    except Exception as e:  # noqa: BLE001
        rep.violation("BoundaryProjection: defined for any list of subdomains", sig, inputs=inputs, detail=f"{type(e).__name__}: {e}", confirmed=True)
        return
    offF, nF = offsets([g.num_faces for g in S], dim)
    rows, cols, r0 = [], [], 0
    for k, g in enumerate(S):
        if g.dim == 0:
            continue
        shape, r, c = boundary_block(np, g, dim)
        rows.append(r + r0)
        cols.append(c + offF[k])
        r0 += shape[0]
        bg = mdg.subdomain_to_boundary_grid(g)
        if not same(np, canon(np, bg.projection(dim)), canon_triplets(np, shape, r, c, np.ones(r.size))):
            rep.violation("BoundaryGrid.projection: selects the domain-boundary faces in order", f"dim {dim}; {g.dim}-d grid", inputs=inputs,
                          detail="per-grid projection differs from the tag-based selection", confirmed=True)
    z = np.zeros(0, dtype=np.int64)
    rows, cols = (np.concatenate(rows) if rows else z), (np.concatenate(cols) if cols else z)
    E = canon_triplets(np, (r0, nF), rows, cols, np.ones(rows.size))
    if not same(np, s2b, E):
        rep.violation("BoundaryProjection.subdomain_to_boundary: per-grid blocks at face offsets", sig, inputs=inputs,
                      detail=f"shape {s2b[0]} expected {E[0]}", confirmed=True)
    if not same(np, b2s, transposed(np, E)):
        rep.violation("BoundaryProjection.boundary_to_subdomain: transpose of subdomain_to_boundary", sig, inputs=inputs, detail=f"shape {b2s[0]} expected {(E[0][1], E[0][0])}", confirmed=True)
    if s2b[0][1] == b2s[0][0]:
        n = s2b[0][0]
        if not same(np, canon(np, sps.csr_matrix(s2b_m) @ sps.csc_matrix(b2s_m)), canon_triplets(np, (n, n), np.arange(n), np.arange(n), np.ones(n))):
            rep.violation("BoundaryProjection: subdomain_to_boundary @ boundary_to_subdomain = identity", sig, inputs=inputs, detail="product differs from the identity", confirmed=True)


# ----------------------------------------------------------------------------- entry points


def interface_lists(intfs, tier, rng):
    """Ordered subsets of interfaces of one co-dimension."""
    by_codim = {}
    for n, i in enumerate(intfs):
        by_codim.setdefault(i.codim, []).append(n)
    out = [()]
    for idx in by_codim.values():
        for k in range(1, len(idx) + 1):
            out.extend(itertools.permutations(idx, k))
    return out


# ----------------------------------------------------------------------------- tier Ps: subdomain projections, symbolic grid sizes


def case_subdomain_projections(pp, kind, dim, nsd):
    """The real _cell_projections / _face_projections and the real SubdomainProjections.{cell,face}_{prolongation,restriction} on `nsd`
    stub grids whose cell / face counts are symbolic (>= 1), quantity dimension `dim` concrete.  expand_indices_nd is a modular stub
    (contract: out[q] = ind[q // dim] * dim + q % dim, checked exhaustively in small scope by C35); pp.ad.SparseArray is replaced by a
    transparent holder (its constructor only wraps the matrix)."""
    import itertools as it

    import z3

    from engine.arrays import SymArray, SymMat
    from engine.sym import SymBool, iterm

    def run(ctx):
        class G:
            dim = 2

            def __init__(self, q):
                self.q = q
                self.num_cells = ctx.int(f"nc{q}")
                self.num_faces = ctx.int(f"nf{q}")
                ctx.assume(self.num_cells >= 1)
                ctx.assume(self.num_faces >= 1)

        grids = [G(q) for q in range(nsd)]
        size = lambda g: (g.num_cells if kind == "cell" else g.num_faces)
        dm = z3.IntVal(dim)

        def expand(ind, d, order="F"):
            assert d == dim and order == "F"
            f = ind._elem
            return SymArray(ind.n * dim, lambda q: f(q / dm) * dm + q % dm, "int")

        class Holder:
            def __init__(self, mat, name=None):
                self._mat = mat

        old_exp, old_sa = pp.array_operations.expand_indices_nd, pp.ad.SparseArray
        pp.array_operations.expand_indices_nd, pp.ad.SparseArray = expand, Holder
        try:
            proj = pp.ad.SubdomainProjections(grids, dim=dim)
            tot = sum(iterm(size(g)) for g in grids) * dm
            offs = []
            acc = z3.IntVal(0)
            for g in grids:
                offs.append(acc)
                acc = acc + iterm(size(g)) * dm
            r, c, c2 = ctx.int("r"), ctx.int("c"), ctx.int("c2")
            ctx.assume((r >= 0) & (c >= 0) & (c2 >= 0))
            first = True
            for m in range(1, nsd + 1):
                for sel in it.permutations(range(nsd), m):
                    L = [grids[q] for q in sel]
                    P = getattr(proj, f"{kind}_prolongation")(L)._mat
                    R = getattr(proj, f"{kind}_restriction")(L)._mat
                    tag = f"list {list(sel)}: "
                    ncols = sum(iterm(size(g)) for g in L) * dm
                    ctx.prove(tag + "prolongation has shape (dim * total, dim * size of the listed grids), restriction the transposed shape",
                              SymBool(z3.And(iterm(P.shape[0]) == tot, iterm(P.shape[1]) == ncols, iterm(R.shape[0]) == ncols, iterm(R.shape[1]) == tot)))
                    # expected: column c in the block of the m-th listed grid has its single 1 in row  offset(grid) + (c - column offset)
                    rho = z3.IntVal(-1)
                    coff = z3.IntVal(0)
                    rho2 = z3.IntVal(-1)
                    for g in L:
                        nxt = coff + iterm(size(g)) * dm
                        rho = z3.If(z3.And(c.t >= coff, c.t < nxt), offs[g.q] + (c.t - coff), rho)
                        rho2 = z3.If(z3.And(c2.t >= coff, c2.t < nxt), offs[g.q] + (c2.t - coff), rho2)
                        coff = nxt
                    inr = z3.And(r.t < tot, c.t < ncols)
                    ctx.prove(tag + "prolongation entry (r, c) is 1 iff r = global offset of c's grid + local index of c, else 0 (blocks in list order)",
                              SymBool(z3.Implies(inr, P._entry(r.t, c.t) == z3.If(r.t == rho, z3.RealVal(1), z3.RealVal(0)))))
                    ctx.prove(tag + "restriction is the transpose of the prolongation", SymBool(z3.Implies(inr, R._entry(c.t, r.t) == P._entry(r.t, c.t))))
                    ctx.prove(tag + "distinct columns hit distinct rows, inside the global range (hence restriction o prolongation = identity)",
                              SymBool(z3.Implies(z3.And(c.t < ncols, c2.t < ncols, c.t != c2.t), z3.And(rho != rho2, rho >= 0, rho < tot))))
                    if list(sel) == list(range(nsd)):
                        ctx.prove(tag + "all grids in construction order: the prolongation is the identity", SymBool(z3.Implies(inr, (rho == c.t))))
                    if first and nsd >= 2 and m == 1 and sel[0] == 1:
                        ctx.prove("CANARY: the block of the second grid starts at row 0", SymBool(z3.Implies(z3.And(inr, c.t == 0), P._entry(z3.IntVal(0), c.t) == 1)),
                                  expect_refuted=True)
                        first = False
        finally:
            pp.array_operations.expand_indices_nd, pp.ad.SparseArray = old_exp, old_sa
        return "ok"

    return run


def prove(rep, pp):
    from engine import indexmodels, shims
    from engine.harness import run_case
    from porepy.numerics.ad import grid_operators as go

    rep.under_contract("porepy.numerics.ad.grid_operators._cell_projections [tier Ps]", "porepy.numerics.ad.grid_operators._face_projections [tier Ps]",
                       "pp.ad.SubdomainProjections.{cell,face}_{prolongation,restriction} [tier Ps]")
    rep.assume("tier Ps: number of grids <= 3 (all ordered sub-lists), quantity dimension 1..3, cell / face counts symbolic (>= 1); "
               "modular stub expand_indices_nd(ind, dim)[q] = ind[q // dim] * dim + q % dim (C35); pp.ad.SparseArray as transparent holder")
    refuted = []
    with shims.shadow_builtins([go]), shims.numpy_shims(), indexmodels.index_shims():
        for kind in ("cell", "face"):
            for dim in (1, 2, 3):
                for nsd in ((1, 2, 3) if dim == 1 else (2, 3) if rep.tier != "quick" else (2,)):
                    rf, _ = run_case(rep, f"SubdomainProjections[{kind}, dim={dim}, {nsd} grids]", case_subdomain_projections(pp, kind, dim, nsd), tier="Ps")
                    refuted += rf
    rep.trust(*sorted(shims.USED_MODELS))
    for name, ctx, r in refuted:
        rep.violation(name, name.split(":")[0], inputs=None, detail=f"z3 counter-model: {r['model']}"[:1500], confirmed=False, solver_output=str(r["model"]))


def run(rep):
    import warnings

    import numpy as np
    import porepy as pp

    warnings.simplefilter("ignore")
    quick = rep.tier == "quick"
    prove(rep, pp)
    rep.under_contract("pp.ad.SubdomainProjections.cell_restriction", "pp.ad.SubdomainProjections.cell_prolongation", "pp.ad.SubdomainProjections.face_restriction",
                       "pp.ad.SubdomainProjections.face_prolongation", "pp.ad.MortarProjections (8 projections)", "pp.ad.BoundaryProjection",
                       "porepy.numerics.ad.grid_operators._cell_projections", "porepy.numerics.ad.grid_operators._face_projections", "pp.BoundaryGrid.projection")
    rep.assume("requires: constructor lists contain distinct subdomains of the md-grid; argument lists are ordered subsets (no repetition) of the constructor "
               "list; interface lists contain interfaces of a single co-dimension (1 or 2)")
    rep.trust("per-interface projections MortarGrid.*(nd) as reference blocks of the mortar clause (covered by C26)")
    mdgs = build_mdgs(pp, np)
    dims = (1, 2, 3)
    for name, mdg in mdgs:
        # guard against a vacuous extension: the md-grids F - I must have an interface whose integrating and averaging projections
        # to the primary grid differ, A - E must not (their signatures say nothing about the primary side)
        if (len(primary_side_nonconforming(np, mdg)) > 0) != (name[0] in "FGHI"):
            raise RuntimeError(f"md-grid {name}: unexpected conformity of the mortar grids on the primary side")
    # md-grid H has the same kind of subdomains as A; it differs in the mortar grid only and is used in the MortarProjections sweep
    sub_mdgs = [(n, m) for n, m in mdgs if not n.startswith("H")]

    with rep.sweep(
        "SubdomainProjections",
        rule="for each md-grid (A - G, I) and dim in {1,2,3}: every ordered subset of the subdomains as constructor list x every ordered subset of it as argument "
             "x {cell,face}_{prolongation,restriction} (quick tier: 3-element arguments of 4-element constructor lists and dim 2 on md-grid C are skipped); matrix "
             "compared entrywise with the expected 0/1 matrix; non-trivial when the argument is non-empty; distinct by (md-grid, dim, constructor list, argument "
             "list, method)",
        bound="md-grids with <= 4 subdomains; dim <= 3",
        exhaustive=not quick,
    ) as sw:
        for name, mdg in sub_mdgs:
            subs = mdg.subdomains()
            for dim in dims:
                if quick and name.startswith("C") and dim == 2:
                    continue  # quick tier: the 3-d md-grid is swept for dim 1 and 3 only
                for C in ordered_subsets(subs):
                    check_subdomain_projections(pp, np, mdg, subs, C, dim, sw, rep, name, quick)

    with rep.sweep(
        "BoundaryProjection",
        rule="for each md-grid (A - G, I) and dim in {1,2,3}: every ordered subset of the subdomains; subdomain_to_boundary / boundary_to_subdomain compared with the "
             "tag-based selection blocks at the face offsets; non-trivial when the list is non-empty",
        bound="md-grids with <= 4 subdomains; dim <= 3",
        exhaustive=True,
    ) as sw:
        for name, mdg in sub_mdgs:
            subs = mdg.subdomains()
            for dim in dims:
                for Sidx in ordered_subsets(subs):
                    check_boundary_projection(pp, np, mdg, subs, Sidx, dim, sw, rep, name)

    with rep.sweep(
        "MortarProjections",
        rule="for each md-grid and dim in {1,2,3}: (subdomain list, interface list) pairs x the 8 projections, each compared with the per-interface blocks at "
             "the global offsets; thorough: full cross product of ordered subsets of subdomains and ordered subsets of interfaces of one co-dimension; quick: "
             "every ordered subdomain subset x all interfaces in md-grid order, plus all subdomains in md-grid order x every ordered interface subset, plus 25 "
             "seeded (subdomain list, interface list) pairs; non-trivial when both lists are non-empty",
        bound="md-grids with <= 4 subdomains and <= 4 interfaces; dim <= 3",
        exhaustive=not quick,
    ) as sw:
        for name, mdg in mdgs:
            subs, intfs = mdg.subdomains(), mdg.interfaces()
            S_all = ordered_subsets(subs)
            J_all = interface_lists(intfs, rep.tier, rep.rng)
            for dim in dims:
                if quick:
                    n = len(subs)
                    full_J = max(J_all, key=lambda j: (len(j), [-x for x in j]))  # all interfaces of the largest co-dimension class, md-grid order
                    pairs = {(s, full_J) for s in S_all} | {(tuple(range(n)), j) for j in J_all}
                    pairs |= {(rep.rng.choice(S_all), rep.rng.choice(J_all)) for _ in range(25)}
                    pairs = sorted(pairs)
                else:
                    pairs = [(s, j) for s in S_all for j in J_all]
                for Sidx, Jidx in pairs:
                    check_mortar_projections(pp, np, mdg, subs, intfs, Sidx, Jidx, dim, sw, rep, name)

    with rep.sweep(
        "MortarProjections, order of requests",
        rule="for each md-grid and dim in {1,2,3}: one MortarProjections object per (subdomain list, interface list); the 8 projections requested in the "
             "reversed order (averaging before integrating, secondary before primary) and then all 8 a second time from the same object, each returned "
             "matrix compared with the per-interface blocks at the global offsets; thorough: subdomain lists {md-grid order, reversed, each single "
             "subdomain} x every ordered interface subset of one co-dimension; quick: all subdomains in md-grid order x {all interfaces of a "
             "co-dimension in md-grid order, the same reversed, each single interface} plus 5 seeded pairs; non-trivial when both lists are non-empty",
        bound="md-grids with <= 4 subdomains and <= 4 interfaces; dim <= 3",
        exhaustive=False,
    ) as sw:
        for name, mdg in mdgs:
            subs, intfs = mdg.subdomains(), mdg.interfaces()
            n = len(subs)
            J_all = interface_lists(intfs, rep.tier, rep.rng)
            by_codim = {}
            for k, i in enumerate(intfs):
                by_codim.setdefault(i.codim, []).append(k)
            for dim in dims:
                if quick:
                    Js = {(k,) for k in range(len(intfs))}
                    for idx in by_codim.values():
                        Js |= {tuple(idx), tuple(reversed(idx))}
                    pairs = {(tuple(range(n)), j) for j in Js}
                    S_all = ordered_subsets(subs)
                    pairs |= {(rep.rng.choice(S_all), rep.rng.choice(J_all)) for _ in range(5)}
                else:
                    Ss = {tuple(range(n)), tuple(reversed(range(n)))} | {(k,) for k in range(n)}
                    pairs = {(s, j) for s in Ss for j in J_all}
                for Sidx, Jidx in sorted(pairs):
                    check_mortar_projections(pp, np, mdg, subs, intfs, Sidx, Jidx, dim, sw, rep, name, history="reverse+repeat")


def replay(data):
    import warnings

    import numpy as np
    import porepy as pp

    from engine.report import Report

    warnings.simplefilter("ignore")
    inp = data.get("inputs") or {}
    if "mdg" not in inp:
        return False
    name, mdg = [m for m in build_mdgs(pp, np) if m[0] == inp["mdg"]][0]
    rep = Report("C27-replay", "quick", 0)
    subs, intfs = mdg.subdomains(), mdg.interfaces()
    with rep.sweep("replay", "replay", "replay") as sw:
        if inp.get("operator") == "SubdomainProjections":
            check_subdomain_projections(pp, np, mdg, subs, tuple(inp["constructor"]), inp["dim"], sw, rep, name)
        elif inp.get("operator") == "MortarProjections":
            check_mortar_projections(pp, np, mdg, subs, intfs, tuple(inp["subdomains"]), tuple(inp["interfaces"]), inp["dim"], sw, rep, name,
                                     history=inp.get("history", "forward"))
        elif inp.get("operator") == "BoundaryProjection":
            check_boundary_projection(pp, np, mdg, subs, tuple(inp["subdomains"]), inp["dim"], sw, rep, name)
    for v in rep.violations:
        print("replay:", v["obligation"], "|", v["signature"], "|", v["detail"][:200])
    return bool(rep.violations)
