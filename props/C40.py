"""C40 — material tensors are symmetric and transform as tensors.

Tier Ps: the real SecondOrderTensor / FourthOrderTensor code on arrays with Nc in {1, 2} cells (the code is elementwise
         along the cell axis -- that uniformity is what the bound leaves unproved) and every entry symbolic:
         symmetry, entries equal the given parameters, positive-definiteness checks raise exactly on negative leading
         minors, rotate(R) = R K R^T entrywise, eigenvalue preservation for orthogonal R (characteristic polynomial
         coefficients, Groebner identities), restrict_to_cells, copy independence (object identity), fourth-order major
         symmetry incl. additional symmetric fields.
Tier B : numeric sweeps with 1-6 cells, all cell subsets for restriction, random rotations, mutation probes for copies.
"""
from __future__ import annotations

META = {
    "level": "other",
    "engine": "pse",
    "technique": "contract-based verification on fixed small cell counts with symbolic entries (z3 / Groebner polynomial identities) of the real tensor classes; numeric sweep as bounded stand-in for larger cell counts",
    "text": "Tier Ps (all values symbolic, 1-2 cells): symmetry, parameter placement, definiteness checks, rotation as similarity transform with "
            "preserved characteristic polynomial, restriction, copy independence, fourth-order major symmetry. Tier B: numeric, up to 6 cells, all "
            "restrictions. Bounded in the cell axis, hence never counted as proved; level 'other'.",
    "note": "np.zeros is redirected to object-dtype zeros for the symbolic runs (same values); floats as reals; eigenvalue preservation is stated as equality of "
            "the characteristic polynomial coefficients under R R^T = I",
}

import itertools
import warnings

import numpy as np
import z3

from engine import oracle, shims, sym
from engine.harness import run_case
from engine.sym import SymBool, SymReal, rterm

COMP = ["kxx", "kyy", "kzz", "kxy", "kxz", "kyz"]
POS = {"kxx": (0, 0), "kyy": (1, 1), "kzz": (2, 2), "kxy": (0, 1), "kxz": (0, 2), "kyz": (1, 2)}


def _arr(ctx, tag, n):
    return np.array([ctx.real(f"{tag}{c}") for c in range(n)], dtype=object)


def _minors(k, c):
    kxx, kyy, kzz, kxy, kxz, kyz = (k[n][c] for n in COMP)
    m1 = kxx
    m2 = kxx * kyy - kxy * kxy
    m3 = kxx * (kyy * kzz - kyz * kyz) - kxy * (kxy * kzz - kxz * kyz) + kxz * (kxy * kyz - kxz * kyy)
    return m1, m2, m3


def case_second_order(pp, nc, given):
    def run(ctx):
        k = {n: _arr(ctx, n, nc) for n in COMP}
        kw = {n: k[n] for n in given if n != "kxx"}
        try:
            with shims.object_zeros():
                T = pp.SecondOrderTensor(k["kxx"], **kw)
        except ValueError:
            bad = z3.BoolVal(False)
            eff = _effective(k, given)
            for c in range(nc):
                for mnr in _minors(eff, c):
                    bad = z3.Or(bad, rterm(mnr) < 0)
            ctx.prove("ValueError only if a leading principal minor is negative in some cell", SymBool(bad))
            return "rejected"
        eff = _effective(k, given)
        V = T.values
        ctx.prove("values has shape (3, 3, Nc)", V.shape == (3, 3, nc))
        for c in range(nc):
            for n in COMP:
                i, j = POS[n]
                ctx.prove(f"cell {c}: entry ({i},{j}) is {n}", SymBool(rterm(V[i, j, c]) == rterm(eff[n][c])))
                ctx.prove(f"cell {c}: symmetric in ({i},{j})", SymBool(rterm(V[i, j, c]) == rterm(V[j, i, c])))
            for mnr in _minors(eff, c):
                ctx.prove(f"cell {c}: accepted tensors have non-negative leading principal minors", mnr >= 0)
        return "ok"

    return run


def _effective(k, given):
    """the documented defaults: kyy, kzz default to kxx, off-diagonals to 0"""
    eff = dict(k)
    if "kyy" not in given:
        eff["kyy"] = k["kxx"]
    if "kzz" not in given:
        eff["kzz"] = k["kxx"]
    for n in ("kxy", "kxz", "kyz"):
        if n not in given:
            eff[n] = 0 * k["kxx"]
    return eff


def _sot_symbolic(ctx, pp, nc):
    k = {n: _arr(ctx, n, nc) for n in COMP}
    T = pp.SecondOrderTensor.__new__(pp.SecondOrderTensor)
    V = np.empty((3, 3, nc), dtype=object)
    for n in COMP:
        i, j = POS[n]
        V[i, j, :] = k[n]
        V[j, i, :] = k[n]
    T.values = V
    return T, k


def case_rotate(pp, nc):
    def run(ctx):
        T, k = _sot_symbolic(ctx, pp, nc)
        R = np.array([[ctx.real(f"r{i}{j}") for j in range(3)] for i in range(3)], dtype=object)
        V0 = T.values.copy()
        T.rotate(R)
        V1 = T.values
        ctx.prove("rotate keeps the shape", V1.shape == (3, 3, nc))
        rels = []
        for i in range(3):
            for j in range(i, 3):
                rels.append((rterm(sum(R[i, a] * R[j, a] for a in range(3))), z3.RealVal(1 if i == j else 0)))
        for c in range(nc):
            for i in range(3):
                for j in range(3):
                    want = sum(R[i, a] * V0[a, b, c] * R[j, b] for a in range(3) for b in range(3))
                    ctx.prove(f"cell {c}: rotated entry ({i},{j}) is (R K R^T)[{i},{j}]", SymBool(rterm(V1[i, j, c]) == rterm(want)))
            # similar matrices: same characteristic polynomial under R R^T = I  => same eigenvalues
            def coeffs(M):
                tr = M[0][0] + M[1][1] + M[2][2]
                m2 = (M[0][0] * M[1][1] - M[0][1] * M[1][0]) + (M[0][0] * M[2][2] - M[0][2] * M[2][0]) + (M[1][1] * M[2][2] - M[1][2] * M[2][1])
                det = (M[0][0] * (M[1][1] * M[2][2] - M[1][2] * M[2][1]) - M[0][1] * (M[1][0] * M[2][2] - M[1][2] * M[2][0])
                       + M[0][2] * (M[1][0] * M[2][1] - M[1][1] * M[2][0]))
                return tr, m2, det
            A = [[rterm(V0[i, j, c]) for j in range(3)] for i in range(3)]
            B = [[rterm(V1[i, j, c]) for j in range(3)] for i in range(3)]
            for nm, a, b in zip(("trace", "sum of principal 2x2 minors", "determinant"), coeffs(A), coeffs(B)):
                st = oracle.groebner_identity(b, a, rels)
                if st == "discharged":
                    ctx.results.append({"name": f"cell {c}: orthogonal R preserves the {nm} (characteristic polynomial, hence the eigenvalues)", "status": st, "model": None,
                                        "s": 0.0, "backend": "sympy-groebner", "canary": False, "decisions": list(ctx.decisions)})
                else:
                    for l, r in rels:
                        ctx.assume(SymBool(l == r))
                    ctx.prove(f"cell {c}: orthogonal R preserves the {nm} (characteristic polynomial, hence the eigenvalues)", SymBool(b == a), timeout_ms=20000)
        ctx.prove("CANARY rotate: values unchanged", SymBool(rterm(V1[0, 1, 0]) == rterm(V0[0, 1, 0])), expect_refuted=True)
        return "ok"

    return run


def case_copy_restrict(pp):
    def run(ctx):
        nc = 3
        k = {n: _arr(ctx, n, nc) for n in COMP}
        for c in range(nc):
            for mnr in _minors(k, c):
                ctx.assume(mnr >= 0)
        with shims.object_zeros():
            T = pp.SecondOrderTensor(k["kxx"], **{n: k[n] for n in COMP if n != "kxx"})
            C = T.copy()
        ctx.prove("copy: a different object with a different values array", C is not T and C.values is not T.values and not np.shares_memory(C.values, T.values))
        ctx.prove("copy: equal values", all(sym.concrete(SymBool(rterm(C.values[i, j, c]) == rterm(T.values[i, j, c]))) is True for i in range(3) for j in range(3) for c in range(nc)))
        C.values[0, 0, 0] = 12345
        ctx.prove("copy: writing into the copy leaves the original unchanged", T.values[0, 0, 0] is not C.values[0, 0, 0] and not isinstance(T.values[0, 0, 0], int))
        for cells in ([0], [2, 0], [1, 1], [0, 1, 2], []):
            with shims.object_zeros():
                Rr = T.restrict_to_cells(np.array(cells, dtype=int))
            ok = Rr.values.shape == (3, 3, len(cells)) and all(
                sym.concrete(SymBool(rterm(Rr.values[i, j, q]) == rterm(T.values[i, j, cq]))) is True for q, cq in enumerate(cells) for i in range(3) for j in range(3))
            ctx.prove(f"restrict_to_cells({cells}): selects exactly those cells, in that order", ok)
            ctx.prove(f"restrict_to_cells({cells}): the original is unchanged", T.values.shape == (3, 3, nc))
        return "ok"

    return run


def case_fourth_order(pp, nc, extra):
    def run(ctx):
        mu, lm = _arr(ctx, "mu", nc), _arr(ctx, "lmbda", nc)
        other = None
        if extra:
            S = np.zeros((9, 9))
            S[0, 4] = S[4, 0] = 1.0
            S[1, 3] = S[3, 1] = 2.0
            S[8, 8] = 1.0
            f = _arr(ctx, "extra", nc)
            other = {"aniso": (S, f)}
        T = pp.FourthOrderTensor(mu, lm, other)
        V = T.values
        ctx.prove("values has shape (9, 9, Nc)", V.shape == (9, 9, nc))
        for c in range(nc):
            ok = True
            for a in range(9):
                for b in range(a + 1, 9):
                    if sym.concrete(SymBool(rterm(V[a, b, c]) == rterm(V[b, a, c]))) is not True:
                        ok = False
            ctx.prove(f"cell {c}: major symmetry values[a, b] = values[b, a]", ok)
            # isotropic part: C_ijkl = lambda d_ij d_kl + mu (d_ik d_jl + d_il d_jk), in the 9x9 layout (ij) -> 3*i + j
            okiso = True
            for i, j, kk, l in itertools.product(range(3), repeat=4):
                d = lambda p, q: 1 if p == q else 0
                want = lm[c] * (d(i, j) * d(kk, l)) + mu[c] * (d(i, kk) * d(j, l) + d(i, l) * d(j, kk))
                if extra:
                    want = want + other["aniso"][0][3 * i + j, 3 * kk + l] * other["aniso"][1][c]
                if sym.concrete(SymBool(rterm(V[3 * i + j, 3 * kk + l, c]) == rterm(want))) is not True:
                    okiso = False
            ctx.prove(f"cell {c}: entries are lambda d_ij d_kl + mu (d_ik d_jl + d_il d_jk) (+ additional fields)", okiso)
        C = T.copy()
        ctx.prove("copy: different object, independent arrays", C is not T and C.values is not T.values and C.mu is not T.mu and C.lmbda is not T.lmbda
                  and (not extra or C.aniso is not T.aniso))
        ctx.prove("copy: equal values and parameters", all(sym.concrete(SymBool(rterm(a) == rterm(b))) is True for a, b in zip(C.values.ravel(), T.values.ravel()))
                  and all(sym.concrete(SymBool(rterm(a) == rterm(b))) is True for a, b in zip(C.mu, T.mu)))
        if nc >= 2:
            Rr = T.restrict_to_cells(np.array([1]))
            ctx.prove("restrict_to_cells: values and every constitutive parameter are restricted", Rr.values.shape == (9, 9, 1) and Rr.mu.shape == (1,) and Rr.lmbda.shape == (1,)
                      and Rr.mu[0] is T.mu[1] and Rr.lmbda[0] is T.lmbda[1] and (not extra or Rr.aniso[0] is T.aniso[1])
                      and sym.concrete(SymBool(rterm(Rr.values[0, 0, 0]) == rterm(T.values[0, 0, 1]))) is True)
            ctx.prove("restrict_to_cells: the original is unchanged", T.values.shape == (9, 9, nc) and T.mu.shape == (nc,))
        return "ok"

    return run


# ----------------------------------------------------------------------------- tier B


def _rand_rot(rng):
    q = np.array([rng.gauss(0, 1) for _ in range(4)])
    q /= np.linalg.norm(q)
    a, b, c, d = q
    return np.array([[a * a + b * b - c * c - d * d, 2 * (b * c - a * d), 2 * (b * d + a * c)],
                     [2 * (b * c + a * d), a * a - b * b + c * c - d * d, 2 * (c * d - a * b)],
                     [2 * (b * d - a * c), 2 * (c * d + a * b), a * a - b * b - c * c + d * d]])


def _sweep(rep, pp):
    rng = rep.rng
    quick = rep.tier == "quick"
    with rep.sweep("numeric tensors", rule="seeded SPD tensors per cell (A A^T + eps I) for 1-6 cells, given through every subset of the optional components where "
                   "meaningful; seeded proper rotations; all cell subsets (with repetition-free orderings) for restriction when Nc <= 4; Lame parameters random "
                   "positive; mutation probes on copies; nontrivial = anisotropic tensor; distinct by seed index", bound="40 (quick) / 400 (thorough) tensors",
                   exhaustive=False) as sw:
        for it in range(40 if quick else 400):
            nc = rng.randint(1, 6)
            K = []
            for _ in range(nc):
                A = np.array([[rng.gauss(0, 1) for _ in range(3)] for _ in range(3)])
                K.append(A @ A.T + 0.1 * np.eye(3))
            K = np.array(K)
            comp = {n: K[:, POS[n][0], POS[n][1]].copy() for n in COMP}
            try:
                T = pp.SecondOrderTensor(comp["kxx"], **{n: comp[n] for n in COMP if n != "kxx"})
            except Exception as e:  # noqa
                rep.violation("SecondOrderTensor: accepts symmetric positive definite input", f"raises {type(e).__name__}", inputs={"K": K.tolist()}, detail=str(e)[:200])
                continue
            sw.case(("sot", it), True, sample={"Nc": nc})
            V = T.values
            if V.shape != (3, 3, nc) or not np.allclose(np.moveaxis(V, 2, 0), K, rtol=1e-14):
                rep.violation("SecondOrderTensor: values hold the given symmetric tensors", "numeric", inputs={"K": K.tolist()}, detail="")
            R = _rand_rot(rng)
            C = T.copy()
            C.rotate(R)
            ev0 = np.sort(np.linalg.eigvalsh(np.moveaxis(T.values, 2, 0)), axis=1)
            ev1 = np.sort(np.linalg.eigvalsh(np.moveaxis(C.values, 2, 0)), axis=1)
            want = np.array([R @ k @ R.T for k in K])
            if not np.allclose(np.moveaxis(C.values, 2, 0), want, rtol=1e-11, atol=1e-12) or not np.allclose(ev0, ev1, rtol=1e-10, atol=1e-12):
                rep.violation("SecondOrderTensor.rotate: similarity transform preserving the eigenvalues", "numeric", inputs={"K": K.tolist(), "R": R.tolist()}, detail="")
            if not np.allclose(np.moveaxis(T.values, 2, 0), K, rtol=1e-14):
                rep.violation("SecondOrderTensor.copy: rotating the copy leaves the original unchanged", "numeric", inputs={"K": K.tolist()}, detail="")
            subsets = [list(s) for r in range(0, nc + 1) for s in itertools.permutations(range(nc), r)] if nc <= 3 else [sorted(rng.sample(range(nc), rng.randint(1, nc))) for _ in range(5)]
            for s in subsets:
                Rr = T.restrict_to_cells(np.array(s, dtype=int))
                if Rr.values.shape != (3, 3, len(s)) or not np.array_equal(Rr.values, T.values[:, :, s]):
                    rep.violation("SecondOrderTensor.restrict_to_cells: selects those cells", f"subset of {nc}", inputs={"cells": s}, detail="")
            mu = np.array([rng.uniform(0.5, 2) for _ in range(nc)])
            lm = np.array([rng.uniform(0.5, 2) for _ in range(nc)])
            S = np.array([[rng.gauss(0, 1) for _ in range(9)] for _ in range(9)])
            S = S + S.T
            fld = np.array([rng.uniform(0.5, 2) for _ in range(nc)])
            for other in (None, {"aniso": (S, fld)}):
                F = pp.FourthOrderTensor(mu.copy(), lm.copy(), None if other is None else {"aniso": (S.copy(), fld.copy())})
                sw.case(("fot", it, other is not None), True)
                if not np.allclose(F.values, np.swapaxes(F.values, 0, 1), rtol=1e-14):
                    rep.violation("FourthOrderTensor: major symmetry", "numeric", inputs={"mu": mu.tolist(), "lmbda": lm.tolist()}, detail="")
                G = F.copy()
                G.values[0, 0, 0] += 1
                G.mu[0] += 1
                if F.values[0, 0, 0] == G.values[0, 0, 0] or F.mu[0] == G.mu[0]:
                    rep.violation("FourthOrderTensor.copy: independent of the original", "numeric", inputs={"mu": mu.tolist()}, detail="")
                if nc > 1:
                    s = [nc - 1, 0]
                    Rr = F.restrict_to_cells(np.array(s))
                    ok = np.array_equal(Rr.values, F.values[:, :, s]) and np.array_equal(Rr.mu, F.mu[s]) and np.array_equal(Rr.lmbda, F.lmbda[s])
                    if other is not None:
                        ok = ok and np.array_equal(Rr.aniso, F.aniso[s])
                    if not ok:
                        rep.violation("FourthOrderTensor.restrict_to_cells: values and every constitutive parameter restricted", "numeric", inputs={"cells": s}, detail="")
            # definiteness checks
            bad = comp["kxx"].copy()
            bad[0] = -1.0
            try:
                pp.SecondOrderTensor(bad)
                rep.violation("SecondOrderTensor: rejects a negative diagonal entry", "negative kxx accepted", inputs={"kxx": bad.tolist()}, detail="")
            except ValueError:
                pass


def replay(data):
    return False


def run(rep):
    import porepy as pp
    from porepy.params import tensor as tmod

    rep.under_contract("SecondOrderTensor.__init__", "SecondOrderTensor.copy", "SecondOrderTensor.rotate", "Tensor.restrict_to_cells",
                       "FourthOrderTensor.__init__", "FourthOrderTensor.copy")
    rep.assume("requires (rotation clause): R orthogonal; (constructor) parameters giving non-negative leading principal minors are accepted, others rejected",
               "bounded in the cell axis: 1-2 (3 for restriction) cells symbolically; the code is elementwise along that axis")
    refuted = []
    with shims.shadow_builtins([tmod]), shims.numpy_shims():
        for nc in (1, 2):
            for given in (("kxx",), ("kxx", "kyy"), ("kxx", "kyy", "kxy"), tuple(COMP)):
                if nc == 2 and len(given) not in (1, 6):
                    continue
                rf, _ = run_case(rep, f"SecondOrderTensor(Nc={nc}, given={'+'.join(given)})", case_second_order(pp, nc, given), tier="Ps", allowed_exceptions=(ValueError,))
                refuted += rf
        for nc in (1, 2):
            rf, _ = run_case(rep, f"SecondOrderTensor.rotate(Nc={nc})", case_rotate(pp, nc), tier="Ps")
            refuted += rf
        rf, _ = run_case(rep, "SecondOrderTensor.copy / restrict_to_cells (Nc=3)", case_copy_restrict(pp), tier="Ps", allowed_exceptions=(ValueError,))
        refuted += rf
        for nc in (1, 2):
            for extra in (False, True):
                rf, _ = run_case(rep, f"FourthOrderTensor(Nc={nc}, additional field={extra})", case_fourth_order(pp, nc, extra), tier="Ps")
                refuted += rf
    rep.trust(*sorted(shims.USED_MODELS))
    rep.trust("np.zeros/np.ones return object-dtype arrays with the same values during the symbolic runs")
    for name, ctx, r in refuted:
        rep.violation(name, name.split(":")[0], inputs=None, detail=f"z3 counter-model: {r['model']}"[:1200], confirmed=False, solver_output=str(r["model"]))
    with warnings.catch_warnings():
        warnings.simplefilter("ignore")
        try:
            _sweep(rep, pp)
        except Exception as e:  # noqa  -- an exception escaping the sweep comes from the code under test on admissible input
            import traceback

            tb = traceback.extract_tb(e.__traceback__)
            where = next((f"{f.name}" for f in reversed(tb) if "porepy" in f.filename), "porepy")
            rep.violation("tensor operations return normally on admissible input", f"{where} raises {type(e).__name__}", inputs={"raised_in": where, "seed": rep.seed}, detail=str(e)[:300], confirmed=True)
