"""C15 -- Biot coupling terms are consistent.

Tier B (bounded run-time contract sweep; deduction not applicable, DESIGN section 8/C15).

Contract on the real ``pp.Biot(kw).discretize(sd, data)`` (parameters bc, fourth_order_tensor,
scalar_vector_mappings = {key: alpha}):

requires  sd a valid 2-D/3-D grid (Cartesian, structured simplex, or a hand-built pp.Grid mixing triangles and quadrilaterals,
          i.e. cells with different node counts; each unperturbed / node-perturbed / affine image), constant isotropic
          stiffness, scalar coupling coefficient alpha (a float, which porepy expands to alpha*I), *all* boundary faces
          Dirichlet for the mechanics (the statement's hypothesis).
ensures   with the face-major / cell-major vector ordering [k*nd + i]:
          (1) for u(x) = u0 + G x, u_c = u(cell centres), u_b = u(face centres) on boundary faces:
                displacement_divergence[key] u_c + boundary_displacement_divergence[key] u_b = alpha tr(G) |cell|
              for every cell (statement: div(u) times the cell volume; the coupling coefficient scales it);
          (2) for constant p:  scalar_gradient[key] (p 1) = -alpha p n_f  on every face (n_f the area-weighted normal).
          (1) is linear in (u0, G): the basis of nd translations + nd*nd unit gradients covers all affine displacement
          fields; (2) is linear in p: one basis element.  Expected values from geometry arrays in dense numpy.

Detection power (scratch copy, one mutant at a time, POREPY_SRC=<copy>): see MUTANTS below the META block.
"""
from __future__ import annotations

META = {
    "level": "exploration",
    "engine": "sweep",
    "technique": "run-time contract sweep (bounded stand-in for deduction): postconditions of the real Biot.discretize on enumerated grids x "
                 "Lame parameters x coupling coefficients, all-Dirichlet mechanics; affine displacement basis / constant pressure cover the "
                 "linear-field quantifiers by linearity",
    "text": "Bounded assurance only on the enumerated family (Cartesian, simplex and 2-D mixed triangle/quadrilateral grids). Deduction not "
            "applicable. Not covered: 3-D grids mixing cell types, general polygons with more than 4 nodes, tensor-valued coupling coefficients, "
            "non-Dirichlet mechanical boundaries (outside the statement), the consistency (stabilisation) matrix and "
            "bound_displacement_pressure.",
    "note": "oracle = alpha*tr(G)*cell_volumes and -alpha*p*face_normals from grid geometry arrays (C19); tolerances 1e-9 relative",
}

MUTANTS = """
  M1 biot.py _create_rhs_scalar_gradient: ``scalar_gradient_face = -map_unique_subfno * nAlpha_grad * sc2c`` -> ``+...``
       (sign of the pressure force)                                                  caught by (2) on 12 grid classes
  M2 biot.py _subcell_gradient_to_cell_scalar: ``cell_vol = sd.cell_volumes / num_cell_nodes`` -> ``sd.cell_volumes``
       (sub-cell volume weighting dropped)                                           caught by (1) on 12 grid classes
  M3 biot.py _subcell_gradient_to_cell_scalar: ``cell_vol[cell_node_blocks[0]]`` -> ``cell_vol[cell_node_blocks[1] % num_cells]``
       (node index used where the cell index is meant; invisible on uniform grids)    caught by (1) on the perturbed/affine classes only
  M4 biot.py _subcell_gradient_to_cell_scalar: ``num_cell_nodes = sd.num_cell_nodes()`` -> grid-wide integer
       ``cell_node_blocks.shape[1] // sd.num_cells`` (invisible when all cells have the same node count)   caught by (1) on the mixed
       triangle/quadrilateral classes only (regular, perturbed, affine)
  Not detectable under this property's hypotheses (equivalent mutants, not counted): sign of ``rhs_jumps`` -- for constant alpha and
  constant p the jump [n alpha p] cancels on interior sub-faces and Dirichlet rows carry no stress equation.
"""

import warnings

import numpy as np

KW = "mechanics"
KEY = "alpha_key"
O_DIV = "Biot.discretize: displacement divergence of a linear displacement equals alpha*div(u)*|cell|"
O_GRAD = "Biot.discretize: scalar gradient of a constant pressure equals -alpha*p*n_f on every face"
O_RUN = "Biot.discretize: terminates without exception on an admissible input"


def mixed_grid(pp, n, phys, split):
    """2-D grid mixing cell types: the nx x ny lattice of rectangles on [0,phys[0]] x [0,phys[1]] in which the lattice cells
    (i, j) listed in ``split`` are cut along a diagonal into two triangles ("/" diagonal if i + j is even, "\\" otherwise); all
    other cells stay quadrilaterals.  Built by hand with pp.Grid from face-node / cell-face incidences (faces oriented from the
    cell that mentions them first), the way any general polygonal grid enters porepy."""
    import scipy.sparse as sps

    nx, ny = n
    xs, ys = np.linspace(0.0, phys[0], nx + 1), np.linspace(0.0, phys[1], ny + 1)
    nodes = np.array([[xs[i], ys[j], 0.0] for j in range(ny + 1) for i in range(nx + 1)]).T
    split = {tuple(s) for s in split}
    polys = []
    for j in range(ny):
        for i in range(nx):
            a = j * (nx + 1) + i
            b, c, d = a + 1, a + nx + 2, a + nx + 1  # counter-clockwise corners
            if (i, j) not in split:
                polys.append((a, b, c, d))
            elif (i + j) % 2 == 0:
                polys += [(a, b, c), (a, c, d)]
            else:
                polys += [(a, b, d), (b, c, d)]
    faces, fn, rows, cols, vals = {}, [], [], [], []
    for c, poly in enumerate(polys):
        for k in range(len(poly)):
            p, q = poly[k], poly[(k + 1) % len(poly)]
            e = (min(p, q), max(p, q))
            if e not in faces:
                faces[e] = len(faces)
                fn += [e[0], e[1]]
                sgn = 1
            else:
                sgn = -1
            rows.append(faces[e])
            cols.append(c)
            vals.append(sgn)
    nf = len(faces)
    face_nodes = sps.csc_matrix((np.ones(2 * nf, dtype=bool), np.array(fn), np.arange(0, 2 * nf + 1, 2)), shape=(nodes.shape[1], nf))
    cell_faces = sps.csc_matrix((np.array(vals), (np.array(rows), np.array(cols))), shape=(nf, len(polys)))
    return pp.Grid(2, nodes, face_nodes, cell_faces, "mixed triangles/quadrilaterals")


def build_grid(pp, spec):
    if spec["kind"] == "mixed":
        g = mixed_grid(pp, spec["n"], spec["phys"], spec["split"])
    elif spec["kind"] == "prism":
        # extruded triangle grid: triangular faces (3 nodes) and quadrilateral faces (4 nodes) in one 3-D grid
        n, phys = spec["n"], spec["phys"]
        g2 = pp.StructuredTriangleGrid(np.array(n[:2]), np.array(phys[:2], dtype=float))
        g2.compute_geometry()
        g, _, _ = pp.grid_extrusion.extrude_grid(g2, np.linspace(0.0, float(phys[2]), n[2] + 1))
    else:
        ctor = {"cart": pp.CartGrid, "tri": pp.StructuredTriangleGrid, "tet": pp.StructuredTetrahedralGrid}[spec["kind"]]
        g = ctor(np.array(spec["n"]), np.array(spec["phys"], dtype=float))
    if spec.get("nodes") is not None:
        g.nodes = np.array(spec["nodes"], dtype=float)
    with warnings.catch_warnings():
        warnings.simplefilter("ignore")
        g.compute_geometry()
    return g


def cells_valid(g):
    if not np.all(g.cell_volumes > 0) or not np.all(g.face_areas > 0):
        return False
    cf = g.cell_faces.tocoo()
    d = g.face_centers[:, cf.row] - g.cell_centers[:, cf.col]
    return bool(np.all(np.sum(d * g.face_normals[:, cf.row], axis=0) * cf.data > 0))


def perturbed(pp, rng, spec, rate):
    g0 = build_grid(pp, spec)
    h = min(p / k for p, k in zip(spec["phys"], spec["n"]))
    for _ in range(20):
        nodes = g0.nodes.copy()
        for i in range(g0.dim):
            nodes[i] += np.array([rng.uniform(-rate, rate) * h for _ in range(g0.num_nodes)])
        s = dict(spec, nodes=np.round(nodes, 12).tolist(), pert=rate)
        if cells_valid(build_grid(pp, s)):
            return s
    return None


def sheared(pp, spec, A):
    g0 = build_grid(pp, spec)
    return dict(spec, nodes=np.round(np.array(A, dtype=float) @ g0.nodes, 12).tolist(), pert="affine")


def grid_specs(pp, rng, quick):
    base = [("cart", [2, 2], [2.0, 2.0]), ("cart", [3, 2], [1.5, 1.0]), ("cart", [1, 1], [1.0, 2.0]), ("tri", [2, 2], [1.0, 1.0]),
            ("tri", [3, 2], [3.0, 1.0]), ("cart", [2, 2, 2], [1.0, 2.0, 1.5]), ("tet", [1, 1, 1], [1.0, 1.0, 1.0]),
            ("tet", [2, 1, 1], [2.0, 1.0, 1.5]), ("prism", [2, 1, 2], [2.0, 1.0, 1.5])]
    if not quick:
        base += [("cart", [3, 3], [3.0, 1.5]), ("cart", [4, 3], [1.0, 1.0]), ("tri", [1, 1], [1.0, 1.0]), ("tri", [3, 3], [1.0, 2.0]),
                 ("cart", [3, 2, 2], [1.0, 1.0, 1.0]), ("cart", [1, 1, 1], [1.0, 1.0, 1.0]), ("tet", [2, 2, 1], [1.0, 1.0, 1.0])]
    # grids mixing triangles and quadrilaterals (cells with different node counts): lattice + list of split lattice cells
    mixed = [([3, 3], [3.0, 2.25], [[1, 1]]), ([3, 2], [1.5, 1.0], [[0, 0], [2, 0], [1, 1]])]
    if not quick:
        mixed += [([2, 1], [2.0, 1.0], [[0, 0]]), ([4, 3], [4.0, 2.25], [[0, 0], [3, 0], [1, 1], [2, 1], [0, 2]]),
                  ([2, 2], [1.0, 1.0], [[0, 0], [1, 0], [0, 1]])]
    out = []
    for kind, n, phys, split in [b + (None,) for b in base] + [("mixed", n, phys, split) for n, phys, split in mixed]:
        s = {"kind": kind, "n": n, "phys": phys, "nodes": None, "pert": 0}
        if split is not None:
            s["split"] = split
        out.append(s)
        rates = (0.1, 0.2) if quick else (0.05, 0.1, 0.2, 0.25)
        if kind == "mixed" and quick:
            rates = (0.2,)
        for rate in rates:
            p = perturbed(pp, rng, s, rate)
            if p is not None:
                out.append(p)
        out.append(sheared(pp, s, [[1, 0.3, 0.1], [0, 1, 0.2], [0.1, 0, 1.2]] if len(n) == 3 else [[1, 0.4, 0], [0.2, 1.1, 0], [0, 0, 1]]))
    return out


LAME = [(1.0, 1.0), (0.7, 10.0)]
ALPHAS = [1.0, 0.7, 2.5]


def evaluate(pp, spec, mu, lam, alpha):
    g = build_grid(pp, spec)
    nd, nf, nc = g.dim, g.num_faces, g.num_cells
    bf = g.get_all_boundary_faces()
    bc = pp.BoundaryConditionVectorial(g, bf, ["dir"] * bf.size)
    C = pp.FourthOrderTensor(mu * np.ones(nc), lam * np.ones(nc))
    data = pp.initialize_data({}, KW, {"bc": bc, "fourth_order_tensor": C, "scalar_vector_mappings": {KEY: float(alpha)}})
    try:
        with warnings.catch_warnings():
            warnings.simplefilter("ignore")
            pp.Biot(KW).discretize(g, data)
    except Exception as e:
        return [(O_RUN, f"{type(e).__name__}: {e}")]
    M = data[pp.DISCRETIZATION_MATRICES][KW]
    DD = M["displacement_divergence"][KEY].toarray()
    BDD = M["boundary_displacement_divergence"][KEY].toarray()
    SG = M["scalar_gradient"][KEY].toarray()
    if DD.shape != (nc, nd * nc) or BDD.shape != (nc, nd * nf) or SG.shape != (nd * nf, nc):
        return [(O_DIV, f"shapes {DD.shape} {BDD.shape} {SG.shape}")]
    xc, xf, nrm = g.cell_centers[:nd], g.face_centers[:nd], g.face_normals[:nd]
    L = max(1.0, np.abs(g.nodes).max())
    cf = g.cell_faces.tocoo()
    hmin = np.linalg.norm(g.face_centers[:, cf.row] - g.cell_centers[:, cf.col], axis=0).min()
    # magnitude of the terms that cancel in the divergence: alpha * area * |u|
    dscale = alpha * g.face_areas.max() * (2 * nd)
    bad = []
    fields = [(np.eye(nd)[i], np.zeros((nd, nd))) for i in range(nd)]
    for i in range(nd):
        for j in range(nd):
            G = np.zeros((nd, nd))
            G[i, j] = 1.0
            fields.append((np.zeros(nd), G))
    for u0, G in fields:
        u = lambda x: u0[:, None] + G @ x  # noqa: E731
        ub = np.zeros((nd, nf))
        ub[:, bf] = u(xf[:, bf])
        got = DD @ u(xc).ravel("F") + BDD @ ub.ravel("F")
        exp = alpha * np.trace(G) * g.cell_volumes
        umax = L if G.any() else 1.0
        err = np.abs(got - exp)
        if err.max() > 1e-9 * dscale * umax * max(1.0, L / hmin):
            c = int(err.argmax())
            bad.append((O_DIV, f"u0={u0.tolist()} G={G.tolist()} alpha={alpha}: cell {c} got {got[c]!r} expected {exp[c]!r}"))
    p0 = 2.0
    got = (SG @ (p0 * np.ones(nc))).reshape((nd, nf), order="F")
    exp = -alpha * p0 * nrm
    err = np.abs(got - exp).max(axis=0)
    if err.max() > 1e-9 * alpha * p0 * g.face_areas.max():
        f = int(err.argmax())
        isb = f in set(bf.tolist())
        bad.append((O_GRAD, f"alpha={alpha} p={p0}: face {f} ({'boundary' if isb else 'interior'}) got {got[:, f].tolist()} expected {exp[:, f].tolist()}"))
    return bad


def _signature(spec):
    pert = "regular" if spec["pert"] == 0 else ("affine" if spec["pert"] == "affine" else "perturbed")
    return f"{len(spec['n'])}d {spec['kind']} {pert}"


def run(rep):
    import os

    os.environ.setdefault("NUMBA_NUM_THREADS", "4")
    import porepy as pp

    rep.under_contract("pp.Biot.discretize", "pp.Biot._local_discretization", "pp.Biot._create_rhs_scalar_gradient")
    rep.trust("grid geometry arrays (cell_volumes, face_normals, face_centers, cell_centers) -- property C19")
    rep.assume("vector quantities ordered face-major / cell-major [k*nd + i]; scalar coupling coefficient given as float")
    quick = rep.tier == "quick"
    rng = rep.rng
    with rep.sweep(
        "biot coupling consistency",
        rule="grids {Cartesian, structured triangle/tetrahedral, 2-D lattice with some cells split into triangles (mixed cell types, built "
             "with pp.Grid)} x {unperturbed, seeded perturbation of all nodes at several rates, affine "
             "image} x Lame {(1,1),(0.7,10)} x alpha {1,0.7,2.5}, all-Dirichlet mechanics; per case the complete affine displacement basis "
             "(nd translations + nd*nd unit gradients = all linear displacement fields by linearity) and a constant pressure; distinct by "
             "(grid, Lame, alpha); non-trivial = not (unperturbed Cartesian with alpha = 1)",
        bound="2-D <= 4x3 lattice cells (mixed grids: <= 5 of them split into two triangles), 3-D <= 3x2x2 hexahedra / 24 tetrahedra; perturbation <= 0.25 h",
        exhaustive=False,
    ) as sw:
        for spec in grid_specs(pp, rng, quick):
            g = build_grid(pp, spec)
            if not cells_valid(g):
                sw.skip()
                continue
            for mu, lam in LAME:
                for alpha in ALPHAS:
                    key = (spec["kind"], tuple(spec["n"]), str(spec.get("split")), str(spec["pert"]), hash(str(spec["nodes"])), mu, lam, alpha)
                    trivial = spec["kind"] == "cart" and spec["pert"] == 0 and alpha == 1.0
                    sw.case(key, nontrivial=not trivial,
                            sample={"grid": {k: v for k, v in spec.items() if k != "nodes"}, "lame": [mu, lam], "alpha": alpha})
                    for ob, detail in evaluate(pp, spec, mu, lam, alpha):
                        rep.violation(ob, _signature(spec), inputs={"grid": spec, "mu": mu, "lam": lam, "alpha": alpha},
                                      detail=detail, confirmed=True)


def replay(data):
    import porepy as pp

    inp = data["inputs"]
    bad = evaluate(pp, inp["grid"], inp["mu"], inp["lam"], inp["alpha"])
    for b in bad:
        print("replay:", b)
    return bool(bad)
