"""C09 — adaptive time stepping hits every scheduled time.

Tier P : the real TimeManager methods run on symbolic state (schedule = SymArray of symbolic length);
         the loop-head invariant Inv of the driver protocol (run_time_dependent_model:
         increase_time -> solve -> compute_time_step(iterations=k) | compute_time_step(recompute_solution=True))
         is proved inductive, and the statement's clauses are proved from it at every transition.
Tier Ps: TimeManager.__init__ establishes Inv (schedule lengths 2..4, all values symbolic).
Tier B : histories from the constructor through the real driver protocol, clauses checked natively.
"""
from __future__ import annotations

META = {
    "level": "other",
    "engine": "pse",
    "technique": "contract-based deductive verification: inductive loop invariant over the real TimeManager methods via proxy symbolic execution + z3; bounded native history sweep as stand-in",
    "text": "Tier P: the loop-head invariant of the driver protocol is proved inductive on the real, unmodified TimeManager methods "
            "for every schedule length, every schedule/parameter value and every convergence/failure outcome (symbolic); each clause of the "
            "statement is an obligation at the accept/reject transition. Tier Ps (bounded, not counted as proved): the constructor establishes "
            "the invariant for schedule lengths 2-4. Tier B: native histories from the constructor. Mixed tiers, hence level 'other'.",
    "note": "floats as reals; concrete default rtol/atol; requires scheduled times separated by more than 4x the isclose tolerance, dt_min>0, "
            "0<under<1<over, 0<recomp_factor<1; model of np.isclose; monotonicity instantiated at touched indices; termination not proved",
}

import fractions
import itertools
import warnings

import numpy as np
import z3

from engine import shims, sym
from engine.arrays import SymArray
from engine.sym import SymBool, SymInt, SymReal, explore

RTOL, ATOL = 1e-10, 1e-16
GAP = 4  # requires: consecutive scheduled times are further apart than GAP * tolerance


def _tol(b):
    return ATOL + RTOL * b


def _close(a, b):
    """the code's own np.isclose(a, b, rtol, atol) for b >= 0, as a proxy bool"""
    d = a - b
    return (abs(d) <= ATOL + RTOL * b)


# ----------------------------------------------------------------------------- symbolic state


class State:
    pass


def _mk_tm(ctx, pp):
    """A TimeManager whose fields are symbolic and satisfy the constructor's checks (admissible
    parameters) -- *not yet* the invariant."""
    TM = pp.TimeManager
    tm = object.__new__(TM)
    n = ctx.int("n")
    ctx.assume(n >= 2)
    S = SymArray.fresh("S", n, "real")
    st = State()
    st.n, st.S = n, S
    tm.schedule = S
    tm.rtol, tm.atol = RTOL, ATOL
    tm.time_init = S[0]
    tm.time_final = S[n - 1]
    dmin, dmax = ctx.real("dt_min"), ctx.real("dt_max")
    ctx.assume(dmin > 0)
    ctx.assume(dmin <= dmax)
    tm.dt_min_max = (dmin, dmax)
    tm.dt_init = ctx.real("dt_init")
    ctx.assume(tm.dt_init >= dmin)
    ctx.assume(tm.dt_init <= dmax)
    itmax, lo, hi = ctx.int("iter_max"), ctx.int("iter_lo"), ctx.int("iter_hi")
    ctx.assume(itmax > 0)
    ctx.assume(lo >= 0)
    ctx.assume(lo <= hi)
    ctx.assume(hi <= itmax)
    tm.iter_max, tm.iter_optimal_range = itmax, (lo, hi)
    under, over = ctx.real("under_relax"), ctx.real("over_relax")
    ctx.assume(under > 0)
    ctx.assume(under < 1)
    ctx.assume(over > 1)
    ctx.assume(dmin * over <= dmax)
    ctx.assume(dmax * under >= dmin)
    tm.iter_relax_factors = (under, over)
    rf = ctx.real("recomp_factor")
    ctx.assume(rf > 0)
    ctx.assume(rf < 1)
    tm.recomp_factor = rf
    rmax = ctx.int("recomp_max")
    ctx.assume(rmax > 0)
    tm.recomp_max = rmax
    tm.is_constant = False
    tm._print_info = False
    tm._recomp_sol = False
    tm._iters = None
    tm.exported_dt, tm.exported_times = [], []
    # mutable state
    tm.time = ctx.real("time")
    tm.dt = ctx.real("dt")
    tm.time_index = ctx.int("time_index")
    tm._recomp_num = ctx.int("recomp_num")
    tm._scheduled_idx = ctx.int("sched_idx")
    tm._is_about_to_hit_schedule = ctx.bool("about_to_hit")
    st.H = ctx.int("H")  # ghost: index of the first scheduled time not yet hit by an accepted time
    return tm, st


def _schedule_axioms(ctx, st, index_terms):
    """Instances of: S >= 0, strictly increasing with gaps larger than GAP*tol (requires of the
    constructor + the stated separation), at the index terms a path can touch."""
    S, n = st.S, st.n
    idx = list(index_terms)
    for a in idx:
        ina = (a >= 0) & (a <= n - 1)
        ctx.assume(SymBool(z3.Implies(ina.t if isinstance(ina, SymBool) else z3.BoolVal(bool(ina)), (S[a] >= 0).t)))
    for a, b in itertools.permutations(idx, 2):
        pre = (a >= 0) & (a < b) & (b <= n - 1)
        post = S[a] + GAP * _tol(S[b]) < S[b]
        pt = pre.t if isinstance(pre, SymBool) else z3.BoolVal(bool(pre))
        ctx.assume(SymBool(z3.Implies(pt, post.t)))


def _nxt(tm):
    a = tm._is_about_to_hit_schedule
    at = a.t if isinstance(a, SymBool) else z3.BoolVal(bool(a))
    return SymInt(z3.If(at, sym.iterm(tm._scheduled_idx) - 1, sym.iterm(tm._scheduled_idx)))


def _b(x):
    return x.t if isinstance(x, SymBool) else z3.BoolVal(bool(x))


def inv_clauses(tm, st):
    """Loop-head invariant, clause by clause (name -> SymBool)."""
    S, n = st.S, st.n
    nxt = _nxt(tm)
    about = tm._is_about_to_hit_schedule
    dmin, dmax = tm.dt_min_max
    tgt = S[nxt]
    return {
        "dt>0": tm.dt > 0,
        "1<=nxt<=n-1": (nxt >= 1) & (nxt <= n - 1),
        "ghost H == nxt (all earlier scheduled times were hit)": SymBool(st.H.t == nxt.t),
        "time+dt <= next scheduled time": tm.time + tm.dt <= tgt,
        "about_to_hit -> time+dt == next scheduled time": SymBool(z3.Implies(_b(about), _b(tm.time + tm.dt == tgt))),
        "time strictly before next scheduled time (beyond tolerance)": tm.time + _tol(tgt) < tgt,
        "dt <= dt_max": tm.dt <= dmax,
        "dt >= dt_min unless shortened to hit schedule": SymBool(z3.Or(_b(tm.dt >= dmin), _b(about))),
        "0<=recomp_num<=recomp_max": (tm._recomp_num >= 0) & (tm._recomp_num <= tm.recomp_max),
    }


def _assume_inv(ctx, tm, st):
    for k, c in inv_clauses(tm, st).items():
        ctx.assume(c)


def _index_terms(tm, st, before_idx):
    i = before_idx
    return [0, i - 2, i - 1, i, i + 1, st.n - 1]


# ----------------------------------------------------------------------------- transitions


def _accept_path(pp, canary=False):
    def run(ctx):
        tm, st = _mk_tm(ctx, pp)
        idx0 = tm._scheduled_idx
        _schedule_axioms(ctx, st, _index_terms(tm, st, idx0))
        _assume_inv(ctx, tm, st)
        T0, dt0 = tm.time, tm.dt
        # --- driver: head of loop
        fr = tm.final_time_reached()
        ctx.prove("head: final_time_reached() is False under Inv (loop continues)", ~fr if isinstance(fr, SymBool) else (not fr))
        ctx.assume(~fr if isinstance(fr, SymBool) else (not fr))
        tm.increase_time()
        t = tm.time  # the accepted time
        ctx.prove("accept: accepted times strictly increase", t > T0)
        ctx.prove("accept: accepted time does not pass the next unhit scheduled time (beyond tolerance)",
                  t <= st.S[st.H] + _tol(st.S[st.H]))
        ctx.prove("accept: no scheduled time lies strictly inside the step", (T0 < st.S[st.H]) & (t <= st.S[st.H] + _tol(st.S[st.H])))
        ctx.prove("accept: time never exceeds final time (beyond tolerance)", t <= tm.time_final + _tol(tm.time_final))
        ctx.prove("accept: step size used is within [dt_min, dt_max] unless shortened to hit schedule",
                  SymBool(z3.And(_b(dt0 <= tm.dt_min_max[1]), z3.Or(_b(dt0 >= tm.dt_min_max[0]), _b(_close(t, st.S[st.H]))))))
        hit = _close(t, st.S[st.H])
        H1 = SymInt(z3.If(_b(hit), st.H.t + 1, st.H.t))
        k = ctx.int("iterations")
        ctx.assume(k >= 0)
        with warnings.catch_warnings():
            warnings.simplefilter("ignore")
            ret = tm.compute_time_step(iterations=k)
        if ret is None:
            # final time reached: loop exits
            ctx.prove("exit: every scheduled time was hit when the loop exits", SymBool(H1.t == st.n.t))
            ctx.prove("exit: final time hit within tolerance", _close(t, tm.time_final))
            return "exit"
        st.H = H1
        for name, c in inv_clauses(tm, st).items():
            ctx.prove("accept preserves Inv: " + name, c)
        ctx.prove("accept: clock unchanged by compute_time_step", tm.time == t)
        if canary:
            ctx.prove("CANARY accept: dt strictly below dt_max", tm.dt < tm.dt_min_max[1], expect_refuted=True)
        return "continue"

    return run


def _reject_path(pp, canary=False):
    def run(ctx):
        tm, st = _mk_tm(ctx, pp)
        idx0 = tm._scheduled_idx
        _schedule_axioms(ctx, st, _index_terms(tm, st, idx0))
        _assume_inv(ctx, tm, st)
        T0, dt0 = tm.time, tm.dt
        rn0 = tm._recomp_num
        fr = tm.final_time_reached()
        ctx.assume(~fr if isinstance(fr, SymBool) else (not fr))
        tm.increase_time()
        try:
            with warnings.catch_warnings():
                warnings.simplefilter("ignore")
                ret = tm.compute_time_step(recompute_solution=True)
        except ValueError:
            ctx.prove("reject: ValueError only when recomputation is exhausted or dt == dt_min",
                      SymBool(z3.Or(_b(rn0 >= tm.recomp_max), _b(dt0 == tm.dt_min_max[0]))))
            return "raise"
        ctx.prove("reject: a failed step returns the clock to the last accepted time", tm.time == T0)
        ctx.prove("reject: returns the new dt", SymBool(sym.rterm(ret) == sym.rterm(tm.dt)))
        ctx.prove("reject: recomputation was still allowed", rn0 < tm.recomp_max)
        ctx.prove("reject: recomp_num incremented", tm._recomp_num == rn0 + 1)
        for name, c in inv_clauses(tm, st).items():
            ctx.prove("reject preserves Inv: " + name, c)
        if canary:
            ctx.prove("CANARY reject: dt not reduced", tm.dt >= dt0, expect_refuted=True)
        return "continue"

    return run


def _collect(rep, label, results_paths, tier="P"):
    """Aggregate per-path obligation results by name."""
    agg = {}
    limits = []
    npaths = 0
    for ctx, outcome in results_paths:
        npaths += 1
        if outcome[0] == "limit":
            limits.append(outcome[1])
        if outcome[0] == "raise" and not isinstance(outcome[1], (ValueError,)):
            limits.append(f"unexpected {type(outcome[1]).__name__}: {outcome[1]}")
        for r in ctx.results:
            a = agg.setdefault(r["name"], {"n": 0, "bad": [], "und": 0, "s": 0.0, "backend": set(), "canary": r["canary"]})
            a["n"] += 1
            a["s"] += r["s"]
            a["backend"].add(r["backend"])
            if r["status"] == "refuted":
                a["bad"].append((ctx, r))
            elif r["status"] == "undecided":
                a["und"] += 1
    rep.paths += npaths
    return agg, limits


# ----------------------------------------------------------------------------- native replay + sweep


def _native_tm(pp, schedule, dt_init, **kw):
    return pp.TimeManager(schedule=schedule, dt_init=dt_init, **kw)


def check_history(pp, schedule, dt_init, params, outcomes):
    """Run the real driver protocol natively.  outcomes: list of ('ok', iterations) | ('fail',).
    Returns None if the property's clauses held, else (clause, detail)."""
    with warnings.catch_warnings():
        warnings.simplefilter("ignore")
        tm = _native_tm(pp, schedule, dt_init, **params)
        S = np.asarray(schedule, dtype=float)
        accepted = [float(tm.time)]
        dmin, dmax = tm.dt_min_max
        H = 1
        for oc in outcomes:
            if tm.final_time_reached():
                break
            T0, dt0 = float(tm.time), float(tm.dt)
            tm.increase_time()
            tm.increase_time_index()
            if oc[0] == "ok":
                t = float(tm.time)
                if not t > T0:
                    return ("accepted times strictly increase", f"{T0} -> {t}")
                if t > S[-1] + 10 * _tol(S[-1]) + 1e-12 * S[-1]:
                    return ("never exceed the final time", f"t={t} final={S[-1]}")
                hit = abs(t - S[H]) <= 1e-9 * max(1.0, S[H])
                if t > S[H] and not hit:
                    return ("include every scheduled time", f"accepted t={t} passed scheduled {S[H]} (step from {T0}, dt={dt0})")
                if not (dt0 <= dmax * (1 + 1e-12)):
                    return ("step size <= dt_max", f"dt={dt0} dt_max={dmax}")
                if not (dt0 >= dmin * (1 - 1e-12) or hit):
                    return ("step size >= dt_min unless shortened to land on a scheduled time", f"dt={dt0} dt_min={dmin} t={t}")
                if hit:
                    H += 1
                accepted.append(t)
                tm.compute_time_step(iterations=oc[1])
            else:
                rn = tm._recomp_num
                try:
                    tm.compute_time_step(recompute_solution=True)
                except ValueError:
                    if not (rn >= tm.recomp_max or dt0 == dmin):
                        return ("failed step raises only once recomputation is exhausted", f"recomp_num={rn} dt={dt0}")
                    return None
                if abs(float(tm.time) - T0) > 1e-12 * max(1.0, abs(T0)):
                    return ("failed step returns the clock to the last accepted time", f"time={tm.time} last accepted={T0}")
        if tm.final_time_reached() and H != len(S):
            return ("include every scheduled time", f"final time reached with scheduled {S[H] if H < len(S) else None} never hit; accepted={accepted}")
    return None


def _sweep(rep, pp):
    quick = rep.tier == "quick"
    rng = rep.rng
    scheds = [[0, 1], [0, 1, 1.5], [0, 1, 2], [0.5, 1.0, 1.25, 3.0], [0, 0.3, 0.6, 0.9], [2, 4, 4.5, 10, 10.5], [0, 1, 2, 3, 4, 5]]
    with rep.sweep(
        "time-manager histories",
        rule="schedules x dt_init in {1/4,1/2,1} of first interval (exact binary fractions, so time+dt can equal a scheduled time) x "
        "dt bounds x relax factors x outcome sequences (converged with iteration count in {1,5,9} | failed); nontrivial = history "
        "with at least one accepted step; distinct by (schedule, params, outcome sequence)",
        bound="schedule length 2-6, outcome sequences of length <= 40 generated from 3 patterns + seeded random",
        exhaustive=False,
    ) as sw:
        nrand = 30 if quick else 400
        for S in scheds:
            first = S[1] - S[0]
            for frac in (1.0, 0.5, 0.25):
                dt_init = first * frac
                for dmm in (None, (dt_init / 8, first * 2), (dt_init / 2, dt_init * 4)):
                    for relax in ((0.7, 1.3), (0.5, 2.0)):
                        pats = [
                            [("ok", 5)] * 60,
                            [("ok", 1)] * 60,
                            [("ok", 9)] * 60,
                            [("ok", 1), ("fail",)] * 30,
                            [("ok", 5), ("fail",), ("fail",)] * 20,
                        ]
                        for _ in range(nrand // 10):
                            pats.append([rng.choice([("ok", 1), ("ok", 5), ("ok", 9), ("fail",)]) for _ in range(60)])
                        for pat in pats:
                            params = dict(dt_min_max=dmm, iter_relax_factors=relax, recomp_max=3)
                            try:
                                bad = check_history(pp, S, dt_init, params, pat)
                            except ValueError as e:
                                sw.skip()  # constructor rejected the parameters (requires)
                                continue
                            key = (tuple(S), dt_init, dmm, relax, tuple(pat[:12]))
                            sw.case(key, nontrivial=True, sample={"schedule": S, "dt_init": dt_init, "dt_min_max": dmm, "relax": relax, "outcomes": pat[:6]})
                            if bad:
                                exact_hit = any(abs((S[0] + dt_init * m) - s) < 1e-15 for s in S[1:-1] for m in range(1, 50))
                                sig = "uncorrected-exact-hit-then-overshoot" if exact_hit else "history"
                                rep.violation(
                                    "history: " + bad[0], sig,
                                    inputs={"schedule": S, "dt_init": dt_init, "params": params, "outcomes": pat[:20]},
                                    detail=bad[1], confirmed=True)


def replay(data):
    import porepy as pp

    inp = data.get("inputs") or {}
    if "schedule" in inp:
        p = dict(inp["params"])
        if p.get("dt_min_max") is not None:
            p["dt_min_max"] = tuple(p["dt_min_max"])
        p["iter_relax_factors"] = tuple(p["iter_relax_factors"])
        oc = [tuple(o) for o in inp["outcomes"]]
        oc = oc + [oc[-1]] * 60 if oc else oc
        bad = check_history(pp, inp["schedule"], inp["dt_init"], p, oc)
        print("history replay:", bad)
        return bad is not None
    if "state" in inp:
        bad = _native_transition(pp, inp)
        print("transition replay:", bad)
        return bad is not None
    return False


def _native_transition(pp, inp):
    """Put a real TimeManager into the model's state and run one driver transition natively."""
    s = inp["state"]
    S = [float(fractions.Fraction(x)) for x in inp["schedule"]]
    with warnings.catch_warnings():
        warnings.simplefilter("ignore")
        tm = object.__new__(pp.TimeManager)
        tm.schedule = np.array(S)
        tm.rtol, tm.atol = RTOL, ATOL
        tm.time_init, tm.time_final = S[0], S[-1]
        f = lambda k: float(fractions.Fraction(s[k]))
        tm.dt_min_max = (f("dt_min"), f("dt_max"))
        tm.dt_init = f("dt_init")
        tm.iter_max, tm.iter_optimal_range = int(s["iter_max"]), (int(s["iter_lo"]), int(s["iter_hi"]))
        tm.iter_relax_factors = (f("under_relax"), f("over_relax"))
        tm.recomp_factor, tm.recomp_max = f("recomp_factor"), int(s["recomp_max"])
        tm.is_constant, tm._print_info, tm._recomp_sol, tm._iters = False, False, False, None
        tm.exported_dt, tm.exported_times = [], []
        tm.time, tm.dt = f("time"), f("dt")
        tm.time_index = 0
        tm._recomp_num, tm._scheduled_idx = int(s["recomp_num"]), int(s["sched_idx"])
        tm._is_about_to_hit_schedule = bool(s["about_to_hit"])
        H = int(s["H"])
        T0, dt0 = tm.time, tm.dt
        tm.increase_time()
        t = tm.time
        if inp["kind"] == "accept":
            if abs(t - S[H]) <= 1e-9 * max(1, S[H]):
                H += 1
            elif t > S[H]:
                return ("accepted time passed a scheduled time", t, S[H])
            r = tm.compute_time_step(iterations=int(s.get("iterations", 5)))
            if r is None:
                return None if H == len(S) else ("loop exits with scheduled times not hit", H)
        else:
            try:
                tm.compute_time_step(recompute_solution=True)
            except ValueError:
                return None
            if abs(tm.time - T0) > 1e-12 * max(1, abs(T0)):
                return ("clock not restored", tm.time, T0)
        # the next step must again respect the schedule: time + dt <= S[H]
        if H < len(S) and tm.time + tm.dt > S[H] * (1 + 1e-9) + 1e-15:
            return ("next step overshoots the next unhit scheduled time", {"time": tm.time, "dt": tm.dt, "next": S[H]})
        if not tm.dt > 0:
            return ("dt not positive", tm.dt)
    return None


def _model_inputs(ctx, r, kind):
    """Concretise a z3 counter-model of a transition obligation: schedule values at 0..n-1 with the
    model's S interpretation (n clipped to <= 8)."""
    m = r["model"]
    names = ["time", "dt", "dt_min", "dt_max", "dt_init", "iter_max", "iter_lo", "iter_hi", "under_relax", "over_relax",
             "recomp_factor", "recomp_max", "recomp_num", "sched_idx", "about_to_hit", "H", "iterations", "n"]
    st = {}
    for nm in names:
        srt = z3.Int(nm) if nm in ("iter_max", "iter_lo", "iter_hi", "recomp_max", "recomp_num", "sched_idx", "H", "iterations", "n") else (
            z3.Bool(nm) if nm == "about_to_hit" else z3.Real(nm))
        v = sym.model_value(m, srt)
        st[nm] = str(v) if isinstance(v, fractions.Fraction) else v
    n = int(st["n"])
    if n > 8:
        return None
    Sf = z3.Function("S", z3.IntSort(), z3.RealSort())
    sched = [sym.model_value(m, Sf(k)) for k in range(n)]
    # the model fixes S only where touched; make the rest strictly increasing around them
    vals = [fractions.Fraction(v) for v in sched]
    ok = all(a < b for a, b in zip(vals, vals[1:])) and vals[0] >= 0
    if not ok:
        return None
    return {"kind": kind, "state": st, "schedule": [str(v) for v in vals]}


# ----------------------------------------------------------------------------- constructor (Ps)


def _ctor_paths(pp, nlen):
    def run(ctx):
        S = [ctx.real(f"s{k}") for k in range(nlen)]
        dt_init = ctx.real("dt_init")
        ctx.assume(dt_init <= S[1] - S[0])  # "initial step fits in the first scheduled interval"
        for a, b in zip(S, S[1:]):
            ctx.assume(a + GAP * _tol(b) < b)  # separation requires
        dmin, dmax = ctx.real("dt_min"), ctx.real("dt_max")
        ctx.assume(dmin > 0)
        under, over, rf = ctx.real("under_relax"), ctx.real("over_relax"), ctx.real("recomp_factor")
        ctx.assume(under > 0)
        ctx.assume(rf > 0)
        try:
            tm = pp.TimeManager(S, dt_init, dt_min_max=(dmin, dmax), iter_relax_factors=(under, over), recomp_factor=rf)
        except ValueError:
            return "rejected"
        st = State()
        st.n = nlen
        st.S = SymArray.from_concrete(np.array([s for s in S], dtype=object))
        st.H = 1
        tm2 = tm
        cl = {
            "dt>0": tm2.dt > 0,
            "idx==1, not about to hit": (tm2._scheduled_idx == 1) & (tm2._is_about_to_hit_schedule is False),
            "time == S[0]": tm2.time == S[0],
            "time+dt <= S[1]": tm2.time + tm2.dt <= S[1],
            "time strictly before S[1] beyond tol": tm2.time + _tol(S[1]) < S[1],
            "dt_min<=dt<=dt_max": (tm2.dt >= dmin) & (tm2.dt <= dmax),
            "recomp_num == 0": tm2._recomp_num == 0,
            "dt_min*over<=dt_max and dt_max*under>=dt_min and under<1<over and recomp_factor<1":
                (dmin * over <= dmax) & (dmax * under >= dmin) & (under < 1) & (over > 1) & (rf < 1),
            "dt_min <= dt_max": dmin <= dmax,
        }
        for k, c in cl.items():
            ctx.prove("constructor establishes Inv / admissible parameters: " + k, c)
        return "ok"

    return run


# ----------------------------------------------------------------------------- entry


def run(rep):
    import porepy as pp
    from porepy.numerics import time_step_control as tsc

    rep.under_contract(
        "TimeManager.__init__", "TimeManager.compute_time_step", "TimeManager.increase_time", "TimeManager.final_time_reached",
        "TimeManager._adaptation_based_on_iterations", "TimeManager._adaptation_based_on_recomputation",
        "TimeManager._correction_based_on_dt_min", "TimeManager._correction_based_on_dt_max",
        "TimeManager._correction_based_on_schedule", "driver protocol of run_time_dependent_model (increase_time -> solve -> compute_time_step)")
    rep.assume(
        f"tolerances rtol={RTOL}, atol={ATOL} (constructor defaults) are concrete in the proof",
        f"requires: consecutive scheduled times are separated by more than {GAP}x the isclose tolerance; dt_min > 0; "
        "0 < under_relax < 1 < over_relax; 0 < recomp_factor < 1 (the constructor's checks plus positivity)",
        "strict monotonicity of the schedule is used through instances at the index terms a path touches (idx-2..idx+1, 0, n-1)",
        "is_constant=False (adaptive stepping); print_info=False",
    )
    rep.explanation = (
        "P: inductive invariant of the driver loop proved on the real TimeManager methods for symbolic schedule length and values; "
        "Ps: constructor establishes it (schedule length 2-4); B: native histories from the constructor."
    )
    refuted = []
    with shims.shadow_builtins([tsc]), shims.numpy_shims():
        for label, mk in (("accept", _accept_path), ("reject", _reject_path)):
            paths = explore(mk(pp, canary=True))
            agg, limits = _collect(rep, label, paths)
            if limits:
                rep.fallbacks.append({"function": f"TimeManager {label} transition", "reason": limits[:3]})
                rep.note(f"proof not re-established for {label} transition: {limits[:2]}; verdict from the bounded sweep only")
                continue
            for name, a in sorted(agg.items()):
                if a["canary"]:
                    rep.canary(name, bool(a["bad"]))
                    continue
                res = "refuted" if a["bad"] else ("undecided" if a["und"] else "discharged")
                rep.obligation(f"{label}: {name} [{a['n']} paths]", res, "P", "+".join(sorted(a["backend"])), a["s"])
                if a["bad"]:
                    refuted.append((label, name, a["bad"]))
        for nlen in (2, 3) if rep.tier == "quick" else (2, 3, 4):
            paths = explore(_ctor_paths(pp, nlen))
            agg, limits = _collect(rep, f"ctor{nlen}", paths)
            if limits:
                rep.fallbacks.append({"function": "TimeManager.__init__", "reason": limits[:3]})
                continue
            nok = sum(1 for c, o in paths if o == ("return", "ok"))
            if nok == 0:
                raise Exception("constructor contract vacuous: no accepting path")
            for name, a in sorted(agg.items()):
                res = "refuted" if a["bad"] else ("undecided" if a["und"] else "discharged")
                rep.obligation(f"len={nlen}: {name} [{a['n']} paths]", res, "Ps", "+".join(sorted(a["backend"])), a["s"])
                if a["bad"]:
                    refuted.append((f"ctor{nlen}", name, a["bad"]))
    rep.trust(*sorted(shims.USED_MODELS))
    # ---- refutations: replay natively
    for label, name, bad in refuted:
        ctx, r = bad[0]
        kind = "accept" if label == "accept" else ("reject" if label == "reject" else "ctor")
        inp = _model_inputs(ctx, r, kind) if kind != "ctor" else None
        confirmed = False
        detail = f"z3 model: {r['model']}"[:1500]
        if inp is not None:
            try:
                res = _native_transition(pp, inp)
            except Exception as e:  # noqa
                res = None
                detail += f" | native replay raised {type(e).__name__}: {e}"
            if res is not None:
                confirmed = True
                detail = f"native transition from the model state: {res} | " + detail
        sig = "transition"
        if inp is not None and confirmed:
            s = inp["state"]
            S = [fractions.Fraction(x) for x in inp["schedule"]]
            t, d, i = fractions.Fraction(s["time"]), fractions.Fraction(s["dt"]), int(s["sched_idx"])
            if kind == "accept" and not s["about_to_hit"] and 0 <= i < len(S) and t + d == S[i]:
                sig = "uncorrected-exact-hit-then-overshoot"
        rep.violation(f"{label}: {name}", sig, inputs=inp if confirmed else None, detail=detail, confirmed=confirmed,
                      solver_output=str(r["model"]))
    _sweep(rep, pp)
