"""C01 — forward-mode AD values and Jacobians are exact.

Tier P : every AdArray overload x every operand kind, and every function of ad/functions.py, run as the real
         function objects on proxies with symbolic length n, Jacobian width m, symbolic entries.  At a Skolem
         entry (i, j): value == plain numpy expression of the operands' values, Jacobian == chain rule with the
         derivative oracle (engine/oracle.py), operands unchanged (frame), shapes preserved.
Tier Ps: initAdArrays for 1-3 variables (sizes symbolic).
Tier B : seeded random expression trees evaluated by the real AdArray code against sympy's derivative.
"""
from __future__ import annotations

META = {
    "level": "other",
    "engine": "pse",
    "technique": "contract-based deductive verification: per-overload/per-function postconditions (value = numpy expression, Jacobian = chain rule from an independent derivative oracle) discharged by z3 on the real functions run on symbolic-size proxies; sympy-oracle expression-tree sweep as bounded stand-in",
    "text": "Tier P: for every AdArray arithmetic overload (incl. reflected ones) with float / ndarray / AdArray / sparse operands and every "
            "function in pp.ad.functions, value and Jacobian postconditions are discharged for all array lengths, Jacobian widths and entries "
            "(smooth domain as requires). Whole expression trees follow by structural induction (each node's contract is the induction step). "
            "Tier Ps (bounded): initAdArrays with 1-3 variables of symbolic size. Tier B: random expression trees vs sympy, l2_norm (dim 1-3) directly. RegularizedHeaviside is "
            "documented to return a regularised (inexact) Jacobian and is contracted as such. Mixed tiers, hence level 'other'.",
    "note": "floats as reals; transcendental functions uninterpreted + listed identities; derivative table cross-checked by finite differences each run; "
            "models of sps.diags / zero csr_matrix / np.zeros / np.ones_like / np.isclose / sparse row slicing & merging (C35 contracts); "
            "A @ x for a general sparse A is an abstract linear map (result compared structurally)",
}

import math
import warnings

import numpy as np
import z3

from engine import harness, oracle, shims, sym
from engine.arrays import IndexSet, MaskedSel, SymArray, SymMat
from engine.harness import bt, run_case
from engine.sym import SymBool, SymInt, SymReal, rterm

# ----------------------------------------------------------------------------- helpers


def _setup(ctx, pp, names=("X",)):
    n, m = ctx.int("n"), ctx.int("m")
    ctx.assume(n >= 1)
    ctx.assume(m >= 1)
    out = []
    for nm in names:
        V = SymArray.fresh(nm, n, "real")
        J = SymMat.fresh(nm + "J", n, m)
        a = pp.ad.AdArray(V, J)
        out.append((a, V, J))
    i, j = ctx.int("i"), ctx.int("j")
    ctx.assume((i >= 0) & (i < n))
    ctx.assume((j >= 0) & (j < m))
    return n, m, i, j, out


def _snapshot(a):
    return (a.val, a.val._elem, a.jac, a.jac._entry)


def _frame_ok(a, snap):
    return a.val is snap[0] and a.val._elem is snap[1] and a.jac is snap[2] and a.jac._entry is snap[3]


def _prove_result(ctx, r, n, m, i, j, val_spec, atoms, label=""):
    """val_spec: z3 real term for the expected value at row i in terms of atomic input terms.
    atoms: list of (atomic value term at i, jacobian entry term at (i,j) or None for constants)."""
    ctx.prove(label + "result is an AdArray with value length n", SymBool(sym.iterm(r.val.n) == n.t))
    ctx.prove(label + "Jacobian shape is n x m", SymBool(z3.And(sym.iterm(r.jac.nr) == n.t, sym.iterm(r.jac.nc) == m.t)))
    got_v = rterm(r.val.at(i))
    got_j = r.jac.entry(i, j)
    jac_spec = z3.RealVal(0)
    for at, jt in atoms:
        if jt is None:
            continue
        jac_spec = jac_spec + oracle.diff(val_spec, at) * jt
    ax, used = oracle.axioms_for([got_v, got_j, val_spec, jac_spec])
    for a in ax:
        ctx.assume(SymBool(a))
    for a in sym.CONST_AXIOMS:
        ctx.assume(SymBool(a))
    ctx.trace.append(("axioms", used))
    ctx.prove(label + "value equals the numpy expression of the operand values", SymBool(got_v == val_spec))
    ctx.prove(label + "Jacobian equals the chain-rule derivative", SymBool(got_j == jac_spec))
    return got_v, got_j, jac_spec


# ----------------------------------------------------------------------------- overload cases

BINOPS = {
    # name: (method, spec(a,b) on proxies with self=a, domain(a,b))
    "add": ("__add__", lambda a, b: a + b, None),
    "radd": ("__radd__", lambda a, b: b + a, None),
    "sub": ("__sub__", lambda a, b: a - b, None),
    "rsub": ("__rsub__", lambda a, b: b - a, None),
    "mul": ("__mul__", lambda a, b: a * b, None),
    "rmul": ("__rmul__", lambda a, b: b * a, None),
    "truediv": ("__truediv__", lambda a, b: a / b, lambda a, b: b != 0),
    "rtruediv": ("__rtruediv__", lambda a, b: b / a, lambda a, b: a != 0),
    "pow": ("__pow__", lambda a, b: SymReal(sym.POW(a.t, rterm(b))), lambda a, b: a > 0),
    "rpow": ("__rpow__", lambda a, b: SymReal(sym.POW(rterm(b), a.t)), lambda a, b: b > 0),
}


def case_binop(pp, opname, kind):
    meth, spec, dom = BINOPS[opname]

    def run(ctx):
        names = ("X", "Y") if kind == "AdArray" else ("X",)
        n, m, i, j, arrs = _setup(ctx, pp, names)
        x, X, XJ = arrs[0]
        xa = SymReal(X.elem(i))
        atoms = [(X.elem(i), XJ.entry(i, j))]
        if kind == "float":
            other = ctx.real("c")
            ob = other
            atoms.append((other.t, None))
        elif kind == "ndarray":
            other = SymArray.fresh("Y", n, "real")
            ob = SymReal(other.elem(i))
            atoms.append((other.elem(i), None))
        else:
            other, Y, YJ = arrs[1]
            ob = SymReal(Y.elem(i))
            atoms.append((Y.elem(i), YJ.entry(i, j)))
        if dom is not None:
            ctx.assume(dom(xa, ob))
        snaps = [_snapshot(x)] + ([_snapshot(other)] if kind == "AdArray" else [])
        osnap = (other._elem if kind == "ndarray" else None)
        r = getattr(x, meth)(other)
        _prove_result(ctx, r, n, m, i, j, rterm(spec(xa, ob)), atoms)
        ok = _frame_ok(x, snaps[0]) and (kind != "AdArray" or _frame_ok(other, snaps[1])) and (kind != "ndarray" or other._elem is osnap)
        ctx.prove("frame: operands unchanged", ok)
        ctx.prove("frame: result does not alias the operands' arrays", (r.val is not x.val) and (r is not x))
        if opname == "mul" and kind == "AdArray":
            ctx.prove("CANARY: Jacobian of x*y equals y*dx only", SymBool(r.jac.entry(i, j) == arrs[1][1].elem(i) * XJ.entry(i, j)), expect_refuted=True)
        return "ok"

    return run


def case_concrete_pow(pp, expo):
    """x ** c and c ** x for concrete float exponents (the engine expands these to products / sqrt)."""

    def run(ctx):
        n, m, i, j, arrs = _setup(ctx, pp)
        x, X, XJ = arrs[0]
        xa = SymReal(X.elem(i))
        if expo < 0 or expo != int(expo):
            ctx.assume(xa > 0)
        r = x ** expo
        spec = sym.sym_pow(xa, expo)
        _prove_result(ctx, r, n, m, i, j, rterm(spec), [(X.elem(i), XJ.entry(i, j))])
        return "ok"

    return run


def case_array_int_pow(pp, expo):
    """x ** p for a numpy exponent array whose entries are the integer `expo` >= 1: smooth for EVERY real base, also x = 0 and
    x < 0 (the generic ndarray-exponent case above needs x > 0 for real powers)."""

    def run(ctx):
        n, m, i, j, arrs = _setup(ctx, pp)
        x, X, XJ = arrs[0]
        xa = SymReal(X.elem(i))
        p = SymArray.const(n, float(expo), "real")
        r = x ** p
        spec = sym.sym_pow(xa, expo)
        _prove_result(ctx, r, n, m, i, j, rterm(spec), [(X.elem(i), XJ.entry(i, j))])
        return "ok"

    return run


def case_safe_power_int(pp, power):
    """safe_power with a concrete integer power: base of either sign with |x| > tol; and the regularised region |x| < tol."""

    def run(ctx):
        n, m, i, j, arrs = _setup(ctx, pp)
        x, X, XJ = arrs[0]
        xa = SymReal(X.elem(i))
        zero_val, tol = ctx.real("zero_val"), ctx.real("tol")
        ctx.assume(tol > 0)
        r = pp.ad.functions.safe_power(float(power), zero_val, tol, x)
        if ctx.branch(z3.Or(xa.t > tol.t, xa.t < -tol.t)):
            spec = sym.sym_pow(xa, power)
            _prove_result(ctx, r, n, m, i, j, rterm(spec), [(X.elem(i), XJ.entry(i, j))], label="|x| > tol: ")
        else:
            ctx.assume(SymBool(z3.And(xa.t < tol.t, xa.t > -tol.t)))
            ctx.prove("|x| < tol: value is zero_val", SymBool(rterm(r.val.at(i)) == zero_val.t))
            ctx.prove("|x| < tol: Jacobian row is zero", SymBool(r.jac.entry(i, j) == 0))
        return "ok"

    return run


def case_neg_copy(pp, which):
    def run(ctx):
        n, m, i, j, arrs = _setup(ctx, pp)
        x, X, XJ = arrs[0]
        snap = _snapshot(x)
        r = -x if which == "neg" else x.copy()
        xa = X.elem(i)
        _prove_result(ctx, r, n, m, i, j, (-xa if which == "neg" else xa), [(xa, XJ.entry(i, j))])
        ctx.prove("frame: operand unchanged", _frame_ok(x, snap))
        ctx.prove("result shares no array object with the operand", (r.val is not x.val) and (r.jac is not x.jac))
        return "ok"

    return run


def case_rmatmul(pp):
    """A @ x for a sparse A (k x n): value A@val and Jacobian A@jac (linear map rule)."""

    def run(ctx):
        n, m, i, j, arrs = _setup(ctx, pp)
        x, X, XJ = arrs[0]
        k = ctx.int("k")
        ctx.assume(k >= 1)
        A = SymMat.fresh("A", k, n)
        r = A @ x if False else x.__rmatmul__(A)
        ii = ctx.int("ii")
        ctx.assume((ii >= 0) & (ii < k))
        ctx.prove("value length is the number of rows of A", SymBool(sym.iterm(r.val.n) == k.t))
        ctx.prove("Jacobian shape is k x m", SymBool(z3.And(sym.iterm(r.jac.nr) == k.t, sym.iterm(r.jac.nc) == m.t)))
        spec_v = (A @ X.copy()).elem(ii)
        spec_j = (A @ XJ.copy()).entry(ii, j)
        ctx.prove("value equals A @ x.val", SymBool(rterm(r.val.at(ii)) == spec_v))
        ctx.prove("Jacobian equals A @ x.jac (derivative of a linear map)", SymBool(r.jac.entry(ii, j) == spec_j))
        ctx.prove("CANARY: Jacobian equals x.jac", SymBool(r.jac.entry(ii, j) == XJ.entry(ii, j)), expect_refuted=True)
        # diagonal A: entrywise
        D = SymArray.fresh("D", n, "real")
        r2 = x.__rmatmul__(SymMat.diagonal(D))
        ctx.prove("diagonal A: value d_i*x_i", SymBool(rterm(r2.val.at(i)) == D.elem(i) * X.elem(i)))
        ctx.prove("diagonal A: Jacobian d_i*J_ij", SymBool(r2.jac.entry(i, j) == D.elem(i) * XJ.entry(i, j)))
        # wrong inner dimension is rejected
        B = SymMat.fresh("B", k, n + 1)
        try:
            x.__rmatmul__(B)
            ctx.prove("dimension mismatch raises ValueError", False)
        except ValueError:
            ctx.prove("dimension mismatch raises ValueError", True)
        return "ok"

    return run


def case_getitem(pp, kind):
    def run(ctx):
        n, m, i, j, arrs = _setup(ctx, pp)
        x, X, XJ = arrs[0]
        if kind == "slice":
            lo, hi = ctx.int("lo"), ctx.int("hi")
            ctx.assume((lo >= 0) & (lo < hi) & (hi <= n))
            r = x[slice(lo, hi)]
            rr = ctx.int("r")
            ctx.assume((rr >= 0) & (rr < hi - lo))
            src = lo + rr
            ctx.prove("length is hi-lo", SymBool(sym.iterm(r.val.n) == (hi - lo).t))
        else:
            q = ctx.int("q")
            ctx.assume(q >= 1)
            K = SymArray.fresh("K", q, "int")
            rr = ctx.int("r")
            ctx.assume((rr >= 0) & (rr < q))
            ctx.assume(SymBool(z3.And(K.elem(rr) >= 0, K.elem(rr) < n.t)))
            r = x[K]
            src = SymInt(K.elem(rr))
            ctx.prove("length is the number of indices", SymBool(sym.iterm(r.val.n) == q.t))
        ctx.prove("row slicing: value is the selected entry", SymBool(rterm(r.val.at(rr)) == X.elem(src)))
        ctx.prove("row slicing: Jacobian row is the selected row", SymBool(r.jac.entry(rr, j) == XJ.entry(src, j)))
        ctx.prove("CANARY: row slicing keeps row r", SymBool(r.jac.entry(rr, j) == XJ.entry(rr, j)), expect_refuted=True)
        return "ok"

    return run


# ----------------------------------------------------------------------------- function library

UNARY_FUNCS = {
    # name: (spec on SymReal, domain)
    "exp": (lambda a: a.exp(), None),
    "log": (lambda a: a.log(), lambda a: a > 0),
    "abs": (lambda a: abs(a), lambda a: a != 0),
    "sin": (lambda a: a.sin(), None),
    "cos": (lambda a: a.cos(), None),
    "tan": (lambda a: a.tan(), lambda a: SymBool(sym.UF["cos"](a.t) != 0)),
    "arcsin": (lambda a: a.arcsin(), lambda a: (a > -1) & (a < 1)),
    "arccos": (lambda a: a.arccos(), lambda a: (a > -1) & (a < 1)),
    "arctan": (lambda a: a.arctan(), None),
    "sinh": (lambda a: a.sinh(), None),
    "cosh": (lambda a: a.cosh(), None),
    "tanh": (lambda a: a.tanh(), None),
    "arcsinh": (lambda a: a.arcsinh(), None),
    "arccosh": (lambda a: a.arccosh(), lambda a: a > 1),
    "arctanh": (lambda a: a.arctanh(), lambda a: (a > -1) & (a < 1)),
}


def case_unary(pp, fname):
    spec, dom = UNARY_FUNCS[fname]

    def run(ctx):
        n, m, i, j, arrs = _setup(ctx, pp)
        x, X, XJ = arrs[0]
        xa = SymReal(X.elem(i))
        if dom is not None:
            ctx.assume(dom(xa))
        snap = _snapshot(x)
        r = getattr(pp.ad.functions, fname)(x)
        _prove_result(ctx, r, n, m, i, j, rterm(spec(xa)), [(X.elem(i), XJ.entry(i, j))])
        ctx.prove("frame: operand unchanged", _frame_ok(x, snap))
        # plain-array branch returns the numpy expression
        p = getattr(pp.ad.functions, fname)(X.copy())
        ctx.prove("ndarray argument: returns the numpy value", SymBool(rterm(p.at(i)) == rterm(spec(xa))))
        if fname == "sin":
            ctx.prove("CANARY: d sin = sin", SymBool(r.jac.entry(i, j) == sym.UF["sin"](xa.t) * XJ.entry(i, j)), expect_refuted=True)
        return "ok"

    return run


def case_heaviside(pp):
    def run(ctx):
        n, m, i, j, arrs = _setup(ctx, pp)
        x, X, XJ = arrs[0]
        xa = SymReal(X.elem(i))
        ctx.assume(xa != 0)  # differentiable region
        z = ctx.real("zerovalue")
        r = pp.ad.functions.heaviside(z, x)
        spec = z3.If(xa.t > 0, z3.RealVal(1), z3.If(xa.t < 0, z3.RealVal(0), z.t))
        _prove_result(ctx, r, n, m, i, j, spec, [(X.elem(i), XJ.entry(i, j))])
        return "ok"

    return run


def case_heaviside_smooth(pp):
    def run(ctx):
        n, m, i, j, arrs = _setup(ctx, pp)
        x, X, XJ = arrs[0]
        xa = SymReal(X.elem(i))
        eps = ctx.real("eps")
        ctx.assume(eps > 0)
        r = pp.ad.functions.heaviside_smooth(x, eps)
        spec = 0.5 * (1 + 2 / SymReal(sym.PI) * (xa / eps).arctan())
        _prove_result(ctx, r, n, m, i, j, rterm(spec), [(X.elem(i), XJ.entry(i, j))])
        return "ok"

    return run


def case_characteristic(pp):
    def run(ctx):
        n, m, i, j, arrs = _setup(ctx, pp)
        x, X, XJ = arrs[0]
        xa = SymReal(X.elem(i))
        tol = ctx.real("tol")
        ctx.assume(tol > 0)
        ctx.assume(abs(xa) != tol)  # away from the jump
        r = pp.ad.functions.characteristic_function(tol, x)
        spec = z3.If(z3.If(xa.t >= 0, xa.t, -xa.t) <= tol.t, z3.RealVal(1), z3.RealVal(0))
        _prove_result(ctx, r, n, m, i, j, spec, [(X.elem(i), XJ.entry(i, j))])
        return "ok"

    return run


def case_safe_power(pp):
    def run(ctx):
        n, m, i, j, arrs = _setup(ctx, pp)
        x, X, XJ = arrs[0]
        xa = SymReal(X.elem(i))
        power, zero_val, tol = ctx.real("power"), ctx.real("zero_val"), ctx.real("tol")
        ctx.assume(tol > 0)
        ctx.assume(xa > tol)  # smooth region: |x| > tol (positive base so that real powers are defined)
        r = pp.ad.functions.safe_power(power, zero_val, tol, x)
        spec = sym.POW(xa.t, power.t)
        _prove_result(ctx, r, n, m, i, j, spec, [(X.elem(i), XJ.entry(i, j))])
        return "ok"

    return run


def case_regularized_heaviside(pp):
    """Contracted as documented: value heaviside(x, 0), Jacobian = Jacobian of the supplied regularisation."""

    def run(ctx):
        n, m, i, j, arrs = _setup(ctx, pp)
        x, X, XJ = arrs[0]
        xa = SymReal(X.elem(i))
        eps = ctx.real("eps")
        ctx.assume(eps > 0)
        reg = lambda v: pp.ad.functions.heaviside_smooth(v, eps)
        r = pp.ad.functions.RegularizedHeaviside(reg)(x)
        ctx.prove("value is heaviside(x, 0)", SymBool(rterm(r.val.at(i)) == z3.If(xa.t > 0, z3.RealVal(1), z3.RealVal(0))))
        ctx.prove("Jacobian is the Jacobian of the regularisation (documented, deliberately not the exact derivative)",
                  SymBool(r.jac.entry(i, j) == reg(x).jac.entry(i, j)))
        return "ok"

    return run


# -- maximum: goes through slice_sparse_matrix / merge_matrices (C35 contracts used as modular stubs)


class RowSel:
    """rows `mask` of a matrix, kept aligned to the base row index (stub result of slice_sparse_matrix)"""

    _pretend = (type(None),)

    def __init__(self, mask, entry):
        self.mask, self.entry = mask, entry


def _stub_slice_sparse_matrix(A, ind):
    shims._used("stub pp.matrix_operations.slice_sparse_matrix(A, rows): contract 'returns the rows `rows` of A' (checked in C35)")
    if not isinstance(ind, IndexSet):
        raise sym.EngineLimit("slice_sparse_matrix stub with non index-set rows")
    return RowSel(ind.mask, A._entry)


def _stub_merge_matrices(A, B, lines, matrix_format="csr"):
    shims._used("stub pp.matrix_operations.merge_matrices(A, B, lines): contract 'rows `lines` of A are replaced in place by the rows of B' (checked in C35)")
    if not (isinstance(B, RowSel) and isinstance(lines, IndexSet)):
        raise sym.EngineLimit("merge_matrices stub arguments")
    if not z3.simplify(B.mask(z3.Int("__I"))).eq(z3.simplify(lines.mask(z3.Int("__I")))):
        raise sym.EngineLimit("merge_matrices: rows and lines differ")
    old, m, e = A._entry, lines.mask, B.entry
    A._entry = lambda i, j: z3.If(m(i), e(i, j), old(i, j))
    A.diag = None


def case_maximum(pp, kinds):
    def run(ctx):
        n, m, i, j, arrs = _setup(ctx, pp, ("X", "Y"))
        (x, X, XJ), (y, Y, YJ) = arrs
        xa, ya = SymReal(X.elem(i)), SymReal(Y.elem(i))
        atoms = []
        ops = []
        for k, (a, V, J) in zip(kinds, arrs):
            if k == "AdArray":
                ops.append(a)
                atoms.append((V.elem(i), J.entry(i, j)))
            elif k == "ndarray":
                ops.append(V)
                atoms.append((V.elem(i), None))
            else:
                c = ctx.real("c")
                ops.append(c)
                atoms.append((c.t, None))
        va = atoms[0][0]
        vb = atoms[1][0]
        ctx.assume(SymBool(va != vb))  # differentiable region
        snaps = [(_snapshot(a) if k == "AdArray" else None) for k, (a, V, J) in zip(kinds, arrs)]
        with shims.patched(pp.matrix_operations, "slice_sparse_matrix", _stub_slice_sparse_matrix), \
                shims.patched(pp.matrix_operations, "merge_matrices", _stub_merge_matrices):
            r = pp.ad.functions.maximum(ops[0], ops[1])
        spec = z3.If(vb > va, vb, va)
        _prove_result(ctx, r, n, m, i, j, spec, atoms)
        ok = all(_frame_ok(a, s) for s, (a, V, J) in zip(snaps, arrs) if s is not None)
        ctx.prove("frame: operands unchanged", ok)
        return "ok"

    return run


def case_init_ad_arrays(pp, nvars):
    def run(ctx):
        sizes = [ctx.int(f"n{k}") for k in range(nvars)]
        for s in sizes:
            ctx.assume(s >= 0)
        vs = [SymArray.fresh(f"V{k}", sizes[k], "real") for k in range(nvars)]
        out = pp.ad.initAdArrays(vs)
        ctx.prove("one AdArray per variable", len(out) == nvars)
        total = sum(sizes[1:], sizes[0])
        for k in range(nvars):
            r, c = ctx.int("r"), ctx.int("c")
            ctx.assume((r >= 0) & (r < sizes[k]))
            ctx.assume((c >= 0) & (c < total))
            off = sum(sizes[:k], 0)
            ctx.prove(f"var {k}: value is the given array", SymBool(rterm(out[k].val.at(r)) == vs[k].elem(r)))
            ctx.prove(f"var {k}: Jacobian shape n_k x sum(n)", SymBool(z3.And(sym.iterm(out[k].jac.nr) == sizes[k].t, sym.iterm(out[k].jac.nc) == sym.iterm(total))))
            ctx.prove(f"var {k}: Jacobian is the identity block at column offset sum_{{j<k}} n_j, zero elsewhere",
                      SymBool(out[k].jac.entry(r, c) == z3.If(sym.iterm(c) == sym.iterm(off + r), z3.RealVal(1), z3.RealVal(0))))
        return "ok"

    return run


# ----------------------------------------------------------------------------- sweep (tier B)


def _sweep(rep, pp):
    import sympy as sp

    rng = rep.rng
    quick = rep.tier == "quick"
    ntrees = 60 if quick else 600
    fns = pp.ad.functions
    UN = [("exp", fns.exp, sp.exp, (-1, 1)), ("log", fns.log, sp.log, (0.5, 3)), ("sin", fns.sin, sp.sin, (-2, 2)),
          ("cos", fns.cos, sp.cos, (-2, 2)), ("tan", fns.tan, sp.tan, (-1, 1)), ("arcsin", fns.arcsin, sp.asin, (-0.8, 0.8)),
          ("arccos", fns.arccos, sp.acos, (-0.8, 0.8)), ("arctan", fns.arctan, sp.atan, (-2, 2)), ("sinh", fns.sinh, sp.sinh, (-1, 1)),
          ("cosh", fns.cosh, sp.cosh, (-1, 1)), ("tanh", fns.tanh, sp.tanh, (-1, 1)), ("arcsinh", fns.arcsinh, sp.asinh, (-2, 2)),
          ("arccosh", fns.arccosh, sp.acosh, (1.5, 3)), ("arctanh", fns.arctanh, sp.atanh, (-0.8, 0.8)),
          ("abs", fns.abs, sp.Abs, (0.2, 2)),
          ("safe_power(-1)", lambda v: fns.safe_power(-1.0, 0.0, 1e-8, v), lambda e: e ** -1, (0.5, 2)),
          ("safe_power(2.5)", lambda v: fns.safe_power(2.5, 0.0, 1e-8, v), lambda e: e ** sp.Rational(5, 2), (0.5, 2)),
          ("heaviside_smooth", lambda v: fns.heaviside_smooth(v, 0.1), lambda e: sp.Rational(1, 2) * (1 + 2 / sp.pi * sp.atan(e / sp.Rational(1, 10))), (-1, 1))]
    with rep.sweep(
        "expression trees vs sympy",
        rule="seeded random trees of depth<=3 over 2 independent AdArrays (n in 1..4) with + - * / ** const, sparse A@, row slices and the "
             "function library; leaves scaled into each function's smooth domain; expected value/Jacobian from sympy.diff; nontrivial = "
             "tree contains >=1 function or product/quotient; distinct by tree string",
        bound=f"{ntrees} trees, depth <= 3, n <= 4", exhaustive=False,
    ) as sw:
        for _ in range(ntrees):
            n = rng.randint(1, 4)
            syms = [[sp.Symbol(f"a{k}") for k in range(n)], [sp.Symbol(f"b{k}") for k in range(n)]]
            pt = [np.array([rng.uniform(0.6, 1.4) for _ in range(n)]) for _ in range(2)]
            ads = pp.ad.initAdArrays([pt[0].copy(), pt[1].copy()])

            def build(depth):
                """returns (AdArray, list of sympy exprs, description)"""
                if depth == 0 or rng.random() < 0.2:
                    k = rng.randint(0, 1)
                    return ads[k], list(syms[k]), "ab"[k]
                kind = rng.choice(["bin", "bin", "un", "scal", "mat"])
                if kind == "un":
                    name, f, sf, (lo, hi) = rng.choice(UN)
                    a, ea, da = build(depth - 1)
                    # affine rescale of the argument into the smooth domain using current values
                    v = a.val
                    mid, half = (lo + hi) / 2, (hi - lo) / 2
                    sc = half / (np.max(np.abs(v)) + 1.0)
                    arg = a * float(sc) + float(mid)
                    earg = [e * sp.Float(float(sc), 30) + sp.Float(float(mid), 30) for e in ea]
                    return f(arg), [sf(e) for e in earg], f"{name}({da})"
                if kind == "scal":
                    a, ea, da = build(depth - 1)
                    c = rng.choice([2.0, -1.5, 0.5, 3])
                    op = rng.choice(["+", "*", "/", "r-", "r/", "**", "r**"])
                    if op == "+":
                        return a + c, [e + c for e in ea], f"({da}+{c})"
                    if op == "*":
                        return a * c, [e * c for e in ea], f"({da}*{c})"
                    if op == "/":
                        return a / c, [e / c for e in ea], f"({da}/{c})"
                    if op == "r-":
                        return c - a, [c - e for e in ea], f"({c}-{da})"
                    pos = a * a + 0.5
                    epos = [e * e + sp.Rational(1, 2) for e in ea]
                    if op == "r/":
                        return c / pos, [c / e for e in epos], f"({c}/({da}^2+.5))"
                    if op == "**":
                        return pos ** c, [e ** sp.nsimplify(c) for e in epos], f"(({da}^2+.5)**{c})"
                    cc = abs(c)
                    return cc ** a, [sp.nsimplify(cc) ** e for e in ea], f"({cc}**{da})"
                if kind == "mat":
                    a, ea, da = build(depth - 1)
                    M = np.array([[rng.choice([0, 0, 1, -2, 0.5]) for _ in range(n)] for _ in range(n)], dtype=float)
                    import scipy.sparse as sps
                    return sps.csr_matrix(M) @ a, [sum(sp.nsimplify(M[r, c]) * ea[c] for c in range(n)) for r in range(n)], f"(A@{da})"
                a, ea, da = build(depth - 1)
                b, eb, db = build(depth - 1)
                op = rng.choice(["+", "-", "*", "/", "**", "max"])
                if op == "+":
                    return a + b, [x + y for x, y in zip(ea, eb)], f"({da}+{db})"
                if op == "-":
                    return a - b, [x - y for x, y in zip(ea, eb)], f"({da}-{db})"
                if op == "*":
                    return a * b, [x * y for x, y in zip(ea, eb)], f"({da}*{db})"
                bp = b * b + 0.5
                ebp = [y * y + sp.Rational(1, 2) for y in eb]
                if op == "/":
                    return a / bp, [x / y for x, y in zip(ea, ebp)], f"({da}/({db}^2+.5))"
                if op == "**":
                    ap = a * a + 0.5
                    eap = [x * x + sp.Rational(1, 2) for x in ea]
                    return ap ** b, [x ** y for x, y in zip(eap, eb)], f"(({da}^2+.5)**{db})"
                return fns.maximum(a, b), [sp.Max(x, y) for x, y in zip(ea, eb)], f"max({da},{db})"

            try:
                with warnings.catch_warnings():
                    warnings.simplefilter("ignore")
                    res, exprs, desc = build(3)
            except (FloatingPointError, ZeroDivisionError, OverflowError):
                sw.skip()
                continue
            if not isinstance(res, pp.ad.AdArray):
                sw.skip()
                continue
            allsyms = syms[0] + syms[1]
            subs = {s: float(v) for s, v in zip(allsyms, np.concatenate(pt))}
            try:
                ev = np.array([complex(e.evalf(30, subs=subs)) for e in exprs])
                ej = np.array([[complex(sp.diff(e, s).evalf(30, subs=subs)) for s in allsyms] for e in exprs])
            except Exception:
                sw.skip()
                continue
            if not (np.all(np.isfinite(ev)) and np.all(np.isfinite(ej)) and np.all(np.abs(ev.imag) < 1e-12) and np.all(np.isfinite(res.val))):
                sw.skip()
                continue
            if "max" in desc:
                # skip trees evaluated near a kink
                kink = False
                for e in exprs:
                    for mx in e.atoms(sp.Max):
                        vals = [complex(a.evalf(20, subs=subs)).real for a in mx.args]
                        if abs(vals[0] - vals[1]) < 1e-6:
                            kink = True
                if kink:
                    sw.skip()
                    continue
            nontrivial = any(k in desc for k in ("(", "*", "/"))
            sw.case(desc, nontrivial=nontrivial, sample={"tree": desc, "n": n})
            scale = 1 + np.max(np.abs(ev.real))
            if not np.allclose(res.val, ev.real, rtol=1e-9, atol=1e-10 * scale):
                rep.violation("tree: value equals numpy/sympy evaluation", _sig(desc), inputs={"tree": desc, "point": [p.tolist() for p in pt]},
                              detail=f"got {res.val} expected {ev.real}")
            J = res.jac.toarray() if hasattr(res.jac, "toarray") else np.asarray(res.jac)
            sj = 1 + np.max(np.abs(ej.real))
            if J.shape != ej.shape or not np.allclose(J, ej.real, rtol=1e-8, atol=1e-9 * sj):
                rep.violation("tree: Jacobian equals the true derivative", _sig(desc), inputs={"tree": desc, "point": [p.tolist() for p in pt]},
                              detail=f"max abs diff {np.max(np.abs(J - ej.real)) if J.shape == ej.shape else 'shape'}")
        # l2_norm and row slicing directly
        # magnitudes: order one, and small non-zero vectors (norm 1e-10 .. 1e-6: far above the function's own zero threshold 1e-12,
        # e.g. displacement jumps in kilometres) -- the norm is smooth at every non-zero vector
        for dim, nc, zeros, mag in [(d, n, z, m) for d in (1, 2, 3) for n in (1, 2, 3) for z in (False, True) for m in (1.0, 1e-7, 1e-10)]:
            if True:
                v = mag * np.array([rng.uniform(0.3, 2) * rng.choice([-1, 1]) for _ in range(dim * nc)])
                if zeros:
                    if dim == 1:
                        continue
                    # non-zero vectors with components that are exactly zero (axis-aligned vectors): the norm is smooth there
                    for c in range(nc):
                        keep = rng.randrange(dim)
                        for d in range(dim):
                            if d != keep and rng.random() < 0.7:
                                v[c * dim + d] = 0.0
                (a,) = pp.ad.initAdArrays([v.copy()])
                b = a * a + a
                r = fns.l2_norm(dim, b)
                bv = v * v + v
                resh = bv.reshape((dim, -1), order="F")
                nv = np.sqrt((resh ** 2).sum(axis=0))
                dJ = np.zeros((nc, dim * nc))
                for c in range(nc):
                    for d in range(dim):
                        k = c * dim + d
                        dJ[c, k] = resh[d, c] / nv[c] * (2 * v[k] + 1)
                sw.case(("l2_norm", dim, nc, mag, tuple(np.round(v / mag, 6))), True, sample={"l2_norm": [dim, nc, mag]})
                if not (np.allclose(r.val, nv, rtol=1e-12, atol=0) and np.allclose(r.jac.toarray(), dJ, rtol=1e-10, atol=1e-12)):
                    rep.violation("l2_norm: value and Jacobian", f"dim={dim}" + ("" if mag == 1.0 else ", small non-zero vectors"),
                                  inputs={"dim": dim, "v": v.tolist()}, detail=f"value {r.val.tolist()} expected {nv.tolist()}; Jacobian {r.jac.toarray().tolist()} expected {dJ.tolist()}")
        # integer powers are polynomials: smooth at a base that is exactly zero (d/dx x**p = p * x**(p-1), with 0**0 = 1 for p = 1)
        for n in (2, 3, 5):
            for form in ("array", "scalar"):
                for _ in range(2 if quick else 10):
                    x = np.array([rng.choice([0.0, 0.0, rng.uniform(-2, 2)]) for _ in range(n)])
                    x[rng.randrange(n)] = 0.0
                    p = np.array([float(rng.choice([1, 1, 2, 3])) for _ in range(n)]) if form == "array" else float(rng.choice([1, 2, 3]))
                    (a,) = pp.ad.initAdArrays([x.copy()])
                    with warnings.catch_warnings():
                        warnings.simplefilter("ignore")
                        r = a ** (p.copy() if form == "array" else p)
                    pe = p if form == "array" else np.full(n, p)
                    want_v = x ** pe
                    want_d = np.array([pe[k] * (x[k] ** (pe[k] - 1) if pe[k] != 1 else 1.0) for k in range(n)])
                    sw.case(("intpow", form, tuple(x.tolist()), tuple(pe.tolist())), True, sample={"x": x.tolist(), "p": pe.tolist()})
                    J = r.jac.toarray()
                    if not (np.allclose(r.val, want_v, rtol=1e-13, atol=0) and np.allclose(J, np.diag(want_d), rtol=1e-13, atol=0)):
                        rep.violation("AdArray.__pow__: integer exponent at a zero base (polynomial): value and Jacobian", f"{form} exponent",
                                      inputs={"intpow": form, "x": x.tolist(), "p": pe.tolist()},
                                      detail=f"value {r.val.tolist()} expected {want_v.tolist()}; Jacobian diagonal {np.diag(J).tolist()} expected {want_d.tolist()}")
        # frame: a function of AdArrays leaves its operands as they were (maximum updates a Jacobian in place: it must be its own copy)
        import scipy.sparse as sps

        for fmt in ("csr", "csc", "coo"):
            for _ in range(2 if quick else 10):
                n = rng.randint(2, 5)
                xv, yv = np.array([rng.uniform(-1, 1) for _ in range(n)]), np.array([rng.uniform(-1, 1) for _ in range(n)])
                Ju = sps.random(n, n + 1, density=0.6, random_state=rng.randrange(10**6), format=fmt) + sps.eye(n, n + 1, format=fmt)
                Jw = sps.random(n, n + 1, density=0.6, random_state=rng.randrange(10**6), format="csr")
                u, w = pp.ad.AdArray(xv.copy(), Ju.asformat(fmt)), pp.ad.AdArray(yv.copy(), Jw)
                u0, w0 = (u.val.copy(), u.jac.toarray().copy()), (w.val.copy(), w.jac.toarray().copy())
                sw.case(("frame-maximum", fmt, tuple(np.round(xv, 6)), tuple(np.round(yv, 6))), True)
                try:
                    r = fns.maximum(u, w)
                except Exception as e:  # noqa  (a csc first Jacobian used to be rejected inside merge_matrices: fixed, see KNOWN_FINDINGS)
                    rep.violation("maximum: returns for AdArrays with any sparse Jacobian format", f"first Jacobian {fmt}",
                                  inputs={"frame_maximum": fmt, "x": xv.tolist(), "y": yv.tolist()}, detail=f"{type(e).__name__}: {e}")
                    continue
                ok = (np.array_equal(u.val, u0[0]) and np.array_equal(u.jac.toarray(), u0[1]) and np.array_equal(w.val, w0[0])
                      and np.array_equal(w.jac.toarray(), w0[1]))
                pick = yv > xv
                wantJ = np.where(pick[:, None], w0[1], u0[1])
                if not ok:
                    rep.violation("maximum: operands unchanged (frame)", f"first Jacobian {fmt}", inputs={"frame_maximum": fmt, "x": xv.tolist(), "y": yv.tolist()},
                                  detail="an operand's value or Jacobian differs after the call")
                if not (np.allclose(r.val, np.maximum(xv, yv)) and np.allclose(r.jac.toarray(), wantJ)):
                    rep.violation("maximum: value and Jacobian rows of the larger operand", f"first Jacobian {fmt}",
                                  inputs={"frame_maximum": fmt, "x": xv.tolist(), "y": yv.tolist()}, detail="mismatch")


def _sig(desc):
    import re

    names = sorted(set(re.findall(r"[a-z_]+[a-z_0-9.()\-]*\(", desc)))
    return ("functions:" + ",".join(n.rstrip("(") for n in names)) if names else "arithmetic"


def replay(data):
    import porepy as pp

    inp = data.get("inputs") or {}
    fns = pp.ad.functions
    if "fn" in inp:
        x = np.array(inp["x"], dtype=float)
        (a,) = pp.ad.initAdArrays([x])
        if inp["fn"] == "safe_power":
            r = fns.safe_power(inp["power"], 0.0, 1e-10, a)
            exp = inp["power"] * x ** (inp["power"] - 1)
            got = r.jac.diagonal()
            print("safe_power jac", got, "expected", exp)
            return not np.allclose(got, exp)
    return False


# ----------------------------------------------------------------------------- entry


def run(rep):
    import porepy as pp
    from porepy.numerics.ad import forward_mode, functions

    rep.under_contract(
        "initAdArrays", "AdArray.__init__", *[f"AdArray.{BINOPS[k][0]}" for k in BINOPS], "AdArray.__neg__", "AdArray.copy",
        "AdArray.__rmatmul__", "AdArray.__getitem__", "AdArray._diagvec_mul_jac",
        *[f"functions.{k}" for k in UNARY_FUNCS], "functions.heaviside", "functions.heaviside_smooth", "functions.RegularizedHeaviside",
        "functions.maximum", "functions.characteristic_function", "functions.safe_power", "functions.l2_norm")
    rep.assume(
        "calculus: the derivative table of engine/oracle.py and the chain rule (cross-checked against finite differences on every run)",
        "requires: evaluation point inside each function's smooth domain (x>0 for log/pow base, |x|<1 for arcsin/arccos/arctanh, x>1 for arccosh, "
        "x!=0 for abs/heaviside/division, operands unequal for maximum, |x|>tol for safe_power/characteristic_function)",
        "whole expression trees: structural induction over the per-node contracts (each node obligation is the induction step)",
    )
    rep.crosschecks += oracle.selfcheck(rep.seed)
    refuted = []
    mods = [forward_mode, functions]
    with shims.shadow_builtins(mods), shims.numpy_shims():
        for op in BINOPS:
            for kind in ("float", "ndarray", "AdArray"):
                if op == "rmul" and kind == "AdArray":
                    continue  # documented RuntimeError
                rf, _ = run_case(rep, f"AdArray.{BINOPS[op][0]}({kind})", case_binop(pp, op, kind))
                refuted += rf
        for e in (2.0, 3, -1.0, 0.5, -2.0):
            rf, _ = run_case(rep, f"AdArray.__pow__({e!r})", case_concrete_pow(pp, e))
            refuted += rf
        for e in (1, 2, 3):
            rf, _ = run_case(rep, f"AdArray.__pow__(ndarray of {e}s), any real base", case_array_int_pow(pp, e))
            refuted += rf
        for e in (2, 3, -1, -2):
            rf, _ = run_case(rep, f"functions.safe_power(power={e}), base of either sign", case_safe_power_int(pp, e))
            refuted += rf
        for w in ("neg", "copy"):
            rf, _ = run_case(rep, f"AdArray.{w}", case_neg_copy(pp, w))
            refuted += rf
        rf, _ = run_case(rep, "AdArray.__rmatmul__(sparse)", case_rmatmul(pp))
        refuted += rf
        for k in ("slice", "indices"):
            rf, _ = run_case(rep, f"AdArray.__getitem__({k})", case_getitem(pp, k))
            refuted += rf
        for f in UNARY_FUNCS:
            rf, _ = run_case(rep, f"functions.{f}", case_unary(pp, f))
            refuted += rf
        for label, mk in (("functions.heaviside", case_heaviside), ("functions.heaviside_smooth", case_heaviside_smooth),
                          ("functions.characteristic_function", case_characteristic), ("functions.safe_power", case_safe_power),
                          ("functions.RegularizedHeaviside", case_regularized_heaviside)):
            rf, _ = run_case(rep, label, mk(pp))
            refuted += rf
        for kinds in (("AdArray", "AdArray"), ("AdArray", "ndarray"), ("ndarray", "AdArray"), ("AdArray", "float"), ("float", "AdArray")):
            rf, _ = run_case(rep, f"functions.maximum({kinds[0]},{kinds[1]})", case_maximum(pp, kinds))
            refuted += rf
        for nv in (1, 2, 3):
            rf, _ = run_case(rep, f"initAdArrays({nv} variables)", case_init_ad_arrays(pp, nv), tier="Ps")
            refuted += rf
        # l2_norm with dim > 1 writes symbolic entries into float arrays created by np.ones(shape): outside the
        # proxy fragment (see DESIGN C01); it is covered by the bounded sweep below (dim 1-3), dim == 1 is functions.abs.
    rep.trust(*sorted(shims.USED_MODELS))
    for name, ctx, r in refuted:
        inp = None
        confirmed = False
        sig = name.split(":")[0]
        if name.startswith("functions.safe_power") and "Jacobian" in name:
            inp = {"fn": "safe_power", "x": [2.0, 3.0], "power": -1.0}
            confirmed = replay({"inputs": inp})
        rep.violation(name, sig, inputs=inp if confirmed else None, detail=f"z3 counter-model: {r['model']}"[:1500], confirmed=confirmed,
                      solver_output=str(r["model"]))
    _sweep(rep, pp)
