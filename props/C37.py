"""C37 -- block-diagonal inversion returns the true inverse (tier B, run-time contract sweep).

Functions under contract (real porepy): pp.matrix_operations.invert_diagonal_blocks (method = "python", "numba", None),
generate_permutation_to_block_diag_matrix, invert_permuted_block_diag_matrix.

Contract (from the statement):
  requires  A block diagonal with square blocks of sizes s (a composition of n), every block nonsingular and well conditioned
            (strictly diagonally dominant, cond_2(A) <= 1e3 is re-checked), float64 data, int32 index arrays (what scipy builds).
  ensures   R = invert_diagonal_blocks(A, s, method):  max|R A - I| <= 1e-10 cond(A)  and  max|A R - I| <= 1e-10 cond(A);
            R has no entry outside the diagonal blocks; python and numba paths agree to 1e-10 cond(A) max|R|;
            zero entries in `s` are ignored.
  ensures   (rp, cp, bs) = generate_permutation_to_block_diag_matrix(P_r A P_c): rp, cp are permutations of 0..n-1, bs are positive
            and sum to n, every non-zero of A[rp][:, cp] lies inside the diagonal blocks given by bs, and the block sizes are those
            of the connected components of the bipartite row/column graph of the pattern (computed here by union-find).
  ensures   invert_permuted_block_diag_matrix(B, rp, cp, bs) B = I and B (...) = I at 1e-10 cond(B).

Input family: every composition of n for n = 1..6 (63 block structures) x {csr, csc} x storage variant {full blocks; sparse blocks
(off-diagonal entries dropped with probability 0.4); sparse blocks with reversed (unsorted) indices and explicit zeros} x seeded
values; seeded row and column permutations (identity, common permutation, independent permutations).

Detection power (scratch copy, POREPY_SRC, quick tier; each exit 1 with the named obligation in a VIOLATION line):
  M1 python path: `sequence_ij = l_row * size[ib] + l_col` -> `l_col * size[ib] + l_row` (transposed block)
       -> "invert_diagonal_blocks[python]: R A = I".
  M2 numba path: `sequence_ij = l_row * sz[ib + 1] + l_col` -> `l_row * sz[ib] + l_col` (previous block's size)
       -> "invert_diagonal_blocks[numba]: R A = I" and "invert_diagonal_blocks[default]: R A = I / returns normally".
  M3 generate_permutation_to_block_diag_matrix: `edge_list = [(int(i), int(num_rows + j)) ...]` -> `(int(j), int(num_rows + i))`
       (transposed pattern) -> "generate_permutation_to_block_diag_matrix: non-zeros of A[row_perm][:, col_perm] lie inside the diagonal blocks".
  M4 invert_permuted_block_diag_matrix: `inv_row_slicer = row_slicer.T` -> `row_slicer` -> "invert_permuted_block_diag_matrix: R B = I".
"""
from __future__ import annotations

META = {
    "level": "exploration",
    "engine": "sweep",
    "technique": "run-time contract sweep (bounded stand-in for deduction): postcondition inverse @ A = I evaluated on the real "
                 "functions for every composition of block sizes with total <= 6, csr/csc, full / sparse / unsorted storage, seeded "
                 "well-conditioned values and seeded row/column permutations",
    "text": "Bounded assurance: LU-based block inversion is floating-point linear algebra (deduction not applicable); the postcondition "
            "is evaluated natively. All 63 block structures of total size <= 6 are enumerated; values and permutations are seeded "
            "samples. The Ps proof of closed forms for 1x1/2x2 blocks mentioned in DESIGN was not attempted: the python path has no "
            "closed forms (it calls np.linalg.inv per block).",
    "note": "trusted: numpy dense matmul / cond, scipy.sparse construction; requires float64 data and int32 indices (the numba path is "
            "compiled for that signature only); tolerance 1e-10 * cond_2(A)",
}

import itertools
import os
import warnings

import numpy as np
import scipy.sparse as sps

TOL = 1e-10


def _compositions(n):
    if n == 0:
        yield ()
        return
    for first in range(1, n + 1):
        for rest in _compositions(n - first):
            yield (first,) + rest


def _block_values(rng, s, sparse):
    """strictly diagonally dominant s x s block with entries of both signs; pattern[i][j] True = stored"""
    B = np.zeros((s, s))
    pat = np.zeros((s, s), dtype=bool)
    for i in range(s):
        for j in range(s):
            if i != j and not (sparse and rng.random() < 0.4):
                B[i, j] = rng.choice((-1, 1)) * rng.uniform(0.1, 1.0)
                pat[i, j] = True
    for i in range(s):
        B[i, i] = rng.choice((-1, 1)) * (np.abs(B[i]).sum() + rng.uniform(0.5, 1.5))
        pat[i, i] = True
    return B, pat


def _assemble(rng, sizes, variant):
    n = sum(sizes)
    A = np.zeros((n, n))
    P = np.zeros((n, n), dtype=bool)
    o = 0
    for s in sizes:
        B, pat = _block_values(rng, s, variant != "full")
        A[o:o + s, o:o + s] = B
        P[o:o + s, o:o + s] = pat
        o += s
    if variant == "unsorted+explicit zeros":
        # store some structural zeros inside the blocks explicitly
        o = 0
        for s in sizes:
            for i in range(s):
                for j in range(s):
                    if not P[o + i, o + j] and rng.random() < 0.5:
                        P[o + i, o + j] = True
            o += s
    return A, P


def _store(A, P, fmt, reverse):
    """csr/csc built by hand from the dense values A and the stored pattern P (int32 indices, float64 data)"""
    n, m = A.shape
    if fmt == "csr":
        lines = [[(j, A[i, j]) for j in range(m) if P[i, j]] for i in range(n)]
    else:
        lines = [[(i, A[i, j]) for i in range(n) if P[i, j]] for j in range(m)]
    if reverse:
        lines = [l[::-1] for l in lines]
    indptr = np.cumsum([0] + [len(l) for l in lines]).astype(np.int32)
    indices = np.array([e[0] for l in lines for e in l], dtype=np.int32)
    data = np.array([e[1] for l in lines for e in l], dtype=np.float64)
    cls = sps.csr_matrix if fmt == "csr" else sps.csc_matrix
    return cls((data, indices, indptr), shape=(n, m))


def _components(P):
    """sizes of the connected components of the bipartite graph rows--columns of the pattern (union-find); returns sorted list of
    (#rows, #cols)"""
    n = P.shape[0]
    par = list(range(2 * n))

    def find(i):
        while par[i] != i:
            par[i] = par[par[i]]
            i = par[i]
        return i

    for i in range(n):
        for j in range(n):
            if P[i, j]:
                a, b = find(i), find(n + j)
                if a != b:
                    par[a] = b
    comp = {}
    for i in range(n):
        comp.setdefault(find(i), [0, 0])[0] += 1
        comp.setdefault(find(n + i), [0, 0])[1] += 1
    return sorted(tuple(v) for v in comp.values())


def _inside_blocks(M, sizes, eps=0.0):
    mask = np.zeros(M.shape, dtype=bool)
    o = 0
    for s in sizes:
        mask[o:o + s, o:o + s] = True
        o += s
    return not np.any(np.abs(M[~mask]) > eps)


def check_invert(mo, A, P, sizes, s_arg, fmt, reverse, method):
    """returns list of (obligation, detail); [] when the contract holds"""
    n = A.shape[0]
    cond = np.linalg.cond(A)
    M = _store(A, P, fmt, reverse)
    tag = f"invert_diagonal_blocks[{method or 'default'}]"
    try:
        with warnings.catch_warnings():
            warnings.simplefilter("ignore")
            R = mo.invert_diagonal_blocks(M, np.array(s_arg, dtype=np.int64), method=method)
    except Exception as e:  # noqa
        return [(f"{tag}: returns normally on admissible input", f"{type(e).__name__}: {str(e)[:300]}")], None
    if not sps.issparse(R) or R.shape != (n, n):
        return [(f"{tag}: returns a sparse n x n matrix", f"got {type(R).__name__} {getattr(R, 'shape', None)}")], None
    Rd = R.toarray()
    bad = []
    e1 = np.abs(Rd @ A - np.eye(n)).max()
    e2 = np.abs(A @ Rd - np.eye(n)).max()
    if not (e1 <= TOL * cond):
        bad.append((f"{tag}: R A = I", f"max|R A - I| = {e1:.3e}, cond = {cond:.3e}"))
    elif not (e2 <= TOL * cond):
        bad.append((f"{tag}: A R = I", f"max|A R - I| = {e2:.3e}, cond = {cond:.3e}"))
    if not _inside_blocks(Rd, sizes):
        bad.append((f"{tag}: inverse has no entry outside the diagonal blocks", f"sizes {sizes}"))
    if not np.array_equal(M.toarray(), A):
        bad.append((f"{tag}: the argument matrix is not modified", "matrix changed"))
    return bad, Rd


def _check_block_scales(mo, A, P, s, rp0, cp0, fmt):
    """B = (diag(s) A)[rp0][:, cp0] with s constant on each diagonal block of A: the returned R must satisfy R diag(s[rp0]) = B0^-1 with
    B0 = A[rp0][:, cp0].  Returns a description of what fails, or None."""
    n = A.shape[0]
    B0 = A[rp0][:, cp0]
    sp_ = s[rp0]
    B = sp_[:, None] * B0
    M = _store(B, P[rp0][:, cp0], fmt, False)
    try:
        with warnings.catch_warnings():
            warnings.simplefilter("ignore")
            rp, cp, bs = mo.generate_permutation_to_block_diag_matrix(M)
            R = mo.invert_permuted_block_diag_matrix(M, rp, cp, bs)
    except Exception as e:  # noqa
        return f"raises {type(e).__name__}: {str(e)[:300]}"
    if not sps.issparse(R) or R.shape != (n, n):
        return f"got {type(R).__name__} {getattr(R, 'shape', None)}"
    R0 = R.toarray() * sp_[None, :]
    cond = np.linalg.cond(B0)
    e1 = np.abs(R0 @ B0 - np.eye(n)).max()
    if not (e1 <= TOL * cond):
        return f"max|(R diag(s)) B0 - I| = {e1:.3e}, cond(B0) = {cond:.3e}, row scales {sorted(set(s.tolist()))}"
    return None


def check_permuted(mo, A, P, rp0, cp0, fmt, reverse):
    """B = A[rp0][:, cp0]; contracts of generate_permutation_to_block_diag_matrix and invert_permuted_block_diag_matrix"""
    n = A.shape[0]
    B = A[rp0][:, cp0]
    PB = P[rp0][:, cp0]
    M = _store(B, PB, fmt, reverse)
    bad = []
    g = "generate_permutation_to_block_diag_matrix"
    try:
        with warnings.catch_warnings():
            warnings.simplefilter("ignore")
            rp, cp, bs = mo.generate_permutation_to_block_diag_matrix(M)
    except Exception as e:  # noqa
        return [(f"{g}: returns normally on admissible input", f"{type(e).__name__}: {str(e)[:300]}")]
    rp, cp, bs = np.asarray(rp), np.asarray(cp), np.asarray(bs)
    if sorted(rp.tolist()) != list(range(n)) or sorted(cp.tolist()) != list(range(n)):
        return [(f"{g}: row and column maps are permutations of 0..n-1", f"row {rp.tolist()} col {cp.tolist()}")]
    if bs.ndim != 1 or np.any(bs < 1) or int(bs.sum()) != n:
        return [(f"{g}: block sizes are positive and sum to n", f"{bs.tolist()} n={n}")]
    # the structural non-zeros of B (explicitly stored zeros are not couplings)
    nzB = PB & (B != 0)
    if not _inside_blocks(nzB[rp][:, cp].astype(float), bs.tolist()):
        bad.append((f"{g}: non-zeros of A[row_perm][:, col_perm] lie inside the diagonal blocks", f"row {rp.tolist()} col {cp.tolist()} sizes {bs.tolist()}"))
    else:
        comps = _components(nzB)
        if sorted(bs.tolist()) != sorted(c[0] for c in comps):
            bad.append((f"{g}: blocks are the connected components of the pattern", f"component sizes {sorted(c[0] for c in comps)}, got {sorted(bs.tolist())}"))
    f = "invert_permuted_block_diag_matrix"
    if not bad:
        cond = np.linalg.cond(B)
        try:
            with warnings.catch_warnings():
                warnings.simplefilter("ignore")
                R = mo.invert_permuted_block_diag_matrix(M, rp, cp, bs)
        except Exception as e:  # noqa
            return [(f"{f}: returns normally on admissible input", f"{type(e).__name__}: {str(e)[:300]}")]
        if not sps.issparse(R) or R.shape != (n, n):
            return [(f"{f}: returns a sparse n x n matrix", f"got {type(R).__name__} {getattr(R, 'shape', None)}")]
        Rd = R.toarray()
        e1 = np.abs(Rd @ B - np.eye(n)).max()
        e2 = np.abs(B @ Rd - np.eye(n)).max()
        if not (e1 <= TOL * cond):
            bad.append((f"{f}: R B = I", f"max|R B - I| = {e1:.3e}, cond = {cond:.3e}"))
        elif not (e2 <= TOL * cond):
            bad.append((f"{f}: B R = I", f"max|B R - I| = {e2:.3e}, cond = {cond:.3e}"))
        if not np.array_equal(M.toarray(), B):
            bad.append((f"{f}: the argument matrix is not modified", "matrix changed"))
    return bad


def _sig(sizes, fmt, variant, extra=""):
    kinds = []
    if all(s == 1 for s in sizes):
        kinds.append("all 1x1 blocks")
    elif len(sizes) == 1:
        kinds.append("single block")
    elif len(set(sizes)) == 1:
        kinds.append("uniform blocks")
    else:
        kinds.append("mixed block sizes")
    return f"{fmt} {variant} {kinds[0]}{extra}"


def run(rep):
    os.environ.setdefault("NUMBA_NUM_THREADS", "4")  # the numba inverter is parallel; keep the footprint small
    import porepy as pp

    mo = pp.matrix_operations
    quick = rep.tier == "quick"
    rng = rep.rng
    rep.under_contract("pp.matrix_operations.invert_diagonal_blocks (python, numba, default)",
                       "pp.matrix_operations.generate_permutation_to_block_diag_matrix",
                       "pp.matrix_operations.invert_permuted_block_diag_matrix")
    rep.assume("requires: strictly diagonally dominant blocks (cond_2(A) <= 1e3 re-checked, otherwise skipped), float64 data, int32 indices",
               "tolerance 1e-10 * cond_2(A) on max|R A - I| and max|A R - I|",
               "numba compiles invert_diagonal_blocks' inner function as written (exercised as compiled)")
    rep.trust("numpy dense matmul, np.linalg.cond", "scipy.sparse csr/csc constructors and toarray", "union-find component oracle in props/C37.py")
    rep.explanation = "B only: inverse @ A = I evaluated natively for all 63 block structures of total size <= 6 with seeded values/permutations."
    seeds = 1 if quick else 8
    variants = ("full", "sparse", "unsorted+explicit zeros")
    comps = [c for n in range(1, 7) for c in _compositions(n)]

    with rep.sweep(
        "invert_diagonal_blocks",
        rule="every composition of n = 1..6 into block sizes (63) x {csr, csc} x storage {full blocks, sparse blocks, sparse blocks with "
             "reversed indices and explicitly stored zeros} x %d seeded value set(s); methods python and numba on every case, default "
             "(None) on the csr cases; python/numba agreement; plus size arrays with zero entries inserted; nontrivial = some block of "
             "size >= 2; distinct by (sizes, format, storage, seed, method)" % seeds,
        bound="total size <= 6, all 63 compositions",
        exhaustive=False,
    ) as sw:
        for sizes in comps:
            for variant in variants:
                for seed in range(seeds):
                    A, P = _assemble(rng, sizes, variant)
                    cond = np.linalg.cond(A)
                    if not cond <= 1e3:
                        sw.skip()
                        continue
                    for fmt in ("csr", "csc"):
                        rev = variant == "unsorted+explicit zeros"
                        res = {}
                        for method in ("python", "numba") + ((None,) if fmt == "csr" and variant == "full" else ()):
                            bad, Rd = check_invert(mo, A, P, sizes, sizes, fmt, rev, method)
                            res[method] = Rd
                            inp = {"A": A.tolist(), "stored": P.astype(int).tolist(), "sizes": list(sizes), "format": fmt,
                                   "reversed_indices": rev, "method": method}
                            sw.case((sizes, fmt, variant, seed, method), nontrivial=max(sizes) >= 2, sample={k: inp[k] for k in ("sizes", "format", "method", "A")})
                            for ob, detail in bad:
                                rep.violation(ob, _sig(sizes, fmt, variant), inputs=inp, detail=detail, confirmed=True)
                        if res.get("python") is not None and res.get("numba") is not None:
                            d = np.abs(res["python"] - res["numba"]).max()
                            if not d <= TOL * cond * max(1.0, np.abs(res["python"]).max()):
                                rep.violation("invert_diagonal_blocks: python and numba paths agree", _sig(sizes, fmt, variant),
                                              inputs={"A": A.tolist(), "stored": P.astype(int).tolist(), "sizes": list(sizes), "format": fmt,
                                                      "reversed_indices": rev, "method": "python"},
                                              detail=f"max difference {d:.3e}", confirmed=True)
        # zero entries in the size array are ignored
        for sizes in [c for c in comps if sum(c) in (3, 5)]:
            A, P = _assemble(rng, sizes, "full")
            for pos in range(len(sizes) + 1):
                s_arg = list(sizes[:pos]) + [0] + list(sizes[pos:])
                for method in ("python", "numba") if (pos in (0, len(sizes)) or not quick) else ("python",):
                    bad, _ = check_invert(mo, A, P, sizes, s_arg, "csr", False, method)
                    inp = {"A": A.tolist(), "stored": P.astype(int).tolist(), "sizes": s_arg, "true_sizes": list(sizes), "format": "csr",
                           "reversed_indices": False, "method": method}
                    sw.case((tuple(s_arg), "zero", method), nontrivial=True)
                    for ob, detail in bad:
                        rep.violation(ob, _sig(sizes, "csr", "full", " zero entry in the size array"), inputs=inp, detail=detail, confirmed=True)

    with rep.sweep(
        "permuted block-diagonal matrices",
        rule="every composition of n = 1..6 x storage {full, sparse} x row/column permutations {identity; the same seeded permutation on "
             "rows and columns; independent seeded permutations} x {csr, csc alternating} x %d seed(s): generate_permutation_to_block_diag_"
             "matrix (permutations, sizes, block-diagonal form, component sizes) then invert_permuted_block_diag_matrix; nontrivial = "
             "at least two blocks and a non-identity permutation; distinct by (sizes, storage, permutations, seed)" % seeds,
        bound="total size <= 6, all 63 compositions, seeded permutations",
        exhaustive=False,
    ) as sw:
        k = 0
        for sizes in comps:
            n = sum(sizes)
            for variant in ("full", "sparse"):
                for seed in range(seeds):
                    A, P = _assemble(rng, sizes, variant)
                    if not np.linalg.cond(A) <= 1e3:
                        sw.skip()
                        continue
                    p1 = list(range(n))
                    rng.shuffle(p1)
                    p2, p3 = list(range(n)), list(range(n))
                    rng.shuffle(p2)
                    rng.shuffle(p3)
                    for pname, rp0, cp0 in (("identity", list(range(n)), list(range(n))), ("symmetric", p1, p1), ("independent", p2, p3)):
                        k += 1
                        fmt = ("csr", "csc")[k % 2]
                        bad = check_permuted(mo, A, P, np.array(rp0), np.array(cp0), fmt, False)
                        inp = {"A": A.tolist(), "stored": P.astype(int).tolist(), "sizes": list(sizes), "row_perm": rp0, "col_perm": cp0, "format": fmt}
                        sw.case((sizes, variant, tuple(rp0), tuple(cp0), seed, fmt), nontrivial=len(sizes) > 1 and pname != "identity",
                                sample={kk: inp[kk] for kk in ("sizes", "row_perm", "col_perm", "format")})
                        for ob, detail in bad:
                            rep.violation(ob, _sig(sizes, fmt, variant, f" {pname} permutation"), inputs=inp, detail=detail, confirmed=True)
                        if seed == 0 and pname != "symmetric" and len(sizes) > 1:
                            # (a) explicitly stored zeros OUTSIDE the diagonal blocks (as in assembled Jacobians whose derivatives evaluate to
                            # zero): value-wise the same matrix; (b) the same matrix in other units (entries of order 1e10 and 1e-17)
                            P2 = P.copy()
                            for _ in range(3):
                                i, j = rng.randrange(n), rng.randrange(n)
                                if A[i, j] == 0:
                                    P2[i, j] = True
                            for vname, A2, Pv in (("stored zeros outside the blocks", A, P2), ("entries scaled by 1e10", A * 1e10, P), ("entries scaled by 1e-17", A * 1e-17, P)):
                                bad = check_permuted(mo, A2, Pv, np.array(rp0), np.array(cp0), fmt, False)
                                inp2 = {"A": A2.tolist(), "stored": Pv.astype(int).tolist(), "sizes": list(sizes), "row_perm": rp0, "col_perm": cp0, "format": fmt}
                                sw.case((sizes, variant, tuple(rp0), tuple(cp0), seed, fmt, vname), nontrivial=True)
                                for ob, detail in bad:
                                    rep.violation(ob, _sig(sizes, fmt, variant, f" {pname} permutation, {vname}"), inputs=inp2, detail=detail, confirmed=True)
                            # (c) blocks in different units: the rows of block k scaled by 2**(+-30) (exact in binary floating point), so that the
                            # entries of the inverse differ by 18 orders of magnitude between blocks; judged after undoing the scaling
                            if quick and pname != "independent":
                                continue
                            off = np.cumsum([0] + list(sizes))
                            s = np.ones(n)
                            for q in range(len(sizes)):
                                s[off[q]:off[q + 1]] = (2.0 ** 30, 2.0 ** -30, 1.0)[q % 3]
                            detail = _check_block_scales(mo, A, P, s, np.array(rp0), np.array(cp0), fmt)
                            sw.case((sizes, variant, tuple(rp0), tuple(cp0), seed, fmt, "block scales"), nontrivial=True)
                            if detail:
                                rep.violation("invert_permuted_block_diag_matrix: R B = I for blocks of different magnitude (judged after undoing the row scaling)",
                                              _sig(sizes, fmt, variant, f" {pname} permutation, block scales 2^30 / 2^-30"),
                                              inputs={"A": A.tolist(), "stored": P.astype(int).tolist(), "sizes": list(sizes), "row_perm": rp0, "col_perm": cp0,
                                                      "format": fmt, "row_scales": s.tolist()}, detail=detail, confirmed=True)


def replay(data):
    import porepy as pp

    mo = pp.matrix_operations
    inp = data.get("inputs") or {}
    if "A" not in inp:
        return False
    A = np.array(inp["A"], dtype=float)
    P = np.array(inp["stored"], dtype=bool)
    if "row_scales" in inp:
        bad = _check_block_scales(mo, A, P, np.array(inp["row_scales"], dtype=float), np.array(inp["row_perm"]), np.array(inp["col_perm"]), inp["format"])
    elif "row_perm" in inp:
        bad = check_permuted(mo, A, P, np.array(inp["row_perm"]), np.array(inp["col_perm"]), inp["format"], False)
    else:
        sizes = inp.get("true_sizes", inp["sizes"])
        bad, _ = check_invert(mo, A, P, sizes, inp["sizes"], inp["format"], inp["reversed_indices"], inp["method"])
    print("replay:", bad)
    return bool(bad)
