"""C14 -- FV discretisations (MPFA, MPSA, Biot) do not depend on how the grid is split.

Tier B (bounded run-time contract sweep; deduction not applicable: sparse floating-point numerics).  All clauses are
*relational* postconditions between calls of the real ``discretize`` on the same grid and parameters; the reference is
the one-piece discretisation (no partition arguments, default inverter).  Matrices are compared entry-wise, tolerance
1e-12 x max|reference matrix| (observed differences on the unchanged tree are <= 1e-15), nested dictionaries (Biot
coupling terms) included.  Parameters are heterogeneous (seeded cell-wise K / mu / lambda / coupling tensor) and the
boundary typing is a seeded per-face Dirichlet/Neumann mix, so that any bookkeeping slip changes numbers.

  SPLIT    partition_arguments {num_subproblems: n}, n in {2,3,5}, and {max_memory: m} with m chosen from the scheme's own
           peak-memory estimate so that 2 or 3 subproblems result: every stored matrix equals the one-piece result.
  INVERTER numba and python local inverters give the same matrices.
  PARTIAL  a fresh discretisation with specified_cells / specified_faces / specified_nodes equals the one-piece result on
           the rows the update targets.  The targeted rows are computed here from the incidence matrices, following the
           documented intention of cell_ind_for_partial_update: faces sharing a vertex with the specified cells / with the
           specified faces / having all vertices among the specified nodes; for cell-row matrices (Biot divergence terms):
           the specified cells / the cells adjacent to the specified faces / cells having all vertices specified.
  UPDATE-M parameters are changed in some cells (or the boundary type on some faces) and the scheme's
           update_discretization(sd, data) is called with modified_cells / modified_faces: all matrices equal a full
           rediscretisation with the new parameters.
  UPDATE-F the same through the parameter flag update_discretization=True + specified_cells / specified_faces (the way
           porepy's own MPSA tests drive it).
  SUB      run-time contract of _fvutils.subproblems (named function, so that a failure is attributed): the yielded
           cells_in_partition partition the cells; every face is an active face of >= 1 subproblem; active faces and
           partition cells are contained in the local-to-global maps; the subgrid carries the parent geometry at the mapped
           indices; the overlap is sufficient: every cell sharing a vertex with an active face is in the subgrid.
  ZERO     run-time contract of _fvutils.remove_nonlocal_contribution(ind, nd, *mats): rows ind*nd..ind*nd+nd-1 become
           zero, all other entries are unchanged (empty / unsorted / duplicated index sets, nd 1..3, several matrices).

Detection power (scratch copy, one mutant at a time, POREPY_SRC=<copy>): see MUTANTS below.
"""
from __future__ import annotations

META = {
    "level": "exploration",
    "engine": "sweep",
    "technique": "run-time contract sweep (bounded stand-in for deduction): relational postconditions between calls of the real "
                 "Mpfa/Mpsa/Biot.discretize (one piece vs. split by num_subproblems / max_memory, numba vs python inverter, partial "
                 "discretisation on targeted rows, in-place updates vs full rediscretisation) on small 2-D/3-D grids with seeded heterogeneous "
                 "parameters, plus run-time contracts of _fvutils.subproblems and remove_nonlocal_contribution",
    "text": "Bounded assurance only on the enumerated family. Deduction not applicable. Not covered: METIS partitions (pymetis absent: the "
            "structured / coordinate partitioners are exercised), periodic boundaries, vector eta, combined cells+faces+nodes specifications "
            "(documented as untested in porepy), grids with fractures.",
    "note": "reference = the real one-piece discretisation (relational property); targeted rows of partial updates from incidence matrices; "
            "tolerance 1e-12 relative to max|matrix|",
}

MUTANTS = """
  M1 mpfa.py discretize: face-repetition scaling ``1.0 / num_face_repetitions`` -> ones (faces on subproblem borders counted twice)
       caught by "Mpfa.discretize: matrices independent of the number of subproblems" (all 4 grid classes)
  M2 _fvutils.remove_nonlocal_contribution: ``expand_indices_nd(raw_ind, nd)`` -> ``(raw_ind, 1)`` (vector rows not expanded)
       caught by the ZERO contract (nd = 2, 3) and by SPLIT / PARTIAL / UPDATE of Mpsa and Biot
  M3 _fvutils.subproblems: ``cell_ind_for_partial_update(sd, nodes=nodes_in_partition)`` -> ``nodes_in_partition[:-1]`` (off by one)
       caught by the SUB contract (faces never active / active faces != expected) and SPLIT of all three schemes
  M4 _fvutils.cell_ind_for_partial_update (nodes mode): active faces ``num_active == num_face_nodes`` -> ``>= num_face_nodes - 1``
       caught by the SUB contract and SPLIT of all three schemes
  M5 biot.py discretize: ``eliminate_cell`` computed from ``np.isin(l2g_cells, l2g_cells)`` (overlap cells never eliminated from the
       cell-row coupling matrices)                    caught by "Biot.discretize: matrices independent of the number of subproblems"
  M6 mpfa.py _bc_for_subgrid: ``bc.is_dir[face_map]`` -> reversed face order (wrong faces get the Dirichlet tag)
       caught by O_RUN (local systems become inconsistent -> exception), UPDATE-M and UPDATE-F of Mpfa
  M7 _fvutils.partial_update_discretization: the one-layer cell overlap for cell-row matrices dropped
       caught by "Biot.discretize: update_discretization(modified cells/faces) equals a full rediscretisation" only

  (M7 is told apart from the genuine finding below by the signature: "vertex-neighbour cell row differs" vs "distant cell row differs".)

  Unchanged tree -- two candidate genuine defects, both reported to the lead, check kept strict:
   F1 UPDATE-F, Biot: ``Biot.discretize`` with ``update_discretization=True`` raises ``TypeError: unhashable type: 'numpy.ndarray'``
      (biot.py update branch indexes the per-coupling-key *dict* ``matrices_m['displacement_divergence']`` with a cell-index array).
      Signature "raises TypeError".
   F2 UPDATE-M, Biot: ``Biot.update_discretization`` (modified_cells=[corner cell] on a 5x4 Cartesian grid) overwrites the rows of the
      cell-row coupling matrices (displacement_divergence, boundary_displacement_divergence, mpsa_consistency) of a cell that is merely
      adjacent to an active face but whose vertex stencils are not all inside the active subgrid (cell 7 for modified cell 19): the row
      then contains contributions of artificial Neumann faces of the subgrid.  Signature "distant cell row differs after changing cells".
"""

import warnings

import numpy as np

TOL = 1e-12
METHODS = ("mpfa", "mpsa", "biot")
KWS = {"mpfa": "flow", "mpsa": "mechanics", "biot": "mechanics"}
NAMES = {"mpfa": "Mpfa", "mpsa": "Mpsa", "biot": "Biot"}
CELL_ROW_KEYS = ("displacement_divergence", "boundary_displacement_divergence", "mpsa_consistency")


def ob(method, clause):
    return f"{NAMES[method]}.discretize: {clause}"


O_SPLIT = "matrices independent of the number of subproblems"
O_INV = "numba and python inverters give the same matrices"
O_PART = "partial discretisation equals the one-piece result on the targeted rows"
O_UPM = "update_discretization(modified cells/faces) equals a full rediscretisation"
O_UPF = "in-place update (update_discretization=True + specified cells/faces) equals a full rediscretisation"
O_RUN = "terminates without exception on an admissible input"
O_SUB = "_fvutils.subproblems: cells partitioned, faces covered, maps consistent, overlap sufficient"
O_ZERO = "_fvutils.remove_nonlocal_contribution: exactly the targeted rows are zeroed"


# ----------------------------------------------------------------------------- grids and parameters


def build_grid(pp, spec):
    ctor = {"cart": pp.CartGrid, "tri": pp.StructuredTriangleGrid, "tet": pp.StructuredTetrahedralGrid}[spec["kind"]]
    g = ctor(np.array(spec["n"]), np.array(spec["phys"], dtype=float))
    if spec.get("pert_seed") is not None:
        rs = np.random.RandomState(spec["pert_seed"])
        h = min(p / k for p, k in zip(spec["phys"], spec["n"]))
        g.nodes[: g.dim] += 0.15 * h * (2 * rs.rand(g.dim, g.num_nodes) - 1)
    if spec.get("tilt") is not None:
        # a 2-D grid embedded in 3-D: rotated out of the xy-plane (angle, axis)
        g.nodes = pp.map_geometry.rotation_matrix(spec["tilt"][0], np.array(spec["tilt"][1], dtype=float)) @ g.nodes
    with warnings.catch_warnings():
        warnings.simplefilter("ignore")
        g.compute_geometry()
    return g


def grid_valid(g):
    cf = g.cell_faces.tocoo()
    d = g.face_centers[:, cf.row] - g.cell_centers[:, cf.col]
    return bool(np.all(g.cell_volumes > 0) and np.all(np.sum(d * g.face_normals[:, cf.row], axis=0) * cf.data > 0))


def make_params(pp, method, g, seed, layout, scale_cells=None, flip_faces=None):
    """Seeded heterogeneous parameters.  ``scale_cells``: cells whose material parameters are changed (the 'new' state of an
    update); ``flip_faces``: boundary faces whose type is flipped Dirichlet <-> Neumann."""
    rs = np.random.RandomState(seed)
    nc = g.num_cells
    bf = g.get_all_boundary_faces()
    cond = {int(f): ("dir" if c == "d" else "neu") for f, c in zip(bf, layout)}
    for f in (flip_faces if flip_faces is not None else []):
        cond[int(f)] = "neu" if cond[int(f)] == "dir" else "dir"
    cond_list = [cond[int(f)] for f in bf]
    fac = np.ones(nc)
    if scale_cells is not None:
        fac[np.asarray(scale_cells, dtype=int)] = 3.0
    if method == "mpfa":
        kxx, kyy, kzz = 0.5 + rs.rand(nc), 0.5 + rs.rand(nc), 0.5 + rs.rand(nc)
        kxy = 0.2 * (rs.rand(nc) - 0.5)
        if g.dim == 3:
            # full tensor in 3-D (diagonally dominant, hence SPD): the out-of-plane couplings make every sub-face of a face matter
            kxz, kyz = 0.2 * (rs.rand(nc) - 0.5), 0.2 * (rs.rand(nc) - 0.5)
            K = pp.SecondOrderTensor(kxx * fac, kyy=kyy * fac, kzz=kzz * fac, kxy=kxy * fac, kxz=kxz * fac, kyz=kyz * fac)
        else:
            K = pp.SecondOrderTensor(kxx * fac, kyy=kyy * fac, kzz=None, kxy=kxy * fac)
        out = {"bc": pp.BoundaryCondition(g, bf, cond_list), "second_order_tensor": K}
        if g.dim == 2 and np.abs(g.nodes[2]).max() > 0:
            out["ambient_dimension"] = 3  # embedded grid: the vector source lives in the ambient coordinates
        return out
    mu, lam = 0.5 + rs.rand(nc), 0.5 + rs.rand(nc)
    p = {"bc": pp.BoundaryConditionVectorial(g, bf, cond_list), "fourth_order_tensor": pp.FourthOrderTensor(mu * fac, lam / fac)}
    if method == "biot":
        p["scalar_vector_mappings"] = {"a": 0.7, "b": pp.SecondOrderTensor(0.5 + rs.rand(nc), kyy=1 + rs.rand(nc))}
    return p


def make_discr(pp, method):
    return {"mpfa": pp.Mpfa, "mpsa": pp.Mpsa, "biot": pp.Biot}[method](KWS[method])


def flatten(M):
    out = {}
    for k, v in M.items():
        if isinstance(v, dict):
            for kk, vv in v.items():
                out[f"{k}/{kk}"] = vv
        else:
            out[k] = v
    return out


def inv_args(method, inverter):
    return {} if inverter is None else {("mpfa_inverter" if method == "mpfa" else "inverter"): inverter}


def discretize(pp, method, g, params, extra=None):
    p = dict(params)
    p.update(extra or {})
    data = pp.initialize_data({}, KWS[method], p)
    with warnings.catch_warnings():
        warnings.simplefilter("ignore")
        make_discr(pp, method).discretize(g, data)
    return data


def mats(pp, method, data):
    return flatten(data[pp.DISCRETIZATION_MATRICES][KWS[method]])


_REF: dict = {}


def reference(pp, method, spec, g, seed, layout, scale_cells=None, flip_faces=None, inverter=None):
    """the one-piece discretisation (memoised per run: it is the common reference of all relations of a case family)"""
    key = (method, repr(sorted(spec.items())), seed, layout, None if scale_cells is None else tuple(int(c) for c in scale_cells),
           None if flip_faces is None else tuple(int(f) for f in flip_faces), inverter)
    if key not in _REF:
        if len(_REF) > 64:
            _REF.clear()
        params = make_params(pp, method, g, seed, layout, scale_cells=scale_cells, flip_faces=flip_faces)
        _REF[key] = {k: v.copy() for k, v in mats(pp, method, discretize(pp, method, g, params, inv_args(method, inverter))).items()}
    return _REF[key]


def compare(ref, other, rows=None):
    """first (key, i, j, ref, got) where the matrices differ beyond TOL * max|ref|, restricted to ``rows(key)``"""
    if set(ref) != set(other):
        return ("<keys>", sorted(set(ref) ^ set(other)))
    for k in sorted(ref):
        A, B = ref[k], other[k]
        if A.shape != B.shape:
            return (k, "shape", A.shape, B.shape)
        A, B = A.toarray(), B.toarray()
        if rows is not None:
            r = rows(k)
            if r.size == 0:
                continue
            Ar, Br = A[r], B[r]
        else:
            Ar, Br = A, B
        if Ar.size == 0:
            continue
        d = np.abs(Ar - Br)
        if d.max() > TOL * max(np.abs(A).max(), 1e-300):
            i, j = np.unravel_index(d.argmax(), d.shape)
            return (k, int(i if rows is None else r[i]), int(j), float(Ar[i, j]), float(Br[i, j]))
    return None


# ----------------------------------------------------------------------------- targeted rows of partial updates (from incidences)


def targets(g, mode, idx):
    fn = g.face_nodes.toarray().astype(bool)  # nodes x faces
    cn = g.cell_nodes().toarray().astype(bool)  # nodes x cells
    idx = np.asarray(idx, dtype=int)
    if mode == "nodes":
        ns = np.zeros(g.num_nodes, dtype=bool)
        ns[idx] = True
        faces = np.flatnonzero(fn[~ns].sum(axis=0) == 0)
        cells = np.flatnonzero(cn[~ns].sum(axis=0) == 0)
    elif mode == "cells":
        ns = cn[:, idx].any(axis=1)
        faces = np.flatnonzero(fn[ns].any(axis=0))
        cells = idx
    else:
        ns = fn[:, idx].any(axis=1)
        faces = np.flatnonzero(fn[ns].any(axis=0))
        cells = np.flatnonzero(np.asarray(abs(g.cell_faces[idx]).sum(axis=0)).ravel() > 0)
    return faces, cells


def row_selector(method, g, faces, cells):
    nd = g.dim

    def rows(key):
        if key.split("/")[0] in CELL_ROW_KEYS:
            return np.asarray(cells, dtype=int)
        f = np.asarray(faces, dtype=int)
        if method == "mpfa":
            return f
        return (f[:, None] * nd + np.arange(nd)[None, :]).ravel()

    return rows


# ----------------------------------------------------------------------------- clause evaluators (each returns [(obligation, sig, detail)])


def _fmt(diff):
    return f"first difference: {diff}"


def check_split(pp, method, spec, seed, layout, part_args, inverter=None):
    g = build_grid(pp, spec)
    params = make_params(pp, method, g, seed, layout)
    try:
        ref = reference(pp, method, spec, g, seed, layout, inverter=inverter)
        got = mats(pp, method, discretize(pp, method, g, params, dict(inv_args(method, inverter), partition_arguments=dict(part_args))))
    except Exception as e:
        return [(ob(method, O_RUN), "split raises", f"partition_arguments={part_args}: {type(e).__name__}: {e}")]
    diff = compare(ref, got)
    return [(ob(method, O_SPLIT), f"{g.dim}d {spec['kind']}", f"partition_arguments={part_args}: {_fmt(diff)}")] if diff else []


def check_inverter(pp, method, spec, seed, layout):
    g = build_grid(pp, spec)
    params = make_params(pp, method, g, seed, layout)
    key = "mpfa_inverter" if method == "mpfa" else "inverter"
    try:
        a = reference(pp, method, spec, g, seed, layout)  # default inverter = numba
        a2 = mats(pp, method, discretize(pp, method, g, params, {key: "numba"}))
        b = mats(pp, method, discretize(pp, method, g, params, {key: "python"}))
        if compare(a, a2):
            return [(ob(method, O_INV), "explicit numba differs from default", _fmt(compare(a, a2)))]
    except Exception as e:
        return [(ob(method, O_RUN), "inverter raises", f"{type(e).__name__}: {e}")]
    diff = compare(a, b)
    return [(ob(method, O_INV), f"{g.dim}d {spec['kind']}", _fmt(diff))] if diff else []


def check_partial(pp, method, spec, seed, layout, mode, idx, inverter=None):
    g = build_grid(pp, spec)
    params = make_params(pp, method, g, seed, layout)
    try:
        ref = reference(pp, method, spec, g, seed, layout, inverter=inverter)
        data = discretize(pp, method, g, params, dict(inv_args(method, inverter), **{"specified_" + mode: np.asarray(idx, dtype=int)}))
        got = mats(pp, method, data)
    except Exception as e:
        return [(ob(method, O_RUN), f"partial {mode} raises", f"specified_{mode}={list(idx)}: {type(e).__name__}: {e}")]
    faces, cells = targets(g, mode, idx)
    diff = compare(ref, got, row_selector(method, g, faces, cells))
    if not diff and method in ("mpfa", "mpsa"):
        # the faces the scheme itself reports as (re)discretised are rows the update targets: they must be complete as well
        reported = data[pp.PARAMETERS][KWS[method]].get("active_faces")
        if reported is not None:
            reported = np.asarray(reported)
            rf = np.flatnonzero(reported) if reported.dtype == bool or (reported.size == g.num_faces and set(np.unique(reported)) <= {0, 1}) else reported.astype(int)
            diff = compare(ref, got, row_selector(method, g, rf, cells))
    return [(ob(method, O_PART), f"{g.dim}d {spec['kind']} specified_{mode}", f"specified_{mode}={list(idx)}: {_fmt(diff)}")] if diff else []


def check_update(pp, method, spec, seed, layout, what, idx, via, inverter=None):
    """what = 'cells' (material change in cells idx) | 'faces' (boundary type flipped on boundary faces idx);
    via = 'method' (update_discretization(sd, data)) | 'flag' (parameter update_discretization=True + specified_*)"""
    g = build_grid(pp, spec)
    idx = np.asarray(idx, dtype=int)
    kw = KWS[method]
    old = make_params(pp, method, g, seed, layout)
    new = make_params(pp, method, g, seed, layout, scale_cells=idx if what == "cells" else None, flip_faces=idx if what == "faces" else None)
    clause = O_UPM if via == "method" else O_UPF
    try:
        ref = reference(pp, method, spec, g, seed, layout, scale_cells=idx if what == "cells" else None,
                        flip_faces=idx if what == "faces" else None, inverter=inverter)
        data = discretize(pp, method, g, old, inv_args(method, inverter))
        before = {k: v.copy() for k, v in mats(pp, method, data).items()}
        if compare(ref, before) is None:
            return []  # the change had no effect (cannot happen with these scalings; then nothing to check)
        pr = data[pp.PARAMETERS][kw]
        for k in ("second_order_tensor", "fourth_order_tensor", "bc"):
            if k in new:
                pr[k] = new[k]
        discr = make_discr(pp, method)
        with warnings.catch_warnings():
            warnings.simplefilter("ignore")
            if via == "method":
                data["update_discretization"] = {("modified_cells" if what == "cells" else "modified_faces"): idx}
                discr.update_discretization(g, data)
            else:
                pr["update_discretization"] = True
                pr["specified_" + what] = idx
                discr.discretize(g, data)
        got = mats(pp, method, data)
    except Exception as e:
        return [(ob(method, clause), f"raises {type(e).__name__}", f"changed {what} {idx.tolist()}: {type(e).__name__}: {e}")]
    diff = compare(ref, got)
    if not diff:
        return []
    # classify the first differing row relative to the changed entities, so that different failure classes keep different signatures
    cn = g.cell_nodes().toarray().astype(bool)
    fn = g.face_nodes.toarray().astype(bool)
    touched = cn[:, idx].any(axis=1) if what == "cells" else fn[:, idx].any(axis=1)  # vertices of the changed cells / faces
    if str(diff[0]).split("/")[0] in CELL_ROW_KEYS and isinstance(diff[1], int):
        c = diff[1]
        where = "changed" if (what == "cells" and c in idx) else ("vertex-neighbour" if cn[touched, c].any() else "distant")
        rowkind = f"{where} cell row differs"
    elif isinstance(diff[1], int):
        f = diff[1] if method == "mpfa" else diff[1] // g.dim
        where = "vertex-neighbour" if fn[touched, f].any() else "distant"
        rowkind = f"{where} face row differs"
    else:
        rowkind = "matrix sets differ"
    return [(ob(method, clause), f"{rowkind} after changing {what}", f"{g.dim}d {spec['kind']}, changed {what} {idx.tolist()}: {_fmt(diff)}")]


def check_subproblems(pp, spec, n):
    from porepy.numerics.fv import _fvutils

    g = build_grid(pp, spec)
    try:
        with warnings.catch_warnings():
            warnings.simplefilter("ignore")
            subs = list(_fvutils.subproblems(g, 1, None, n))
    except Exception as e:
        return [(O_SUB, "raises", f"num_subproblems={n}: {type(e).__name__}: {e}")], 0
    bad = []
    cell_count = np.zeros(g.num_cells, dtype=int)
    face_count = np.zeros(g.num_faces, dtype=int)
    fn = g.face_nodes.toarray().astype(bool)
    cn = g.cell_nodes().toarray().astype(bool)
    for k, (sub, faces_act, cells_part, l2g_c, l2g_f) in enumerate(subs):
        faces_act, cells_part, l2g_c, l2g_f = (np.asarray(a) for a in (faces_act, cells_part, l2g_c, l2g_f))
        if faces_act.dtype == bool or cells_part.dtype == bool:
            bad.append(f"part {k}: boolean index arrays")
            break
        cell_count[cells_part] += 1
        face_count[faces_act] += 1
        if sub.num_cells != l2g_c.size or sub.num_faces != l2g_f.size:
            bad.append(f"part {k}: subgrid has {sub.num_cells} cells / {sub.num_faces} faces, maps have {l2g_c.size} / {l2g_f.size}")
            continue
        if not (np.isin(cells_part, l2g_c).all() and np.isin(faces_act, l2g_f).all()):
            bad.append(f"part {k}: partition cells / active faces not contained in the subgrid maps")
        if np.unique(l2g_c).size != l2g_c.size or np.unique(l2g_f).size != l2g_f.size:
            bad.append(f"part {k}: local-to-global maps not injective")
        if not (np.allclose(sub.cell_centers, g.cell_centers[:, l2g_c], atol=0, rtol=1e-14)
                and np.allclose(sub.face_centers, g.face_centers[:, l2g_f], atol=0, rtol=1e-14)
                and np.allclose(sub.face_normals, g.face_normals[:, l2g_f], atol=0, rtol=1e-14)):
            bad.append(f"part {k}: subgrid geometry differs from the parent at the mapped indices")
        if len(subs) > 1:
            # active faces are those with all vertices among the vertices of the partition's cells; overlap must contain every
            # cell that shares a vertex with an active face (its interaction regions are then complete)
            nodes_act = fn[:, faces_act].any(axis=1)
            need = np.flatnonzero(cn[nodes_act].any(axis=0))
            if not np.isin(need, l2g_c).all():
                bad.append(f"part {k}: cells {np.setdiff1d(need, l2g_c).tolist()} share a vertex with an active face but are not in the subgrid")
            part_nodes = cn[:, cells_part].any(axis=1)
            exp_faces = np.flatnonzero(fn[~part_nodes].sum(axis=0) == 0)
            if not np.array_equal(np.sort(faces_act), exp_faces):
                bad.append(f"part {k}: active faces {np.sort(faces_act).tolist()} != faces with all vertices in the partition {exp_faces.tolist()}")
    if not np.all(cell_count == 1):
        bad.append(f"cells not partitioned: multiplicities {cell_count.tolist()}")
    if not np.all(face_count >= 1):
        bad.append(f"faces never active: {np.flatnonzero(face_count == 0).tolist()}")
    return [(O_SUB, f"{g.dim}d {spec['kind']}", f"num_subproblems={n}: " + "; ".join(bad[:4]))] if bad else [], len(subs)


def check_zero_rows(pp, shape, nd, ind, seed):
    import scipy.sparse as sps
    from porepy.numerics.fv import _fvutils

    rs = np.random.RandomState(seed)
    nrow, ncol = shape
    mats_ = []
    for fmt_density in (0.5, 0.15):
        A = sps.random(nrow * nd, ncol, density=fmt_density, random_state=rs, format="csr")
        A.data = np.round(A.data + 0.1, 3)
        mats_.append(A)
    dense_before = [A.toarray() for A in mats_]
    try:
        ret = _fvutils.remove_nonlocal_contribution(np.asarray(ind, dtype=int), nd, *mats_)
    except Exception as e:
        return [(O_ZERO, "raises", f"ind={list(ind)} nd={nd}: {type(e).__name__}: {e}")]
    rows = np.unique(np.asarray([i * nd + a for i in ind for a in range(nd)], dtype=int))
    for A, B in zip(mats_, dense_before):
        exp = B.copy()
        if rows.size:
            exp[rows] = 0
        if A.shape != B.shape or not np.array_equal(A.toarray(), exp):
            cls = "empty" if len(ind) == 0 else ("duplicates" if len(set(ind)) < len(ind) else ("unsorted" if list(ind) != sorted(ind) else "sorted"))
            return [(O_ZERO, f"nd={nd} {cls} indices", f"ind={list(ind)} nd={nd}: result differs from dense row zeroing (returned {ret!r})")]
    return []


# ----------------------------------------------------------------------------- enumeration


def grid_specs(quick):
    out = [{"kind": "cart", "n": [4, 3], "phys": [4.0, 3.0], "pert_seed": None},
           {"kind": "tri", "n": [3, 2], "phys": [3.0, 2.0], "pert_seed": None},
           {"kind": "cart", "n": [3, 2, 2], "phys": [3.0, 2.0, 2.0], "pert_seed": None},
           {"kind": "tet", "n": [2, 2, 1], "phys": [2.0, 2.0, 1.0], "pert_seed": None}]
    if not quick:
        out += [{"kind": "cart", "n": [5, 4], "phys": [1.0, 1.0], "pert_seed": 11},
                {"kind": "tri", "n": [4, 3], "phys": [1.0, 1.0], "pert_seed": 12},
                {"kind": "cart", "n": [6, 2], "phys": [6.0, 1.0], "pert_seed": None},
                {"kind": "cart", "n": [4, 2, 2], "phys": [1.0, 1.0, 1.0], "pert_seed": None},
                {"kind": "tet", "n": [3, 2, 1], "phys": [1.0, 1.0, 1.0], "pert_seed": 13}]
    else:
        out[1] = dict(out[1], pert_seed=12)  # the triangle grid is node-perturbed in quick
        out += [  # large enough that the active subgrid of a corner-cell update is a proper subset of the grid; update relation only
                {"kind": "cart", "n": [5, 4], "phys": [5.0, 4.0], "pert_seed": None, "only": "update"}]
    # regular simplex grids on which 5-6 (2-D) / 4 (3-D) parts put some faces into three subproblems; split relation only
    out += [{"kind": "tri", "n": [4, 2], "phys": [4.0, 2.0], "pert_seed": None, "only": "split", "splits": (5, 6)},
            {"kind": "tet", "n": [2, 2, 1], "phys": [2.0, 2.0, 1.0], "pert_seed": None, "only": "split", "splits": (4,)},
            {"kind": "cart", "n": [5, 4, 3], "phys": [5.0, 4.0, 3.0], "pert_seed": None, "only": "nodes"},
            # 2-D grids tilted in 3-D (ambient_dimension = 3): every sub-grid must be mapped to the plane like the full grid; Mpfa only
            {"kind": "cart", "n": [6, 4], "phys": [6.0, 4.0], "pert_seed": None, "tilt": [0.7, [1.0, 0.3, 0.2]], "only": "split", "splits": (4, 6),
             "methods": ("mpfa",)},
            {"kind": "tri", "n": [5, 4], "phys": [5.0, 4.0], "pert_seed": None, "tilt": [0.7, [1.0, 0.3, 0.2]], "only": "split", "splits": (3,),
             "methods": ("mpfa",)}]
    return out


def _gname(spec):
    return f"{spec['kind']}{'x'.join(map(str, spec['n']))}{'p' if spec.get('pert_seed') is not None else ''}{'-tilted' if spec.get('tilt') else ''}"


def run(rep):
    import os

    os.environ.setdefault("NUMBA_NUM_THREADS", "4")
    import porepy as pp

    rep.under_contract("pp.Mpfa.discretize", "pp.Mpsa.discretize", "pp.Biot.discretize", "pp.Mpfa.update_discretization",
                       "pp.Mpsa.update_discretization", "pp.Biot.update_discretization", "_fvutils.subproblems",
                       "_fvutils.remove_nonlocal_contribution", "_fvutils.cell_ind_for_partial_update", "_fvutils.partial_update_discretization")
    rep.trust("incidence matrices face_nodes / cell_faces / cell_nodes of the grid (C21)",
              "the one-piece discretisation as the reference of the relational clauses (its own correctness is C11/C13/C15)")
    quick = rep.tier == "quick"
    rng = rep.rng

    def report(res, inputs):
        for obligation, sig, detail in res:
            rep.violation(obligation, sig, inputs=inputs, detail=detail, confirmed=True)

    specs = grid_specs(quick)
    with rep.sweep(
        "splitting / inverter / partial / update relations",
        rule="methods {Mpfa, Mpsa, Biot} x grids {Cartesian 2-D/3-D, structured triangle/tetrahedral, seeded node-perturbed} with seeded "
             "heterogeneous parameters and seeded per-face Dirichlet/Neumann typing x relations {num_subproblems 2,3,5; max_memory giving 2 "
             "or 3 parts; numba vs python; specified_cells / faces / nodes (seeded index sets, nodes = all vertices of 1-2 cells); "
             "update_discretization() and the update flag after a seeded change of material in cells / boundary type on faces}; distinct by "
             "(method, grid, relation, arguments); every case compares complete matrix sets and is non-trivial (parameters heterogeneous); the "
             "local inverter (irrelevant to the relations) is python for 3-D/Biot cases in quick and for every second case in thorough, numba "
             "otherwise; first update case of each grid changes the last (corner) cell deterministically",
        bound="grids <= 5x4 / 4x2x2 cells / 36 tetrahedra; " + ("2" if quick else "4") + " index set(s) per partial/update mode",
        exhaustive=False,
    ) as sw:
        for spec in specs:
            g = build_grid(pp, spec)
            if not grid_valid(g):
                sw.skip()
                continue
            nb = g.get_all_boundary_faces().size
            bf = g.get_all_boundary_faces()
            small3d = quick and g.dim == 3
            for method in spec.get("methods", METHODS):
                seed = rng.randrange(10 ** 6)
                layout = "".join(rng.choice("dn") for _ in range(nb))
                if "d" not in layout:
                    layout = "d" + layout[1:]
                base = {"method": method, "grid": spec, "seed": seed, "layout": layout}
                cases = []
                only = spec.get("only")
                # (simplex grids with >= 4-6 parts have faces that lie in THREE subproblems: the repetition count of a face is not just 1 or 2)
                for n in (spec["splits"] if spec.get("splits") else (() if only else ((2, 3, 4) if small3d else (2, 3, 5, 6)))):
                    cases.append(("split", {"part_args": {"num_subproblems": n}}))
                try:
                    if only:
                        raise AttributeError
                    d = make_discr(pp, method)
                    est = d._estimate_peak_memory(g) if method == "mpfa" else d._estimate_peak_memory_mpsa(g)
                    for parts in ((2,) if quick else (2, 3)):
                        cases.append(("split", {"part_args": {"max_memory": int(np.ceil(est / parts)) + 1}}))
                except AttributeError:
                    if not only:
                        rep.note("peak memory estimate not accessible: max_memory splits skipped")
                if not only:
                    cases.append(("inverter", {}))
                ntr = 0 if only == "split" else (2 if quick else 4)
                for trial in range(ntr):
                    cells = sorted(rng.sample(range(g.num_cells), rng.randrange(1, 3)))
                    faces = sorted(rng.sample(range(g.num_faces), rng.randrange(1, 3)))
                    cn = g.cell_nodes().toarray().astype(bool)
                    nodes = np.flatnonzero(cn[:, rng.sample(range(g.num_cells), rng.randrange(1, 3))].any(axis=1)).tolist()
                    if not only:
                        cases.append(("partial", {"mode": "cells", "idx": cells}))
                        cases.append(("partial", {"mode": "faces", "idx": faces}))
                        cases.append(("partial", {"mode": "nodes", "idx": nodes}))
                        # an arbitrary (non-box) node set: faces with some but not all of their nodes specified
                        cases.append(("partial", {"mode": "nodes", "idx": sorted(rng.sample(range(g.num_nodes), max(2, (2 * g.num_nodes) // 3)))}))
                    if only == "nodes":
                        # 3-D grid large enough that the region around the specified nodes is a proper part of the grid: node sets that
                        # leave quadrilateral faces with three of their four nodes specified (L-shaped cell group, sparse random set)
                        if method != "biot":
                            nx, ny = spec["n"][0], spec["n"][1]
                            lcells = [0, 1, nx] if trial == 0 else [nx * ny + 1, nx * ny + 2, nx * ny + 1 + nx]
                            cases.append(("partial", {"mode": "nodes", "idx": np.flatnonzero(cn[:, lcells].any(axis=1)).tolist()}))
                            cases.append(("partial", {"mode": "nodes", "idx": sorted(rng.sample(range(g.num_nodes), g.num_nodes // 3))}))
                        continue
                    # first trial: the last (corner) cell, deterministic; then seeded sets
                    ucells = [g.num_cells - 1] if trial == 0 else sorted(rng.sample(range(g.num_cells), rng.randrange(1, 3)))
                    ufaces = sorted(int(f) for f in rng.sample(list(bf), rng.randrange(1, 3)))
                    for via in ("method", "flag"):
                        cases.append(("update", {"what": "cells", "idx": ucells, "via": via}))
                        if (not small3d or via == "method") and not only:
                            cases.append(("update", {"what": "faces", "idx": ufaces, "via": via}))
                for ci, (kind, args) in enumerate(cases):
                    # the relations do not depend on the local inverter; the (4x faster on small grids) python inverter is used for
                    # the 3-D / Biot cases in quick and for every second case in thorough, the default (numba) otherwise
                    inverter = "python" if ((quick and (g.dim == 3 or method == "biot")) or (not quick and ci % 2 == 1)) else None
                    if kind != "inverter":
                        args = dict(args, inverter=inverter)
                    inputs = dict(base, relation=kind, **args)
                    key = (method, _gname(spec), kind, repr(sorted(args.items())))
                    if kind == "split":
                        res = check_split(pp, method, spec, seed, layout, args["part_args"], args["inverter"])
                    elif kind == "inverter":
                        res = check_inverter(pp, method, spec, seed, layout)
                    elif kind == "partial":
                        res = check_partial(pp, method, spec, seed, layout, args["mode"], args["idx"], args["inverter"])
                    else:
                        res = check_update(pp, method, spec, seed, layout, args["what"], args["idx"], args["via"], args["inverter"])
                    sw.case(key, nontrivial=True, sample={k: v for k, v in inputs.items() if k != "layout"})
                    report(res, inputs)

    with rep.sweep(
        "_fvutils.subproblems contract",
        rule="grids of the first sweep (+ 1x1 and single-row grids) x num_subproblems 1..6; distinct by (grid, n); non-trivial = more than one "
             "subproblem was produced",
        bound="n <= 6", exhaustive=True,
    ) as sw:
        extra = [{"kind": "cart", "n": [1, 1], "phys": [1.0, 1.0], "pert_seed": None}, {"kind": "cart", "n": [5, 1], "phys": [5.0, 1.0], "pert_seed": None},
                 {"kind": "tri", "n": [1, 1], "phys": [1.0, 1.0], "pert_seed": None}]
        for spec in specs + extra:
            g = build_grid(pp, spec)
            for n in range(1, 7):
                if n > g.num_cells:
                    sw.skip()  # requires: no more subproblems than cells
                    continue
                res, nsub = check_subproblems(pp, spec, n)
                sw.case((_gname(spec), n), nontrivial=nsub > 1, sample={"grid": spec, "num_subproblems": n, "yielded": nsub})
                report(res, {"relation": "subproblems", "grid": spec, "n": n})

    with rep.sweep(
        "_fvutils.remove_nonlocal_contribution contract",
        rule="seeded random CSR matrices (two per call, densities 0.5 / 0.15) with nd*rows rows, nd in {1,2,3}, index sets: empty, single "
             "(first / last row), all rows, sorted, unsorted, with duplicates; distinct by (shape, nd, index tuple); non-trivial = non-empty",
        bound="rows <= 7, cols <= 6", exhaustive=False,
    ) as sw:
        for nrow, ncol in ((1, 1), (4, 3), (7, 6)):
            for nd in (1, 2, 3):
                sets = [[], [0], [nrow - 1], list(range(nrow)), list(range(nrow))[::-1], [0, 0], [nrow - 1, 0, nrow - 1]]
                for _ in range(3 if quick else 12):
                    sets.append([rng.randrange(nrow) for _ in range(rng.randrange(1, nrow + 2))])
                for ind in sets:
                    seed = rng.randrange(10 ** 6)
                    sw.case((nrow, ncol, nd, tuple(ind)), nontrivial=len(ind) > 0, sample={"shape": [nrow, ncol], "nd": nd, "ind": ind})
                    report(check_zero_rows(pp, (nrow, ncol), nd, ind, seed),
                           {"relation": "zero_rows", "shape": [nrow, ncol], "nd": nd, "ind": ind, "seed": seed})


def replay(data):
    import porepy as pp

    i = data["inputs"]
    rel = i["relation"]
    if rel == "split":
        res = check_split(pp, i["method"], i["grid"], i["seed"], i["layout"], i["part_args"], i.get("inverter"))
    elif rel == "inverter":
        res = check_inverter(pp, i["method"], i["grid"], i["seed"], i["layout"])
    elif rel == "partial":
        res = check_partial(pp, i["method"], i["grid"], i["seed"], i["layout"], i["mode"], i["idx"], i.get("inverter"))
    elif rel == "update":
        res = check_update(pp, i["method"], i["grid"], i["seed"], i["layout"], i["what"], i["idx"], i["via"], i.get("inverter"))
    elif rel == "subproblems":
        res = check_subproblems(pp, i["grid"], i["n"])[0]
    else:
        res = check_zero_rows(pp, tuple(i["shape"]), i["nd"], i["ind"], i["seed"])
    for r in res:
        print("replay:", r)
    return bool(res)
