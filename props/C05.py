"""C05 — degree-of-freedom layout is a bijection under any variable history.

Tier Ps: the real EquationSystem on a real small md-grid (2-D host, 1-D fracture, interface) whose grids report *symbolic*
         numbers of cells / faces / nodes.  Histories of create_variables / remove_variables are enumerated (all of length
         <= 2, seeded ones of length 3-4); after every operation of every history, against an independent list model:
         num_dofs is the sum of the block sizes, dofs_of(v) is the contiguous range [offset_b, offset_b + size_b) with blocks
         ordered by subdomain order, interface order, creation order, and identify_dof(d) returns the owner of the block
         containing d (Skolem d).  All sizes symbolic (zero-size blocks included).
Tier B : seeded histories on real md-grids with concrete sizes: the same clauses by enumeration of every dof, projection_to
         selects exactly the variables' indices in sorted order, set/get (overwrite, additive, every storage location) round
         trips for random variable subsets and leaves other variables' values unchanged.
"""
from __future__ import annotations

META = {
    "level": "other",
    "engine": "pse",
    "technique": "contract-based verification, inductive over enumerated variable histories with symbolic block sizes (z3) on the real EquationSystem; native history sweep incl. projections and value round trips as bounded stand-in",
    "text": "Tier Ps (all block sizes symbolic, histories bounded): the dof layout after every create/remove history is the contiguous partition in "
            "(subdomain, interface, creation) order and identify_dof inverts it. Tier B: native histories with concrete sizes incl. projection_to and "
            "set/get round trips. History length and variable count are bounded, hence level 'other'.",
    "note": "grid stub: real grids with num_cells/num_faces/num_nodes replaced by symbolic integers >= 0; numpy cumsum/hstack on object arrays, models of np.arange, "
            "np.concatenate, np.argmax (first True); dict/list bookkeeping is the interpreter's",
}

import itertools
import warnings

import numpy as np
import z3

from engine import shims, sym
from engine.arrays import SymArray
from engine.harness import run_case
from engine.sym import SymBool, SymInt, iterm

DOFS = [{"cells": 1}, {"cells": 2, "faces": 1}, {"nodes": 1, "cells": 1}]


def _mk_mdg(pp):
    fr = [np.array([[0.5, 0.5], [0.0, 1.0]])]
    mdg = pp.meshing.cart_grid(fr, np.array([2, 2]), physdims=np.array([1.0, 1.0]))
    mdg.compute_geometry()
    return mdg


def _size_expr(grid, info, is_intf):
    s = grid.num_cells * info.get("cells", 0)
    if not is_intf:
        s = s + grid.num_faces * info.get("faces", 0) + grid.num_nodes * info.get("nodes", 0)
    return s


def _histories(rng, quick):
    names = ["a", "b"]
    gsets = [("sd", (0,)), ("sd", (1,)), ("sd", (0, 1)), ("sd", (1, 0)), ("intf", (0,))]
    creates = [("c", n, gs, d) for n in names for gs in gsets for d in range(len(DOFS)) if not (gs[0] == "intf" and d > 0)]
    removes = [("r", n, gs) for n in names for gs in gsets]
    ops = creates + removes
    out = [[o] for o in creates]
    out += [[a, b] for a in creates for b in ops]
    for _ in range(40 if quick else 400):
        L = rng.choice([3, 4])
        out.append([rng.choice(creates)] + [rng.choice(ops) for _ in range(L - 1)])
    return out


def _apply(pp, es, grids, model, op, counter):
    """apply op to the real system and to the list model; returns False if the op is not admissible in this state (skipped)"""
    kind, name, (gk, idx) = op[0], op[1], op[2]
    gl = [grids[gk][i] for i in idx]
    if kind == "c":
        if any(m["name"] == name and m["grid"] in gl for m in model):
            return False  # requires: not yet defined there
        info = DOFS[op[3]]
        es.create_variables(name, dof_info=dict(info), **({"subdomains": gl} if gk == "sd" else {"interfaces": gl}))
        for g in gl:
            counter[0] += 1
            model.append({"name": name, "grid": g, "info": info, "created": counter[0], "intf": gk == "intf"})
        return True
    present = [m for m in model if m["name"] == name and m["grid"] in gl]
    if len(present) != len(gl):
        return False
    vs = [v for v in es.variables if v.name == name and v.domain in gl]
    es.remove_variables(vs)
    for m in present:
        model.remove(m)
    return True


def _expected_blocks(model, order):
    return sorted(model, key=lambda m: (order[id(m["grid"])], m["created"]))


def case_history(pp, hist):
    from porepy.numerics.ad import equation_system as esmod

    def run(ctx):
        mdg = _mk_mdg(pp)
        sds, intfs = mdg.subdomains(), mdg.interfaces()
        for gi, g in enumerate(sds + intfs):
            for attr in ("num_cells", "num_faces", "num_nodes"):
                if hasattr(g, attr) and not (g in intfs and attr != "num_cells"):
                    v = ctx.int(f"{attr}_{gi}")
                    ctx.assume(v >= 0)
                    setattr(g, attr, v)
        grids = {"sd": sds, "intf": intfs}
        order = {id(g): k for k, g in enumerate(sds + intfs)}
        es = pp.ad.EquationSystem(mdg)
        model, counter = [], [0]
        nops = 0
        for step, op in enumerate(hist):
            if not _apply(pp, es, grids, model, op, counter):
                continue
            nops += 1
            tag = f"after op {step + 1}"
            blocks = _expected_blocks(model, order)
            sizes = [_size_expr(m["grid"], m["info"], m["intf"]) for m in blocks]
            total = sum(sizes, 0)
            ctx.prove(f"{tag}: num_dofs is the sum of the block sizes", SymBool(iterm(es.num_dofs()) == iterm(total)))
            ctx.prove(f"{tag}: exactly the created and not removed variables are registered", len(es.variables) == len(blocks))
            off = 0
            for b, (m, sz) in enumerate(zip(blocks, sizes)):
                var = [v for v in es.variables if v.name == m["name"] and v.domain is m["grid"]]
                if len(var) != 1:
                    ctx.prove(f"{tag}: block {b}: variable registered once", False)
                    continue
                d = es.dofs_of(var)
                i = ctx.int(f"i_{step}_{b}")
                ctx.assume((i >= 0) & (i < sz))
                ctx.prove(f"{tag}: block {b}: dofs_of has the block size", SymBool(iterm(d.n if isinstance(d, SymArray) else len(d)) == iterm(sz)))
                if isinstance(d, SymArray):
                    ctx.prove(f"{tag}: block {b}: dofs_of is the contiguous range starting at the sum of the preceding blocks "
                              "(subdomain, interface, creation order)", SymBool(d.elem(i) == iterm(off) + i.t))
                    got = es.identify_dof(off + i)
                    ctx.prove(f"{tag}: block {b}: identify_dof of an index inside the block returns its variable", got is var[0])
                off = off + sz
            if model:
                # the blocks partition 0..num_dofs-1: every index below num_dofs lies in exactly one block (offsets are cumulative)
                ctx.prove(f"{tag}: the last block ends at num_dofs", SymBool(iterm(off) == iterm(es.num_dofs())))
        if nops == 0:
            return "empty"
        return "ok"

    return run


# ----------------------------------------------------------------------------- tier B


def _native_histories(rep, pp):
    rng = rep.rng
    quick = rep.tier == "quick"
    with rep.sweep("native variable histories",
                   rule="md-grids: 2x2 Cartesian with 0, 1, 2 fractures (0-d intersection point included); seeded histories of 2-7 create/remove operations with "
                        "random names (3), grid subsets in random order, dof types over cells/faces/nodes with multiplicity 0-2 (zero-size blocks on 0-d grids); after "
                        "every operation: partition into contiguous blocks in (subdomain, interface, creation) order, identify_dof for every index, projection_to "
                        "for random variable subsets, set/get round trip (overwrite + additive) at iterate and time-step storage; nontrivial = >= 2 variables "
                        "registered; distinct by history", bound="60 (quick) / 600 (thorough) histories", exhaustive=False) as sw:
        for it in range(60 if quick else 600):
            nf = rng.choice([0, 1, 2])
            if nf == 0:
                g = pp.CartGrid([2, 2])
                g.compute_geometry()
                mdg = pp.MixedDimensionalGrid()
                mdg.add_subdomains(g)
            else:
                fr = [np.array([[0.5, 0.5], [0.0, 1.0]]), np.array([[0.0, 1.0], [0.5, 0.5]])][:nf]
                mdg = pp.meshing.cart_grid(fr, np.array([2, 2]), physdims=np.array([1.0, 1.0]))
                mdg.compute_geometry()
            sds, intfs = mdg.subdomains(), mdg.interfaces()
            order = {id(g): k for k, g in enumerate(sds + intfs)}
            es = pp.ad.EquationSystem(mdg)
            model, counter, hist = [], 0, []
            for step in range(rng.randint(2, 7)):
                name = rng.choice(["a", "b", "c"])
                on_intf = bool(intfs) and rng.random() < 0.3
                pool = intfs if on_intf else sds
                gl = rng.sample(pool, rng.randint(1, len(pool)))
                if rng.random() < 0.7 or not model:
                    gl = [g for g in gl if not any(m["name"] == name and m["grid"] is g for m in model)]
                    if not gl:
                        continue
                    info = {"cells": rng.choice([0, 1, 2])} if on_intf else {k: rng.choice([1, 2]) for k in rng.sample(["cells", "faces", "nodes"], rng.randint(1, 3))}
                    if on_intf and info["cells"] == 0:
                        info["cells"] = 1
                    hist.append(("create", name, [order[id(g)] for g in gl], info))
                    try:
                        es.create_variables(name, dof_info=dict(info), **({"interfaces": gl} if on_intf else {"subdomains": gl}))
                    except Exception as e:  # noqa
                        rep.violation("create_variables: accepts a new (name, grid) combination", f"raises {type(e).__name__}", inputs={"history": hist}, detail=str(e)[:200])
                        break
                    for g in gl:
                        counter += 1
                        model.append({"name": name, "grid": g, "info": info, "created": counter, "intf": on_intf})
                else:
                    m0 = rng.choice(model)
                    rem = [m for m in model if m["name"] == m0["name"] and (m is m0 or rng.random() < 0.5)]
                    hist.append(("remove", m0["name"], [order[id(m["grid"])] for m in rem]))
                    vs = [v for v in es.variables if any(v.name == m["name"] and v.domain is m["grid"] for m in rem)]
                    try:
                        es.remove_variables(vs)
                    except Exception as e:  # noqa
                        rep.violation("remove_variables: accepts registered variables", f"raises {type(e).__name__}", inputs={"history": hist}, detail=str(e)[:200])
                        break
                    for m in rem:
                        model.remove(m)
                bad = _check_native(pp, es, model, order, rng)
                sw.case(tuple(map(str, hist)), nontrivial=len(model) >= 2, sample={"fractures": nf, "history": [list(map(str, h)) for h in hist]})
                if bad:
                    rep.violation("layout: " + bad[0], bad[2], inputs={"fractures": nf, "history": [list(map(str, h)) for h in hist]}, detail=bad[1])
                    break


def _check_native(pp, es, model, order, rng):
    blocks = _expected_blocks(model, order)
    sizes = [int(_size_expr(m["grid"], m["info"], m["intf"])) for m in blocks]
    N = sum(sizes)
    try:
        if es.num_dofs() != N:
            return ("num_dofs is the sum of the block sizes", f"{es.num_dofs()} vs {N}", "num_dofs")
        if len(es.variables) != len(blocks):
            return ("exactly the present variables are registered", f"{len(es.variables)} vs {len(blocks)}", "registry")
        off = 0
        owner = {}
        for m, sz in zip(blocks, sizes):
            var = [v for v in es.variables if v.name == m["name"] and v.domain is m["grid"]]
            if len(var) != 1:
                return ("each present variable is registered once", str(m["name"]), "registry")
            d = es.dofs_of(var)
            if not np.array_equal(d, np.arange(off, off + sz)):
                return ("index sets are contiguous blocks ordered by subdomain order, interface order, creation order", f"{m['name']}: {d.tolist()} expected {off}..{off + sz - 1}", "block order")
            for k in range(off, off + sz):
                owner[k] = var[0]
            off += sz
        for k in range(N):
            if es.identify_dof(k) is not owner[k]:
                return ("identify_dof returns the variable whose block contains the index", f"index {k}", "identify_dof")
        for bad_k in (-1, N):
            try:
                es.identify_dof(bad_k)
                return ("identify_dof rejects indices outside 0..num_dofs-1", f"index {bad_k} accepted", "identify_dof range")
            except KeyError:
                pass
        if not blocks:
            return None
        # projections and value round trips for a random subset
        sub = rng.sample(es.variables, rng.randint(1, len(es.variables)))
        idx = np.sort(np.concatenate([es.dofs_of([v]) for v in sub])) if sub else np.array([], dtype=int)
        P = es.projection_to(sub)
        E = np.zeros((idx.size, N))
        E[np.arange(idx.size), idx] = 1
        if P.shape != E.shape or not np.array_equal(P.toarray(), E):
            return ("projection_to selects exactly the variables' indices (sorted)", f"subset of {len(sub)}", "projection_to")
        for kw in ({"iterate_index": 0}, {"time_step_index": 0}, {"iterate_index": 1}):
            base = np.arange(N, dtype=float) + 1
            es.set_variable_values(base.copy(), additive=False, **kw)
            # values of a subset are given and returned in *global* order, whatever the order of the variable list
            ordered = list(sub)
            rng.shuffle(ordered)
            gidx = np.sort(np.concatenate([es.dofs_of([v]) for v in ordered])) if ordered else np.array([], dtype=int)
            x = np.array([rng.uniform(1, 2) for _ in range(gidx.size)])
            es.set_variable_values(x.copy(), ordered, additive=False, **kw)
            got = es.get_variable_values(ordered, **kw)
            if not np.array_equal(got, x):
                return ("setting then getting values for a subset of variables returns the written values", f"{kw}", "set/get")
            full = es.get_variable_values(**kw)
            exp = base.copy()
            exp[gidx] = x
            if not np.array_equal(full, exp):
                return ("writing a subset leaves the other variables' values unchanged", f"{kw}", "frame")
            es.set_variable_values(x.copy(), ordered, additive=True, **kw)
            if not np.allclose(es.get_variable_values(ordered, **kw), 2 * x, rtol=1e-15):
                return ("additive writes add to the stored values", f"{kw}", "additive")
    except Exception as e:  # noqa
        return ("queries on a consistent system do not raise", f"{type(e).__name__}: {str(e)[:150]}", f"raises {type(e).__name__}")
    return None


def replay(data):
    return False


def run(rep):
    import porepy as pp
    from porepy.numerics.ad import equation_system as esmod
    from porepy.numerics.ad import operators as opmod

    rep.under_contract("EquationSystem.create_variables", "EquationSystem.remove_variables", "EquationSystem._append_dofs", "EquationSystem._cluster_dofs_gridwise",
                       "EquationSystem.num_dofs", "EquationSystem.dofs_of", "EquationSystem.identify_dof", "EquationSystem.projection_to (tier B)",
                       "EquationSystem.set_variable_values / get_variable_values (tier B)")
    rep.assume("requires: a variable name is created at most once per grid; removed variables are registered",
               "grid sizes are arbitrary non-negative integers (a real grid reports positive cell counts; zero included for zero-size blocks)")
    hists = _histories(rep.rng, rep.tier == "quick")
    refuted = []
    with shims.shadow_builtins([esmod, opmod]), shims.numpy_shims(), warnings.catch_warnings():
        warnings.simplefilter("ignore")
        seen = 0
        for h, hist in enumerate(hists):
            rf, lim = run_case(rep, f"history {h}: " + " ; ".join(f"{o[0]}{o[1]}{o[2][0]}{list(o[2][1])}" + (f"d{o[3]}" if o[0] == "c" else "") for o in hist),
                               case_history(pp, hist), tier="Ps", min_returns=1)
            refuted += rf
            seen += 1
    rep.extra["histories_symbolic"] = seen
    rep.trust(*sorted(shims.USED_MODELS))
    for name, ctx, r in refuted:
        rep.violation(name.split(":")[0] + ":" + name.split(":")[-1], "symbolic history", inputs=None, detail=f"{name} | z3 counter-model: {r['model']}"[:1500], confirmed=False,
                      solver_output=str(r["model"]))
    _native_histories(rep, pp)
