"""C22 -- subgrid extraction and partitioning preserve the parent grid.

Tier B (run-time contract sweeps on the real functions of porepy.grids.partition).  Expected values are dense numpy
on the parent's incidence (CF = cell_faces.toarray(), FN = face_nodes) -- never a second call of the function.

extract_subgrid(g, c) -> (h, face_map, node_map)            [sweep "extract cells": ALL non-empty subsets for <= 8 cells]
  * h.dim = g.dim, h.num_cells = |c|, h.parent_cell_ind = sort(c)
  * face_map = exactly the faces of the chosen cells (no duplicates); h.cell_faces = CF[face_map][:, sort(c)] entry by entry
  * node_map = exactly the nodes of those faces; every local face has the node set of its parent face; h.nodes = g.nodes[:, node_map]
  * geometry copied from the parent is bit-identical on the mapped cells / faces
  * geometry RECOMPUTED on the subgrid (h.copy().compute_geometry()) equals the parent's on the mapped cells and faces
    (volumes, centres, areas, face centres, normals incl. sign; tolerance 1e-10 relative)
  * boolean-mask input gives the same result as the index input
extract_subgrid(g, f, faces=True)                              [sweep "extract faces"]
  * lower-dimensional grid whose cells are the chosen faces: volumes = face areas, centres = face centres, node map = nodes
    of the faces, cell-node sets = the parent faces' node sets, recomputed volumes / centres agree
partition_structured / partition_coordinates / partition      [sweep "partitioners"]
  * one id per cell (vector of length num_cells), integer valued, non-negative; for ``coarse_dims`` the ids lie in
    [0, prod(coarse_dims)); for ``num_part`` in [0, num_cells) (the achieved part count may differ from the target by design)
  * requested counts 1 .. num_cells, all coarse_dims tuples with 1 <= coarse_i <= fine_i
overlap(g, S, L, criterion)                                    [sweep "overlap"]
  * R_0 = S; R_L subset of R_{L+1}; R_{L+1} contains all face-neighbours of R_L; and (docstring) R_{L+1} adds only cells that
    share a face / a node (by criterion) with R_L; output sorted, unique
grid_is_connected(g, S)                                        [sweep "connectivity"]
  * flag <=> the face-adjacency graph induced on S is connected (BFS on dense incidence); the returned components are
    positions into S (as in porepy's tests) and coincide with the BFS components

Candidate defects found on the unchanged tree (kept strict; see final report): partition_structured raises UnboundLocalError
on 1-D grids; partition_structured(coarse_dims) returns ids >= prod(coarse_dims) when fine/coarse leaves more than one
surplus increment (fine 5, coarse 3); overlap raises AxisError whenever the result is a single cell.

Detection power (scratch copy of /repo/src, POREPY_SRC, one mutant at a time; baseline = the three known defects; every mutant
added new VIOLATION lines, exit 1):
  * extract_subgrid: ``h.face_centers = g.face_centers[:, unique_faces]`` -> ``[:, :unique_faces.size]``  -> "geometry copied from the parent ..."
  * extract_subgrid: ``c = np.sort(np.atleast_1d(c))`` -> no sort                     -> "dimension, cell count and parent_cell_ind", incidence, geometry
  * _extract_submatrix: ``data = sub_mat.data`` -> ``np.abs(sub_mat.data)`` (signs lost) -> "subgrid incidence = parent incidence ...", recomputed geometry
  * overlap (face criterion): ``range(num_layers)`` -> ``range(num_layers - 1)``          -> "contains all face-neighbours of the previous layer"
  * overlap (node criterion): ``(cn.T * active_nodes) > 0`` -> ``> 1``                     -> "contains all face-neighbours of the previous layer"
  * grid_is_connected: column slice ``[:, cell_ind]`` -> ``[:, cell_ind - cell_ind.min()]``  -> both grid_is_connected obligations
  * partition_structured: surplus-increment test ``size > coarse`` -> ``size > coarse + 1`` -> "part ids within range" (signature coarse_dims)
  * partition_structured: ``yi * coarse_dims[0]`` -> ``yi * coarse_dims[1]``                -> "part ids within range" (num_part and coarse_dims)
  * partition_coordinates: box loop ``range(nc)`` -> ``range(nc - 1)``                      -> "partition_coordinates: returns a partition vector"
"""
from __future__ import annotations

import itertools
import warnings

import numpy as np

META = {
    "level": "exploration",
    "engine": "sweep",
    "technique": "run-time contract sweep (bounded stand-in for deduction): extract_subgrid, partitioners, overlap and grid_is_connected "
                 "checked against dense-incidence definitions; exhaustive over all cell subsets of grids with <= 8 cells",
    "text": "Bounded assurance only. extract_subgrid: all non-empty cell subsets of every enumerated grid with <= 8 cells (1-D/2-D/3-D, "
            "Cartesian, tensor, simplex, perturbed, embedded, fracture-split), seeded subsets above; parent maps, incidence, copied and "
            "recomputed geometry. Partitioners: validity only (one non-negative integer id per cell, range known only for coarse_dims); the "
            "quality/target count of partition_coordinates and the connectivity option are not specified by the statement and not checked; "
            "partition_metis is not covered (pymetis not installed).",
    "note": "expected values from the dense incidence of the parent; recomputed-geometry comparison uses the real compute_geometry on the "
            "extracted grid (that is the clause); tolerance 1e-10 relative for recomputed values, exact equality for copied values and index maps",
}

RTOL = 1e-10


# ----------------------------------------------------------------------------- helpers


def _dense(g):
    CF = np.asarray(g.cell_faces.toarray()).astype(int)
    ptr, ind = g.face_nodes.indptr, g.face_nodes.indices
    fnodes = [ind[ptr[f]:ptr[f + 1]] for f in range(g.num_faces)]
    return CF, fnodes


def _neighbours(A, S, criterion, FN=None):
    """cells sharing a face (or a node) with a cell in the boolean cell mask S (S itself included)"""
    if criterion == "face":
        faces = A[:, S].any(axis=1)
        return A[faces, :].any(axis=0) | S
    cn = (FN.astype(int) @ A.astype(int)) > 0  # nodes x cells
    nodes = cn[:, S].any(axis=1)
    return cn[nodes, :].any(axis=0) | S


def _components(A, cells):
    """connected components (face adjacency) of the subgraph induced on ``cells`` (list)"""
    cells = list(cells)
    adj = (A.T.astype(int) @ A.astype(int)) > 0
    seen, comps = set(), []
    for c in cells:
        if c in seen:
            continue
        comp, stack = {c}, [c]
        while stack:
            a = stack.pop()
            for b in cells:
                if b not in comp and adj[a, b]:
                    comp.add(b)
                    stack.append(b)
        seen |= comp
        comps.append(comp)
    return comps


def _all_subsets(n):
    for r in range(1, n + 1):
        for s in itertools.combinations(range(n), r):
            yield list(s)


def _subsets_for(n, rng, quick, cap_exhaustive=8, nrand=None):
    if n <= cap_exhaustive:
        yield from _all_subsets(n)
        return
    nrand = nrand if nrand is not None else (12 if quick else 80)
    seen = {(0,), (n - 1,), tuple(range(n))}
    yield [0]
    yield [n - 1]
    yield list(range(n))
    while len(seen) < nrand + 3:
        k = rng.randint(1, n - 1)
        s = tuple(sorted(rng.sample(range(n), k)))
        if s not in seen:
            seen.add(s)
            yield list(s)


# ----------------------------------------------------------------------------- grid sources (geometry computed)


def _geo_grids(pp, C19, rng, quick):
    """yield (desc, grid with geometry).  desc is JSON-able and sufficient for _rebuild."""
    fams = []
    for n in (1, 2, 3, 8):
        fams.append(("cart", {"n": [n]}))
    fams.append(("tensor", {"x": [[0.0, 0.25, 1.0, 3.0, 3.5]]}))
    for n in ([1, 1], [2, 1], [1, 3], [2, 2], [3, 2], [4, 2], [3, 3]):
        fams.append(("cart", {"n": n}))
    fams.append(("cart", {"n": [2, 3], "phys": [1.0, 0.75]}))
    fams.append(("tensor", {"x": [[0.0, 0.5, 2.0], [0.0, 1.0, 1.5, 4.0]]}))
    for n in ([1, 1], [2, 1], [1, 2], [2, 2], [3, 1], [3, 3]):
        fams.append(("stri", {"n": n, "phys": [float(n[0]), float(n[1])]}))
    for n in ([1, 1, 1], [2, 1, 1], [2, 2, 1], [2, 2, 2], [3, 2, 1], [3, 2, 2]):
        fams.append(("cart", {"n": n}))
    fams.append(("tensor", {"x": [[0.0, 0.5, 2.0], [0.0, 1.0], [1.0, 2.0, 2.5]]}))
    fams.append(("stet", {"n": [1, 1, 1], "phys": [1.0, 1.0, 1.0]}))
    fams.append(("stet", {"n": [2, 1, 1], "phys": [2.0, 1.0, 1.0]}))
    for family, args in fams:
        g = C19.build(pp, family, args)
        dim = g.dim
        base = np.array(g.nodes, dtype=float)
        variants = [("plain", base)]
        lo, hi = base.min(axis=1), base.max(axis=1)
        inter = C19._interior_nodes(base, dim, lo, hi)
        if inter.size and (family != "cart" or dim < 3 or not quick):
            dd = np.linalg.norm(base[:, :, None] - base[:, None, :], axis=0)
            h = float(np.min(dd[dd > 0]))
            pert = base.copy()
            for i in inter:
                for k in range(dim):
                    pert[k, i] += 0.25 * h * rng.uniform(-1, 1) / np.sqrt(dim)
            if not (dim == 3 and family in ("cart", "tensor")):  # keep faces planar
                variants.append(("perturb", pert))
        for op, nodes in variants:
            embs = [("id", np.eye(3), np.zeros(3))]
            if dim < 3 and op == "plain" and g.num_cells <= 6:
                embs.append(("rot", C19.rodrigues([1.0, 2.0, -0.5], 0.9), np.array([0.3, -1.0, 2.0])))
            for tag, R, t in embs:
                gg = C19.build(pp, family, args)
                gg.nodes = R @ nodes + t[:, None]
                with warnings.catch_warnings():
                    warnings.simplefilter("ignore")
                    gg.compute_geometry()
                yield {"family": family, "args": args, "op": op, "emb": tag, "nodes": gg.nodes.tolist()}, gg
    # fracture-split top-dimensional grids
    for nm, fr, nx in (("through-h", [[[0.0, 2.0], [1.0, 1.0]]], [2, 2]), ("X", [[[0.0, 2.0], [1.0, 1.0]], [[1.0, 1.0], [0.0, 2.0]]], [2, 2]),
                       ("immersed", [[[1.0, 2.0], [1.0, 1.0]]], [3, 2]),
                       ("through-x-3d", [[[1.0, 1.0, 1.0, 1.0], [0.0, 2.0, 2.0, 0.0], [0.0, 0.0, 2.0, 2.0]]], [2, 2, 2])):
        with warnings.catch_warnings():
            warnings.simplefilter("ignore")
            mdg = pp.meshing.cart_grid([np.array(f) for f in fr], np.array(nx))
        sd = mdg.subdomains(dim=len(nx))[0]
        yield {"family": "fractured", "cfg": nm, "fracs": fr, "nx": nx}, sd


def _rebuild(pp, C19, desc):
    if desc["family"] == "fractured":
        with warnings.catch_warnings():
            warnings.simplefilter("ignore")
            mdg = pp.meshing.cart_grid([np.array(f) for f in desc["fracs"]], np.array(desc["nx"]))
        return mdg.subdomains(dim=len(desc["nx"]))[0]
    g = C19.build(pp, desc["family"], desc["args"])
    g.nodes = np.array(desc["nodes"], dtype=float)
    with warnings.catch_warnings():
        warnings.simplefilter("ignore")
        g.compute_geometry()
    return g


# ----------------------------------------------------------------------------- contracts


GEO = ("cell_volumes", "cell_centers", "face_areas", "face_centers", "face_normals")


def check_extract(pp, g, CF, fnodes, c_in, as_mask=False):
    """-> list of (obligation, detail)"""
    bad = []
    c_sorted = np.unique(np.asarray(c_in, dtype=int))
    arg = np.asarray(c_in, dtype=int)
    if as_mask:
        arg = np.zeros(g.num_cells, dtype=bool)
        arg[c_sorted] = True
    try:
        with warnings.catch_warnings():
            warnings.simplefilter("ignore")
            h, fmap, nmap = pp.partition.extract_subgrid(g, arg)
    except Exception as e:
        return [("extract_subgrid: returns for a non-empty cell set", f"{type(e).__name__}: {e}")]
    fmap, nmap = np.asarray(fmap), np.asarray(nmap)
    A = CF != 0
    exp_faces = np.where(A[:, c_sorted].any(axis=1))[0]
    if h.dim != g.dim or h.num_cells != c_sorted.size or not np.array_equal(np.asarray(h.parent_cell_ind), c_sorted):
        bad.append(("extract_subgrid: dimension, cell count and parent_cell_ind", f"dim {h.dim} cells {h.num_cells} parent {np.asarray(h.parent_cell_ind).tolist()}"))
    if fmap.shape != (h.num_faces,) or np.unique(fmap).size != fmap.size or not np.array_equal(np.sort(fmap), exp_faces):
        bad.append(("extract_subgrid: face_map = exactly the faces of the chosen cells", f"got {fmap.tolist()} expected {exp_faces.tolist()}"[:500]))
        return bad
    CFh = np.asarray(h.cell_faces.toarray()).astype(int)
    if CFh.shape != (fmap.size, c_sorted.size) or not np.array_equal(CFh, CF[fmap][:, c_sorted]):
        bad.append(("extract_subgrid: subgrid incidence = parent incidence on (face_map, cells)", "cell_faces mismatch"))
    exp_nodes = np.unique(np.concatenate([fnodes[f] for f in exp_faces])) if exp_faces.size else np.zeros(0, dtype=int)
    if nmap.shape != (h.num_nodes,) or np.unique(nmap).size != nmap.size or not np.array_equal(np.sort(nmap), exp_nodes):
        bad.append(("extract_subgrid: node_map = exactly the nodes of the extracted faces", f"got {nmap.tolist()} expected {exp_nodes.tolist()}"[:500]))
        return bad
    ptr, ind = h.face_nodes.indptr, h.face_nodes.indices
    for j in range(h.num_faces):
        if set(nmap[ind[ptr[j]:ptr[j + 1]]].tolist()) != set(int(v) for v in fnodes[fmap[j]]):
            bad.append(("extract_subgrid: each local face has the nodes of its parent face", f"local face {j} -> parent {fmap[j]}"))
            break
    if not np.array_equal(np.asarray(h.nodes), np.asarray(g.nodes)[:, nmap]):
        bad.append(("extract_subgrid: h.nodes = parent nodes[:, node_map]", "coordinates differ"))
    # copied geometry: bit-identical
    sel = {"cell_volumes": lambda a: a[c_sorted], "cell_centers": lambda a: a[:, c_sorted], "face_areas": lambda a: a[fmap],
           "face_centers": lambda a: a[:, fmap], "face_normals": lambda a: a[:, fmap]}
    for nm in GEO:
        if not hasattr(h, nm) or not np.array_equal(np.asarray(getattr(h, nm)), sel[nm](np.asarray(getattr(g, nm)))):
            bad.append(("extract_subgrid: geometry copied from the parent on mapped cells/faces", nm))
            break
    # recomputed geometry
    try:
        h2 = h.copy()
        with warnings.catch_warnings():
            warnings.simplefilter("ignore")
            h2.compute_geometry()
    except Exception as e:
        bad.append(("extract_subgrid: geometry can be recomputed on the subgrid", f"{type(e).__name__}: {e}"))
        return bad
    L = float(np.max(np.linalg.norm(g.nodes - g.nodes[:, [0]], axis=0))) or 1.0
    M = float(np.max(np.abs(g.nodes)))
    tol = RTOL * (1 + M / L)
    for nm in GEO:
        a, b = sel[nm](np.asarray(getattr(g, nm), dtype=float)), np.asarray(getattr(h2, nm), dtype=float)
        if nm in ("cell_volumes", "face_areas"):
            sc = np.maximum(np.abs(a), 1e-300)
        elif nm == "face_normals":
            sc = np.maximum(sel["face_areas"](np.asarray(g.face_areas, dtype=float)), 1e-300)[None, :]
        else:
            sc = L
        if a.shape != b.shape or np.any(np.abs(a - b) > tol * sc):
            bad.append(("extract_subgrid: recomputed geometry equals the parent's on mapped cells/faces", f"{nm}: max diff {np.max(np.abs(a - b)) if a.shape == b.shape else 'shape'}"))
    return bad


def check_extract_faces(pp, g, CF, fnodes, f_in):
    bad = []
    f = np.unique(np.asarray(f_in, dtype=int))
    try:
        with warnings.catch_warnings():
            warnings.simplefilter("ignore")
            h, fret, nmap = pp.partition.extract_subgrid(g, np.asarray(f_in, dtype=int), faces=True)
    except Exception as e:
        return [("extract_subgrid(faces=True): returns for a planar face set", f"{type(e).__name__}: {e}")]
    nmap = np.asarray(nmap)
    if h.dim != g.dim - 1 or h.num_cells != f.size or not np.array_equal(np.asarray(fret), f):
        bad.append(("extract_subgrid(faces=True): one lower-dimensional cell per chosen face", f"dim {h.dim} cells {h.num_cells}"))
        return bad
    exp_nodes = np.unique(np.concatenate([fnodes[k] for k in f]))
    coords = np.asarray(h.nodes) if h.dim > 0 else np.asarray(h.cell_centers)  # a point grid stores its point as the cell centre
    if not np.array_equal(np.sort(nmap), exp_nodes) or not np.array_equal(coords, np.asarray(g.nodes)[:, nmap]):
        bad.append(("extract_subgrid(faces=True): node_map = nodes of the chosen faces, coordinates preserved", f"got {nmap.tolist()} expected {exp_nodes.tolist()}"[:400]))
        return bad
    if not np.array_equal(np.asarray(h.cell_volumes), np.asarray(g.face_areas)[f]) or not np.array_equal(np.asarray(h.cell_centers), np.asarray(g.face_centers)[:, f]):
        bad.append(("extract_subgrid(faces=True): cell volumes / centres are the parent's face areas / centres", "mismatch"))
    if h.dim > 0:
        CN = (np.asarray(h.face_nodes.toarray()) != 0).astype(int) @ (np.asarray(h.cell_faces.toarray()) != 0).astype(int) > 0
        for i in range(h.num_cells):
            if set(nmap[np.where(CN[:, i])[0]].tolist()) != set(int(v) for v in fnodes[f[i]]):
                bad.append(("extract_subgrid(faces=True): cell i is spanned by the nodes of parent face f[i]", f"cell {i}"))
                break
        h2 = h.copy()
        with warnings.catch_warnings():
            warnings.simplefilter("ignore")
            h2.compute_geometry()
        L = float(np.max(np.linalg.norm(g.nodes - g.nodes[:, [0]], axis=0))) or 1.0
        if np.any(np.abs(h2.cell_volumes - np.asarray(g.face_areas)[f]) > RTOL * np.asarray(g.face_areas)[f]) or \
                np.any(np.abs(h2.cell_centers - np.asarray(g.face_centers)[:, f]) > RTOL * L):
            bad.append(("extract_subgrid(faces=True): recomputed volumes / centres equal the parent's face areas / centres", "mismatch"))
    return bad


def check_partition_vector(p, num_cells, upper, what):
    p = np.asarray(p)
    if p.shape != (num_cells,):
        return [(f"{what}: one part id per cell", f"shape {p.shape} for {num_cells} cells")]
    if not np.all(np.isfinite(p.astype(float))) or not np.all(p == np.round(p)):
        return [(f"{what}: part ids are integers", f"{p.tolist()}"[:300])]
    if np.any(p < 0) or (upper is not None and np.any(p >= upper)):
        return [(f"{what}: part ids within range", f"ids {sorted(set(p.astype(int).tolist()))} allowed [0,{upper})"[:300])]
    return []


# ----------------------------------------------------------------------------- sweeps


def _sweep_extract(rep, pp, C19, quick):
    rng = rep.rng
    with rep.sweep(
        "extract cells",
        rule="grids (1-D/2-D/3-D Cart, Tensor, StructuredTriangle, StructuredTetrahedral, perturbed, rigidly embedded, fracture-split) x ALL "
             "non-empty cell subsets when the grid has <= 8 cells, else first/last/all + seeded subsets; indices passed shuffled (unsorted) "
             "for every other subset and as a boolean mask for every fifth; non-trivial = proper subset; distinct by (grid, subset, input form)",
        bound="<= 8 cells exhaustive (255 subsets); larger grids (9-18 cells) 15 (quick) / 83 (thorough) subsets",
        exhaustive=True,
    ) as sw:
        for desc, g in _geo_grids(pp, C19, rng, quick):
            CF, fnodes = _dense(g)
            gkey = repr({k: v for k, v in desc.items() if k != "nodes"})[:200]
            for i, sub in enumerate(_subsets_for(g.num_cells, rng, quick)):
                form = "mask" if i % 5 == 4 else ("shuffled" if i % 2 == 1 else "sorted")
                c_in = list(sub)
                if form == "shuffled":
                    rng.shuffle(c_in)
                bad = check_extract(pp, g, CF, fnodes, c_in, as_mask=form == "mask")
                sw.case((gkey, tuple(sub), form), nontrivial=len(sub) < g.num_cells,
                        sample={"grid": {k: v for k, v in desc.items() if k != "nodes"}, "cells": c_in, "form": form})
                for ob, detail in bad:
                    cls = f"{g.dim}-d {desc['family']}" + (" " + desc.get("op", "") if desc.get("op", "plain") != "plain" else "") + (" embedded" if desc.get("emb", "id") != "id" else "")
                    rep.violation(ob, cls, inputs={"kind": "cells", "grid": desc, "cells": c_in, "mask": form == "mask"}, detail=detail, confirmed=True)


def _face_sets(g, rng, quick):
    """planar / collinear face sets: all faces on one grid line / plane x_k = const whose normal is along e_k, and single faces"""
    out = []
    fc, fn = np.asarray(g.face_centers), np.asarray(g.face_normals)
    for k in range(g.dim):
        along = np.abs(fn[k]) > 0.999 * np.linalg.norm(fn, axis=0)
        for v in np.unique(np.round(fc[k, along], 9)):
            fs = np.where(along & (np.abs(fc[k] - v) < 1e-9))[0]
            if fs.size:
                out.append(fs.tolist())
    for f in sorted({0, g.num_faces - 1, g.num_faces // 2}):
        out.append([f])
    return out


def _sweep_extract_faces(rep, pp, C19, quick):
    rng = rep.rng
    with rep.sweep(
        "extract faces",
        rule="unperturbed Cart / StructuredTriangle / StructuredTetrahedral grids in natural position x face sets {all faces on one grid "
             "line/plane x_k = const with axis-aligned normal, three single faces}; 1-D grids: single faces; distinct by (grid, face set)",
        bound="grids of the extract-cells sweep with <= 12 cells",
        exhaustive=False,
    ) as sw:
        for desc, g in _geo_grids(pp, C19, rng, quick):
            if desc.get("op") != "plain" or desc.get("emb") != "id" or desc["family"] == "fractured" or g.num_cells > 12:
                continue
            CF, fnodes = _dense(g)
            for fs in _face_sets(g, rng, quick):
                if g.dim == 1 and len(fs) != 1:
                    sw.skip()  # requires: a 0-d grid is a single point
                    continue
                bad = check_extract_faces(pp, g, CF, fnodes, fs)
                gkey = repr({k: v for k, v in desc.items() if k != "nodes"})[:200]
                sw.case((gkey, tuple(fs)), nontrivial=True, sample={"grid": {k: v for k, v in desc.items() if k != "nodes"}, "faces": fs})
                for ob, detail in bad:
                    rep.violation(ob, f"{g.dim}-d {desc['family']}", inputs={"kind": "faces", "grid": desc, "faces": fs}, detail=detail, confirmed=True)


def _structured_dims(quick):
    d1 = [[n] for n in (1, 2, 3, 4, 5)]
    d2 = [[a, b] for a in (1, 2, 3, 4) for b in (1, 2, 3, 4)] + [[5, 1], [5, 2], [7, 2], [6, 4]]
    d3 = [[a, b, c] for a in (1, 2, 3) for b in (1, 2, 3) for c in (1, 2, 3)] + [[5, 2, 1], [4, 3, 2]]
    if quick:
        d2 = [d for d in d2 if d[0] * d[1] <= 12 or d in ([7, 2], [4, 4])]
        d3 = [d for d in d3 if np.prod(d) <= 8 or d in ([3, 3, 3], [5, 2, 1])]
    return d1 + d2 + d3


def _sweep_partitioners(rep, pp, C19, quick):
    rng = rep.rng
    with rep.sweep(
        "partitioners",
        rule="partition_structured on CartGrid/TensorGrid (1-D 1..5 cells; 2-D 1..4 per direction plus 5x1,5x2,7x2,6x4; 3-D 1..3 per direction "
             "plus 5x2x1,4x3x2) x {num_part = 1..num_cells (<= 40), every coarse_dims with 1 <= coarse_i <= fine_i}; partition_coordinates "
             "and the partition() wrapper on the C19 geometric family (plain / perturbed / affine / embedded) x num_coarse = 1..min(num_cells, 8); "
             "non-trivial = more than one part requested; distinct by (function, grid, request)",
        bound="see rule",
        exhaustive=False,
    ) as sw:
        for dims in _structured_dims(quick):
            for ctor in ("cart", "tensor"):
                if ctor == "tensor" and (quick and sum(dims) % 2 == 0):
                    continue
                if ctor == "cart":
                    g = pp.CartGrid(np.array(dims))
                else:
                    g = pp.TensorGrid(*[np.cumsum([0.0] + [0.5 + 0.25 * ((i + k) % 3) for i in range(n)]) for k, n in enumerate(dims)])
                nc = g.num_cells
                reqs = [("num_part", n) for n in range(1, min(nc, 40) + 1)]
                reqs += [("coarse_dims", list(cd)) for cd in itertools.product(*[range(1, n + 1) for n in dims])]
                for kind, val in reqs:
                    try:
                        with warnings.catch_warnings():
                            warnings.simplefilter("ignore")
                            if kind == "num_part":
                                p = pp.partition.partition_structured(g, num_part=val)
                                upper = nc
                            else:
                                p = pp.partition.partition_structured(g, coarse_dims=np.array(val))
                                upper = int(np.prod(val))
                        bad = check_partition_vector(p, nc, upper, "partition_structured")
                    except Exception as e:
                        bad = [("partition_structured: returns a partition vector", f"{type(e).__name__}: {e}")]
                    sw.case(("structured", ctor, tuple(dims), kind, repr(val)), nontrivial=(val != 1 and val != [1] * len(dims)),
                            sample={"function": "partition_structured", "grid": ctor, "dims": dims, kind: val})
                    for ob, detail in bad:
                        if "returns" in ob:
                            sig = f"{len(dims)}-d grid"
                        elif kind == "coarse_dims":
                            sig = "coarse_dims with fine > coarse*floor(fine/coarse) + 1" if any(
                                int(np.ceil(f / max(1, f // c))) > c + 1 for f, c in zip(dims, val)) else "coarse_dims"
                        else:
                            sig = "num_part"
                        rep.violation(ob, sig, inputs={"kind": "structured", "ctor": ctor, "dims": dims, "request": kind, "value": val}, detail=detail, confirmed=True)
        seen = set()
        for case in C19._cases(pp, rng, True):
            if "error" in case or case["op"] not in ("plain", "perturb0", "affine0"):
                continue
            if case["dim"] == 3 and len(case["nodes"][0]) > 36:
                continue
            ck = (case["family"], repr(case["args"])[:200], case["op"], case["emb"])
            if ck in seen:
                continue
            seen.add(ck)
            g = C19.build(pp, case["family"], case["args"])
            g.nodes = np.array(case["R"]) @ np.array(case["nodes"]) + np.array(case["t"])[:, None]
            with warnings.catch_warnings():
                warnings.simplefilter("ignore")
                g.compute_geometry()
            for fnname in ("partition_coordinates", "partition"):
                if fnname == "partition" and (quick and case["op"] != "plain"):
                    continue
                for nco in range(1, min(g.num_cells, 8) + 1):
                    try:
                        with warnings.catch_warnings():
                            warnings.simplefilter("ignore")
                            p = getattr(pp.partition, fnname)(g, nco)
                        bad = check_partition_vector(p, g.num_cells, None, fnname)
                    except Exception as e:
                        bad = [(f"{fnname}: returns a partition vector", f"{type(e).__name__}: {e}")]
                    sw.case((fnname,) + ck + (nco,), nontrivial=nco > 1,
                            sample={"function": fnname, "family": case["family"], "op": case["op"], "emb": case["emb"], "num_coarse": nco})
                    for ob, detail in bad:
                        sig = f"{case['dim']}-d {case['family']}" + (" embedded" if case["emb"] != "id" else "")
                        if fnname == "partition" and case["dim"] == 1 and "returns" in ob:
                            sig = "1-d TensorGrid (wrapper delegates to partition_structured)"
                        rep.violation(ob, sig,
                                      inputs={"kind": fnname, "case": C19._json_case(case), "num_coarse": nco}, detail=detail, confirmed=True)


def check_overlap(pp, g, A, FN, S, nlayers, criterion):
    """-> (violations, chain)"""
    bad = []
    nc = g.num_cells
    mask = np.zeros(nc, dtype=bool)
    mask[S] = True
    prev = mask
    cf0, fn0 = g.cell_faces.copy(), g.face_nodes.copy()
    for L in range(0, nlayers + 1):
        try:
            with warnings.catch_warnings():
                warnings.simplefilter("ignore")
                r = pp.partition.overlap(g, np.array(S, dtype=int), L, criterion=criterion)
            # frame: a query on the parent grid leaves the parent (its signed incidence and face-node relation) untouched -- a later
            # extract_subgrid on the same grid depends on it
            if (g.cell_faces != cf0).nnz or (g.face_nodes != fn0).nnz:
                bad.append(("overlap: leaves the parent grid unchanged", f"layers={L}: cell_faces / face_nodes of the parent were modified", criterion))
                g.cell_faces, g.face_nodes = cf0.copy(), fn0.copy()
        except Exception as e:
            bad.append(("overlap: returns the extended cell set", f"layers={L}: {type(e).__name__}: {e}", "single-cell result" if int(_expected_overlap(A, FN, mask, L, criterion).sum()) == 1 else "other"))
            prev = _expected_overlap(A, FN, mask, L, criterion)
            continue
        r = np.atleast_1d(np.asarray(r))
        if r.ndim != 1 or np.any(np.diff(r) <= 0) or (r.size and (r.min() < 0 or r.max() >= nc)):
            bad.append(("overlap: returns sorted unique cell indices", f"layers={L}: {r.tolist()}", "format"))
            continue
        cur = np.zeros(nc, dtype=bool)
        cur[r] = True
        if L == 0:
            if not np.array_equal(cur, mask):
                bad.append(("overlap: zero layers return the initial set", f"{r.tolist()}", "layers=0"))
        else:
            if np.any(prev & ~cur):
                bad.append(("overlap: layers only grow the cell set", f"layers={L}: lost {np.where(prev & ~cur)[0].tolist()}", criterion))
            need = _neighbours(A, prev, "face")
            if np.any(need & ~cur):
                bad.append(("overlap: contains all face-neighbours of the previous layer", f"layers={L}: missing {np.where(need & ~cur)[0].tolist()}", criterion))
            allowed = _neighbours(A, prev, criterion, FN)
            if np.any(cur & ~allowed):
                bad.append(("overlap: adds only cells adjacent (by criterion) to the previous layer", f"layers={L}: extra {np.where(cur & ~allowed)[0].tolist()}", criterion))
        prev = cur
    return bad


def _expected_overlap(A, FN, mask, L, criterion):
    cur = mask
    for _ in range(L):
        cur = _neighbours(A, cur, criterion, FN)
    return cur


def _topo_grids(pp, quick):
    out = []
    for n in (1, 2, 3, 5, 8):
        out.append((f"cart[{n}]", pp.CartGrid(np.array([n]))))
    for n in ([1, 1], [2, 1], [2, 2], [3, 2], [4, 2], [3, 3], [5, 5]):
        out.append((f"cart{n}", pp.CartGrid(np.array(n))))
    for n in ([1, 1], [2, 1], [2, 2], [3, 2]):
        out.append((f"stri{n}", pp.StructuredTriangleGrid(np.array(n))))
    for n in ([1, 1, 1], [2, 2, 1], [2, 2, 2], [3, 2, 2], [3, 3, 3]):
        out.append((f"cart{n}", pp.CartGrid(np.array(n))))
    out.append(("stet[1, 1, 1]", pp.StructuredTetrahedralGrid(np.array([1, 1, 1]))))
    with warnings.catch_warnings():
        warnings.simplefilter("ignore")
        mdg = pp.meshing.cart_grid([np.array([[0.0, 2.0], [1.0, 1.0]]), np.array([[1.0, 1.0], [0.0, 2.0]])], np.array([2, 2]))
    out.append(("fractured-X[2, 2]", mdg.subdomains(dim=2)[0]))
    with warnings.catch_warnings():
        warnings.simplefilter("ignore")
        mdg = pp.meshing.cart_grid([np.array([[1.0, 2.0], [1.0, 1.0]])], np.array([3, 2]))
    out.append(("fractured-immersed[3, 2]", mdg.subdomains(dim=2)[0]))
    return out


def _sweep_overlap_connectivity(rep, pp, quick):
    rng = rep.rng
    grids = _topo_grids(pp, quick)
    with rep.sweep(
        "overlap",
        rule="grids (1-D 1..8 cells, 2-D Cart up to 5x5, StructuredTriangle, 3-D Cart up to 3x3x3, tetrahedra, two fracture-split grids) x ALL "
             "non-empty start sets for grids with <= 8 cells (6 in quick), seeded start sets above x criterion {node, face} x layers 0..3 "
             "(each prefix of the chain is one real call); non-trivial = start set is a proper subset; distinct by (grid, start set, criterion)",
        bound="exhaustive start sets for <= 8 cells (thorough) / <= 6 cells (quick); 12 / 80 seeded start sets otherwise; layers <= 3",
        exhaustive=not quick,
    ) as sw:
        for name, g in grids:
            CF, _ = _dense(g)
            A = CF != 0
            FN = np.asarray(g.face_nodes.toarray()) != 0
            for S in _subsets_for(g.num_cells, rng, quick, cap_exhaustive=6 if quick else 8):
                for crit in ("node", "face"):
                    bad = check_overlap(pp, g, A, FN, S, 3, crit)
                    sw.case((name, tuple(S), crit), nontrivial=len(S) < g.num_cells, sample={"grid": name, "cells": S, "criterion": crit, "layers": "0..3"})
                    for ob, detail, sig in bad:
                        rep.violation(ob, sig, inputs={"kind": "overlap", "grid": name, "cells": S, "criterion": crit}, detail=detail, confirmed=True)
    with rep.sweep(
        "connectivity",
        rule="same grids x ALL non-empty cell sets for <= 8 cells, seeded above (cells passed in shuffled order for every other set), plus "
             "cell_ind=None; expected = BFS components of the face-adjacency graph; non-trivial = proper subset; distinct by (grid, set)",
        bound="exhaustive for <= 8 cells; 12 (quick) / 80 (thorough) seeded sets otherwise",
        exhaustive=True,
    ) as sw:
        for name, g in grids:
            CF, _ = _dense(g)
            A = CF != 0
            sets = [None] + list(_subsets_for(g.num_cells, rng, quick))
            for i, S in enumerate(sets):
                cells = list(range(g.num_cells)) if S is None else list(S)
                if S is not None and i % 2 == 1:
                    rng.shuffle(cells)
                exp = _components(A, cells)
                try:
                    with warnings.catch_warnings():
                        warnings.simplefilter("ignore")
                        flag, comps = pp.partition.grid_is_connected(g, None if S is None else np.array(cells, dtype=int))
                    bad = []
                    if bool(flag) != (len(exp) == 1):
                        bad.append(("grid_is_connected: flag iff the induced face-adjacency graph is connected", f"flag {flag}, true components {len(exp)}"))
                    got = sorted(sorted(cells[int(k)] for k in np.asarray(c).ravel()) for c in comps)
                    if got != sorted(sorted(c) for c in exp):
                        bad.append(("grid_is_connected: components (positions into cell_ind) are the connected components", f"got {got} expected {sorted(sorted(c) for c in exp)}"[:500]))
                except Exception as e:
                    bad = [("grid_is_connected: returns for a non-empty cell set", f"{type(e).__name__}: {e}")]
                sw.case((name, None if S is None else tuple(cells)), nontrivial=S is not None and len(cells) < g.num_cells,
                        sample={"grid": name, "cells": "None" if S is None else cells})
                for ob, detail in bad:
                    rep.violation(ob, "single cell" if len(cells) == 1 else ("disconnected set" if len(exp) > 1 else "connected set"),
                                  inputs={"kind": "connected", "grid": name, "cells": None if S is None else cells}, detail=detail, confirmed=True)


def run(rep):
    import porepy as pp
    from props import C19

    rep.under_contract("partition.extract_subgrid", "partition._extract_submatrix", "partition._extract_cells_from_faces", "partition.partition_structured",
                       "partition.partition_coordinates", "partition.partition", "partition.determine_coarse_dimensions", "partition.overlap",
                       "partition.grid_is_connected")
    rep.assume("requires (extract): non-empty set of valid cell indices without duplicates; parent has its geometry computed; planar faces",
               "requires (partitioners): requested count in 1..num_cells, coarse_dims_i in 1..fine_dims_i; partition_coordinates needs computed geometry",
               "the number of parts actually produced for a requested num_part / num_coarse is not specified (porepy's own tests allow 16 for 17, 20 for 19); "
               "only the coarse_dims form has a checkable upper bound",
               "grid_is_connected returns components as positions into cell_ind (porepy's tests index cell_ind with them)")
    quick = rep.tier == "quick"
    _sweep_extract(rep, pp, C19, quick)
    _sweep_extract_faces(rep, pp, C19, quick)
    _sweep_partitioners(rep, pp, C19, quick)
    _sweep_overlap_connectivity(rep, pp, quick)


def replay(data):
    import porepy as pp
    from props import C19

    inp = data["inputs"]
    ob = data["obligation"]
    kind = inp["kind"]
    if kind in ("cells", "faces"):
        g = _rebuild(pp, C19, inp["grid"])
        CF, fnodes = _dense(g)
        bad = check_extract(pp, g, CF, fnodes, inp["cells"], inp.get("mask", False)) if kind == "cells" else check_extract_faces(pp, g, CF, fnodes, inp["faces"])
        print("replay:", bad)
        return any(o == ob for o, _ in bad)
    if kind == "structured":
        dims = inp["dims"]
        g = pp.CartGrid(np.array(dims)) if inp["ctor"] == "cart" else pp.TensorGrid(
            *[np.cumsum([0.0] + [0.5 + 0.25 * ((i + k) % 3) for i in range(n)]) for k, n in enumerate(dims)])
        try:
            if inp["request"] == "num_part":
                p, upper = pp.partition.partition_structured(g, num_part=inp["value"]), g.num_cells
            else:
                p, upper = pp.partition.partition_structured(g, coarse_dims=np.array(inp["value"])), int(np.prod(inp["value"]))
            bad = check_partition_vector(p, g.num_cells, upper, "partition_structured")
        except Exception as e:
            bad = [("partition_structured: returns a partition vector", f"{type(e).__name__}: {e}")]
        print("replay:", bad)
        return any(o == ob for o, _ in bad)
    if kind in ("partition_coordinates", "partition"):
        case = inp["case"]
        g = C19.build(pp, case["family"], case["args"])
        g.nodes = np.array(case["R"]) @ np.array(case["nodes"]) + np.array(case["t"])[:, None]
        g.compute_geometry()
        try:
            bad = check_partition_vector(getattr(pp.partition, kind)(g, inp["num_coarse"]), g.num_cells, None, kind)
        except Exception as e:
            bad = [(f"{kind}: returns a partition vector", f"{type(e).__name__}: {e}")]
        print("replay:", bad)
        return any(o == ob for o, _ in bad)
    grids = dict(_topo_grids(pp, True))
    g = grids[inp["grid"]]
    CF, _ = _dense(g)
    A = CF != 0
    if kind == "overlap":
        bad = check_overlap(pp, g, A, np.asarray(g.face_nodes.toarray()) != 0, inp["cells"], 3, inp["criterion"])
        print("replay:", bad)
        return any(o == ob for o, _, _ in bad)
    if kind == "connected":
        cells = list(range(g.num_cells)) if inp["cells"] is None else inp["cells"]
        exp = _components(A, cells)
        try:
            flag, comps = pp.partition.grid_is_connected(g, None if inp["cells"] is None else np.array(cells, dtype=int))
        except Exception as e:
            print("replay:", e)
            return "returns" in ob
        got = sorted(sorted(cells[int(k)] for k in np.asarray(c).ravel()) for c in comps)
        print("replay:", flag, got, exp)
        return bool(flag) != (len(exp) == 1) or got != sorted(sorted(c) for c in exp)
    return False
