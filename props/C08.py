"""C08 — stored time-step and iterate histories behave as sliding windows.

Abstract view of one storage location: slot map M : index -> array with contiguous keys 0..s-1.

Tier P : the real pp.shift_solution_values / set_solution_values / get_solution_values run on a symbolic slot map
         (symbolic number of slots s, symbolic depth d or None, symbolic array length and contents).  The descending
         loop of shift_solution_values is a cut-point (engine/cutpoint.py rewrites that one loop of the real source on
         every run) with the invariant "slots above the loop index already hold their lower neighbour's old content,
         the others are untouched, no slot aliases another".  Postconditions over the whole view at Skolem (k, j).
         Aliasing is decided by object identity of the proxies (a stored object must be a fresh copy).
         Window lemma (z3, over the two contracts): under shift-then-set, M[i] is the value current i shifts ago.
Tier B : exhaustive histories of set(overwrite/additive)/shift/get with depths 1..4 through the data-dictionary
         helpers and through the EquationSystem wrappers, against a Python list model; aliasing probed by mutating
         every array handed in or out.
"""
from __future__ import annotations

META = {
    "level": "other",
    "engine": "pse",
    "technique": "contract-based deductive verification: postconditions over the whole slot map with a cut-point loop invariant for the real shift loop, discharged by z3 for symbolic slot count / depth / contents; window property as a lemma over the contracts; exhaustive history sweep as bounded stand-in",
    "text": "Tier P: shift moves every slot below the depth up by one (all other slots and slot 0 unchanged, stored objects are fresh copies), "
            "overwrite stores a copy at the index leaving all other slots unchanged, additive adds in place or raises ValueError exactly when the "
            "slot is empty, get returns a fresh copy -- for every number of slots, depth and contents; the sliding-window statement follows as a "
            "z3 lemma over these contracts by induction on the history. Tier B: all histories of length <= 4 (quick) / 6 (thorough) over both helper families "
            "against a list model, incl. aliasing probes. Mixed tiers -> level 'other'.",
    "note": "requires: slot keys contiguous 0..s-1 and writes at index <= s (the protocol of update_solution / after_nonlinear_iteration); all arrays of "
            "a location have one length; a view obtained from a slot is assumed not to outlive a rebinding of that slot; dict/len/in modelled by the slot-map proxy",
}

import itertools

import numpy as np
import z3

from engine import cutpoint, shims, sym
from engine.arrays import SymArray, I0
from engine.harness import run_case
from engine.sym import EngineLimit, SymBool, SymInt, SymReal, concrete, iterm

J = z3.Int("__j")


class SlotView(SymArray):
    """the array object stored in slot `key` of a SymSlots map (reads see the slot's current content;
    in-place operations write through, as numpy does)"""

    def __init__(self, parent, key):
        self.parent, self.slot = parent, key
        kt = iterm(key)
        super().__init__(parent.n, lambda j: parent.C(kt, j), "real")
        self._dyn = True

    def _ibin(self, o, name):
        kt = iterm(self.slot)
        old = self.parent.C
        base = SymArray(self.n, lambda j: old(kt, j), "real")  # content before the in-place operation
        new = SymArray._bin(base, o, name)
        f = new._elem
        self.parent.C = lambda k, j: z3.If(k == kt, f(j), old(k, j))
        self.parent.inplace_events.append(self.slot)
        return self

    def copy(self, *a, **k):
        f = self._elem
        snap = self.parent.C
        kt = iterm(self.slot)
        return SymArray(self.n, lambda j: snap(kt, j), "real")


class SymSlots:
    """dict {0..size-1 -> array} with symbolic size"""

    def __init__(self, ctx, tag, n):
        self.ctx, self.tag, self.n = ctx, tag, n
        self.size = ctx.int(tag + "_size")
        ctx.assume(self.size >= 0)
        f = z3.Function(ctx.fresh_name(tag + "_content"), z3.IntSort(), z3.IntSort(), z3.RealSort())
        self.C = lambda k, j: f(k, j)
        self.alias_events = []  # (key written, description) when a stored object is not a fresh copy
        self.inplace_events = []
        self.stored_objects = []

    def havoc(self, ctx):
        f = z3.Function(ctx.fresh_name(self.tag + "_havoc"), z3.IntSort(), z3.IntSort(), z3.RealSort())
        self.C = lambda k, j: f(k, j)
        self.size = ctx.int(self.tag + "_hsize")

    def _sym_len(self):
        return self.size

    def __contains__(self, k):
        return bool((k >= 0) & (k < self.size))

    def __getitem__(self, k):
        if not bool((k >= 0) & (k < self.size)):
            raise KeyError(k)
        return SlotView(self, k)

    def __setitem__(self, k, v):
        if isinstance(v, SlotView) and v.parent is self:
            same = concrete(SymBool(iterm(v.slot) == iterm(k)))
            if same is True:
                return  # M[k] += x : rebinding the same object
            self.alias_events.append((k, f"slot {z3.simplify(iterm(k))} was bound to the object stored in slot {z3.simplify(iterm(v.slot))} (no copy)"))
        if not isinstance(v, SymArray):
            raise EngineLimit(f"slot assignment of {type(v)}")
        ok = (k >= 0) & (k <= self.size)
        self.ctx.prove("requires of the slot map: write index within 0..size (keys stay contiguous)", ok)
        kt = iterm(k)
        vf = v._elem
        old = self.C
        self.C = lambda kk, j: z3.If(kk == kt, vf(j), old(kk, j))
        self.size = SymInt(z3.If(kt == iterm(self.size), iterm(self.size) + 1, iterm(self.size)))
        self.stored_objects.append(v)


def _mk_data(ctx, pp, loc):
    n = ctx.int("n")
    ctx.assume(n >= 1)
    M = SymSlots(ctx, "M", n)
    return {loc: {"u": M}}, M, n


def _skolem(ctx, M, n, extra=0):
    k, j = ctx.int("k"), ctx.int("jj")
    ctx.assume((j >= 0) & (j < n))
    ctx.assume(k >= 0)
    return k, j


class ShiftHooks:
    """invariant of `for i in range_: M[i] = M[i-1].copy()` (descending from a to 1)"""

    def __init__(self, M, C0, s0):
        self.M, self.C0, self.s0 = M, C0, s0

    def havoc(self, ctx):
        self.M.havoc(ctx)

    def inv(self, ctx, i, r):
        M, C0, s0 = self.M, self.C0, self.s0
        a = iterm(r.start)
        it = iterm(i)
        k = z3.Int("__ik")
        cur = M.C(k, J)
        pats = [cur] if (z3.is_app(cur) and cur.decl().kind() == z3.Z3_OP_UNINTERPRETED) else []
        moved = z3.ForAll([k, J], z3.Implies(z3.And(k > it, k <= a), cur == C0(k - 1, J)), patterns=pats)
        kept = z3.ForAll([k, J], z3.Implies(z3.Or(k <= it, k > a), cur == C0(k, J)), patterns=pats)
        size = iterm(M.size) == z3.If(z3.And(it < a, a == iterm(s0)), iterm(s0) + 1, iterm(s0))
        noalias = len(M.alias_events) == 0
        return [("slots k in (i, a] hold the old content of slot k-1", SymBool(moved)),
                ("slots k <= i and k > a are untouched", SymBool(kept)),
                ("number of slots is s, or s+1 once slot s has been written", SymBool(size)),
                ("every stored object so far is a fresh copy", noalias)]


def case_shift(pp, depth_kind, loc_name):
    from porepy.numerics.ad import ad_utils

    def run(ctx):
        loc = getattr(pp, loc_name)
        data, M, n = _mk_data(ctx, pp, loc)
        s0 = M.size
        C0 = M.C
        if depth_kind == "none":
            d = None
        else:
            d = ctx.int("d")
            ctx.assume(d >= 0)
        hooks = ShiftHooks(M, C0, s0)
        newf, desc, tok = cutpoint.rewrite_loop(ad_utils.shift_solution_values, 0, hooks, "shift_solution_values loop")
        ctx.trace.append(("cutpoint", desc))
        try:
            newf("u", data, loc, d)
        finally:
            cutpoint.restore(tok)
        # ---- postcondition over the whole view
        k, j = _skolem(ctx, M, n)
        st, kt, jt = iterm(s0), k.t, j.t
        if d is None:
            a = st
        else:
            a = z3.If(d.t > st, st, d.t - 1)
        ctx.prove("post: slots 1..a hold the old content of their lower neighbour (a = s if depth is None or > s, else depth-1)",
                  SymBool(z3.Implies(z3.And(kt >= 1, kt <= a), M.C(kt, jt) == C0(kt - 1, jt))))
        ctx.prove("post: slot 0 keeps its value", SymBool(M.C(z3.IntVal(0), jt) == C0(z3.IntVal(0), jt)))
        # NOTE: the statement speaks about indices *below the depth* only; what happens to slots at or beyond the depth
        # (kept, dropped, or one extra slot) is deliberately not constrained here.
        ctx.prove("post: the window grows by one slot while it is not yet full (slot s exists afterwards if s < depth)",
                  SymBool(iterm(M.size) >= z3.If(z3.And(a == st, st >= 1), st + 1, st)))
        ctx.prove("post: every stored object is a fresh copy (no two slots share an array)", len(M.alias_events) == 0)
        ctx.prove("CANARY shift: slot 1 unchanged", SymBool(z3.Implies(z3.And(a >= 1), M.C(z3.IntVal(1), jt) == C0(z3.IntVal(1), jt))), expect_refuted=True)
        return "ok"

    return run


def case_shift_guards(pp):
    def run(ctx):
        data = {}
        pp.shift_solution_values("u", data, pp.TIME_STEP_SOLUTIONS, 2)
        ctx.prove("shift on a missing location / name is a no-op", data == {})
        data = {pp.ITERATE_SOLUTIONS: {}}
        pp.shift_solution_values("u", data, pp.ITERATE_SOLUTIONS, 2)
        ctx.prove("shift on a missing name is a no-op", data == {pp.ITERATE_SOLUTIONS: {}})
        for bad, exc in ((("u", {}, "nowhere", 1), ValueError),):
            try:
                pp.shift_solution_values(*bad)
                ctx.prove("unknown location raises ValueError", False)
            except exc:
                ctx.prove("unknown location raises ValueError", True)
        n = ctx.int("n")
        ctx.assume(n >= 1)
        M = SymSlots(ctx, "M", n)
        d = ctx.int("d")
        ctx.assume(d < 0)
        try:
            pp.shift_solution_values("u", {pp.TIME_STEP_SOLUTIONS: {"u": M}}, pp.TIME_STEP_SOLUTIONS, d)
            ctx.prove("negative depth raises ValueError", False)
        except ValueError:
            ctx.prove("negative depth raises ValueError", True)
        return "ok"

    return run


def case_set(pp, additive, loc_name):
    def run(ctx):
        loc = getattr(pp, loc_name)
        data, M, n = _mk_data(ctx, pp, loc)
        s0, C0 = M.size, M.C
        idx = ctx.int("idx")
        ctx.assume(idx >= 0)
        ctx.assume(idx <= s0)
        v = SymArray.fresh("v", n, "real")
        ve = v._elem
        kw = {"time_step_index": idx} if loc_name == "TIME_STEP_SOLUTIONS" else {"iterate_index": idx}
        k, j = _skolem(ctx, M, n)
        present = (idx < s0)
        try:
            pp.set_solution_values("u", v, data, additive=additive, **kw)
        except ValueError:
            ctx.prove("ValueError only for an additive write to an empty slot", SymBool(z3.And(z3.BoolVal(additive), z3.Not(sym._bterm(present)))))
            ctx.prove("a rejected write leaves the view unchanged", SymBool(z3.And(M.C(k.t, j.t) == C0(k.t, j.t), iterm(M.size) == iterm(s0))))
            return "raised"
        if additive:
            ctx.prove("additive write is accepted only on a filled slot", present)
            ctx.prove("additive: slot idx holds old + values", SymBool(M.C(idx.t, j.t) == C0(idx.t, j.t) + v.elem(j)))
        else:
            ctx.prove("overwrite: slot idx holds the written values", SymBool(M.C(idx.t, j.t) == v.elem(j)))
            ctx.prove("overwrite: the stored object is a copy, not the caller's array", all(o is not v for o in M.stored_objects) and len(M.stored_objects) == 1)
        ctx.prove("no other slot's content changes", SymBool(z3.Implies(k.t != idx.t, M.C(k.t, j.t) == C0(k.t, j.t))))
        ctx.prove("number of slots: s+1 iff the write created slot s", SymBool(iterm(M.size) == z3.If(idx.t == iterm(s0), iterm(s0) + 1, iterm(s0))))
        ctx.prove("frame: the caller's array is unchanged", v._elem is ve)
        ctx.prove("no aliasing introduced", len(M.alias_events) == 0)
        if not additive:
            ctx.prove("CANARY set: other slots get the value too", SymBool(M.C(k.t, j.t) == v.elem(j)), expect_refuted=True)
        return "ok"

    return run


def case_get(pp, loc_name):
    def run(ctx):
        loc = getattr(pp, loc_name)
        data, M, n = _mk_data(ctx, pp, loc)
        s0, C0 = M.size, M.C
        idx = ctx.int("idx")
        ctx.assume(idx >= 0)
        kw = {"time_step_index": idx} if loc_name == "TIME_STEP_SOLUTIONS" else {"iterate_index": idx}
        j = ctx.int("jj")
        ctx.assume((j >= 0) & (j < n))
        try:
            r = pp.get_solution_values("u", data, **kw)
        except KeyError:
            ctx.prove("KeyError only for an empty slot", idx >= s0)
            return "raised"
        ctx.prove("get: slot was filled", idx < s0)
        ctx.prove("get: returns the stored values", SymBool(r.elem(j) == C0(idx.t, j.t)))
        ctx.prove("get: returns a fresh copy, not the stored object", not isinstance(r, SlotView))
        # a later additive write must not alter the copy handed out
        w = SymArray.fresh("w", n, "real")
        pp.set_solution_values("u", w, data, additive=True, **kw)
        ctx.prove("get: the returned copy is not altered by a later write", SymBool(r.elem(j) == C0(idx.t, j.t)))
        ctx.prove("get: view unchanged by reading", len(M.alias_events) == 0)
        return "ok"

    return run


def wrapper_contract(rep, pp):
    """Modular check of the two EquationSystem wrappers against the contract of shift_solution_values (proved above): the callee is
    replaced by a recording stub; the wrapper must call it exactly once per atomic variable selected by `variables` (all variables
    for None), on that variable's own data dictionary, with the wrapper's own storage location and the caller's max_index."""
    import itertools as it

    g1, g2 = pp.CartGrid([2, 1]), pp.CartGrid([1, 1])
    for g in (g1, g2):
        g.compute_geometry()
    mdg = pp.MixedDimensionalGrid()
    mdg.add_subdomains([g1, g2])
    es = pp.ad.EquationSystem(mdg)
    u = es.create_variables("u", subdomains=[g1, g2])
    w = es.create_variables("w", subdomains=[g1])
    atoms = {v: (v.name, id(mdg.subdomain_data(v.domain))) for v in es.variables}
    selections = {"None (all variables)": (None, list(es.variables)), "[md-variable u]": ([u], list(u.sub_vars)), "[w]": ([w], list(w.sub_vars)),
                  "['u'] by name": (["u"], list(u.sub_vars)), "[atomic u on the second grid]": ([u.sub_vars[1]], [u.sub_vars[1]]),
                  "[] (nothing)": ([], [])}
    real = pp.shift_solution_values
    for wrapper, location in (("shift_time_step_values", pp.TIME_STEP_SOLUTIONS), ("shift_iterate_values", pp.ITERATE_SOLUTIONS)):
        for (sel_name, (sel, expected)), depth in it.product(selections.items(), (None, 3)):
            calls = []
            pp.shift_solution_values = lambda name, data, loc, max_index=None: calls.append((name, id(data), loc, max_index))
            try:
                getattr(es, wrapper)(sel, max_index=depth) if sel is not None else getattr(es, wrapper)(max_index=depth)
            finally:
                pp.shift_solution_values = real
            want = sorted((atoms[v][0], atoms[v][1], location, depth) for v in expected)
            ok = sorted(calls, key=lambda c: (c[0], c[1])) == sorted(want, key=lambda c: (c[0], c[1]))
            name = f"EquationSystem.{wrapper}(variables={sel_name}, max_index={depth}): shift_solution_values is called exactly once per selected atomic variable, on its own data, with this location and max_index"
            rep.obligation(name, "discharged" if ok else "refuted", "Ps", "python-modular-call-check")
            if not ok:
                rep.violation(name, wrapper, inputs={"wrapper": wrapper, "variables": sel_name, "max_index": depth}, detail=f"calls {calls} expected {want}", confirmed=True)


def window_lemma(rep):
    """Over the contracts: if shift(depth d) and then set(index 0, v) are applied to a window state that satisfies
    W(T):  forall i < min(d, T): M(i) = Hist(T-1-i)   (Hist(t) = value current at index 0 after step t),
    the new state satisfies W(T+1) with Hist(T) = v."""
    import time

    t0 = time.time()
    M0 = z3.Function("M0", z3.IntSort(), z3.IntSort(), z3.RealSort())
    M1 = z3.Function("M1", z3.IntSort(), z3.IntSort(), z3.RealSort())
    M2 = z3.Function("M2", z3.IntSort(), z3.IntSort(), z3.RealSort())
    Hist = z3.Function("Hist", z3.IntSort(), z3.IntSort(), z3.RealSort())
    v = z3.Function("v", z3.IntSort(), z3.RealSort())
    s, d, T, k, j, i = z3.Ints("s d T k j i")
    a = z3.If(d > s, s, d - 1)
    pre = [d >= 1, T >= 1, s == z3.If(T < d, T, d),
           z3.ForAll([i, j], z3.Implies(z3.And(i >= 0, i < s), M0(i, j) == Hist(T - 1 - i, j)))]
    shift_post = [z3.ForAll([k, j], z3.Implies(z3.And(k >= 1, k <= a), M1(k, j) == M0(k - 1, j))),
                  z3.ForAll([j], M1(0, j) == M0(0, j)),
                  z3.ForAll([k, j], z3.Implies(k > a, M1(k, j) == M0(k, j)))]
    s1 = z3.If(z3.And(a == s, s >= 1), s + 1, s)
    set_post = [z3.ForAll([j], M2(0, j) == v(j)), z3.ForAll([k, j], z3.Implies(k != 0, M2(k, j) == M1(k, j)))]
    hist_new = [z3.ForAll([j], Hist(T, j) == v(j))]
    ii, jj = z3.Ints("ii jj")
    s2 = s1
    goal = z3.And(s2 == z3.If(T + 1 < d, T + 1, d),
                  z3.Implies(z3.And(ii >= 0, ii < s2), M2(ii, jj) == Hist(T - ii, jj)))
    st, model, backend = sym.discharge(pre + shift_post + set_post + hist_new, goal, 20000)
    rep.obligation("window lemma: shift(depth d) then set(index 0) turns the window of T values into the window of T+1 values "
                   "(slot i = value written i steps ago, for every i below the depth)", st, "P", backend, time.time() - t0)
    if st == "refuted":
        rep.violation("window lemma", "lemma over contracts", inputs=None, detail=str(model)[:800], confirmed=False, solver_output=str(model))
    # canary: the lemma must fail if shift did not move slot 1
    bad_shift = [z3.ForAll([k, j], M1(k, j) == M0(k, j))]
    st2, _, _ = sym.discharge(pre + bad_shift + set_post + hist_new + [T >= 2, d >= 2], goal, 3000)
    rep.canary("window lemma CANARY: holds for a shift that moves nothing", st2 != "discharged")


# ----------------------------------------------------------------------------- tier B


def _sweep(rep, pp):
    quick = rep.tier == "quick"
    L = 4 if quick else 6
    with rep.sweep("histories of set/shift/get vs a list model",
                   rule="all operation sequences of length <= L over {set index0 overwrite, set index0 additive, set index1 overwrite, shift(depth), get(i)} for "
                        "depth in {None,1,2,3,4}, on both locations, through pp.set/get/shift_solution_values and through the EquationSystem wrappers "
                        "(set/get_variable_values, shift_time_step_values, shift_iterate_values); model = Python list of arrays; every array passed in is "
                        "mutated afterwards and every array handed out is mutated to detect aliasing; nontrivial = contains a shift after a write; "
                        "distinct by (family, location, depth, sequence)", bound=f"L = {L}", exhaustive=True) as sw:
        ops = ["w0", "a0", "w1", "sh", "g0", "g1"]
        g = pp.CartGrid([2, 1])
        g.compute_geometry()
        for family in ("dict", "eqsys"):
            for loc in ("time", "iter"):
                for depth in (None, 1, 2, 3, 4):
                    for n in range(1, L + 1):
                        if family == "eqsys" and n > L - 1:
                            continue
                        for seq in itertools.product(ops, repeat=n):
                            if seq[0] not in ("w0", "a0") or ("sh" not in seq and n > 2):
                                continue
                            bad = _run_history(pp, g, family, loc, depth, seq)
                            sw.case((family, loc, depth, seq), nontrivial=("sh" in seq), sample={"family": family, "location": loc, "depth": depth, "ops": list(seq)})
                            if bad:
                                rep.violation("history: " + bad[0], bad[2], inputs={"family": family, "location": loc, "depth": depth, "ops": list(seq)}, detail=bad[1])


def _run_history(pp, g, family, loc, depth, seq):
    kw = (lambda i: {"time_step_index": i}) if loc == "time" else (lambda i: {"iterate_index": i})
    location = pp.TIME_STEP_SOLUTIONS if loc == "time" else pp.ITERATE_SOLUTIONS
    if family == "dict":
        data = {}
        N = 3
        setv = lambda v, i, add: pp.set_solution_values("u", v, data, additive=add, **kw(i))
        getv = lambda i: pp.get_solution_values("u", data, **kw(i))
        shift = lambda: pp.shift_solution_values("u", data, location, depth)
    else:
        mdg = pp.MixedDimensionalGrid()
        mdg.add_subdomains(g)
        es = pp.ad.EquationSystem(mdg)
        es.create_variables("u", subdomains=[g])
        es.create_variables("w", subdomains=[g])
        N = es.num_dofs()
        setv = lambda v, i, add: es.set_variable_values(v, additive=add, **kw(i))
        getv = lambda i: es.get_variable_values(**kw(i))
        shift = (lambda: es.shift_time_step_values(max_index=depth)) if loc == "time" else (lambda: es.shift_iterate_values(max_index=depth))
    model = []  # list of arrays, index = slot
    handed_out = []  # (array returned by get, expected frozen copy)
    c = 0.0
    for step, op in enumerate(seq):
        c += 1.0
        try:
            if op in ("w0", "w1", "a0"):
                i = 1 if op == "w1" else 0
                add = op == "a0"
                if i > len(model):
                    continue  # requires: contiguous keys
                v = np.arange(N, dtype=float) + 10 * c
                try:
                    getv(i)
                    empty = False
                except KeyError:
                    empty = True
                try:
                    setv(v, i, add)
                    raised = False
                except ValueError:
                    raised = True
                if add and empty:
                    if not raised:
                        return ("additive write to an empty slot is rejected", f"step {step} {op}: no ValueError", "additive on empty slot accepted")
                    continue
                if add and i >= len(model):
                    return ("slot i holds the i-th most recent value", f"step {step}: slot {i} is filled although nothing was written", "phantom slot")
                if raised:
                    return ("writes to admissible slots are accepted", f"step {step} {op}: unexpected ValueError", "write rejected")
                if add:
                    model[i] = model[i] + v
                elif i == len(model):
                    model.append(v.copy())
                else:
                    model[i] = v.copy()
                v += 1000.0  # aliasing probe: the stored value must not follow the caller's array
            elif op == "sh":
                shift()
                s = len(model)
                if s:
                    a = s if (depth is None or depth > s) else depth - 1
                    new = list(model)
                    for k in range(a, 0, -1):
                        if k == len(new):
                            new.append(model[k - 1].copy())
                        else:
                            new[k] = model[k - 1].copy()
                    model = new
            else:
                i = int(op[1])
                try:
                    r = getv(i)
                except KeyError:
                    if i < len(model):
                        return ("get returns the stored value", f"step {step}: KeyError for filled slot {i}", "get KeyError")
                    continue
                if i >= len(model) or (depth is not None and i >= max(depth, 1)):
                    continue  # at or beyond the depth / never written through this history: the statement is silent
                if not np.array_equal(r, model[i]):
                    return ("slot i holds the i-th most recent value", f"step {step}: get({i}) = {r.tolist()} expected {model[i].tolist()}", f"wrong value in slot {i}")
                handed_out.append((r, r.copy()))
                r_probe = getv(i)
                r_probe += 7777.0  # writing into a returned array must not change the store
        except Exception as e:  # noqa
            return ("operations on admissible histories do not raise", f"step {step} {op}: {type(e).__name__}: {e}", f"raises {type(e).__name__}")
        # full view check after every operation
        for i, exp in enumerate(model):
            if depth is not None and i >= max(depth, 1):
                continue  # only indices below the depth are constrained by the statement
            try:
                got = getv(i)
            except Exception as e:  # noqa
                return ("slot i holds the i-th most recent value", f"after step {step} {op}: slot {i} unreadable ({e})", f"slot {i} missing")
            if not np.array_equal(got, exp):
                return ("slot i holds the i-th most recent value", f"after step {step} {op}: slot {i} = {got.tolist()} expected {exp.tolist()}", f"wrong value in slot {i}")
        for r, frozen in handed_out:
            if not np.array_equal(r, frozen):
                return ("reads return copies that later writes do not alter", f"after step {step} {op}: an array returned earlier changed", "returned array altered")
    return None


def replay(data):
    import porepy as pp

    inp = data.get("inputs") or {}
    if "ops" in inp:
        g = pp.CartGrid([2, 1])
        g.compute_geometry()
        bad = _run_history(pp, g, inp["family"], inp["location"], inp["depth"], tuple(inp["ops"]))
        print("history replay:", bad)
        return bad is not None
    return False


def run(rep):
    import porepy as pp
    from porepy.numerics.ad import ad_utils

    rep.under_contract("pp.shift_solution_values", "pp.set_solution_values", "pp.get_solution_values", "ad_utils._validate_indices",
                       "EquationSystem.shift_time_step_values (tier B)", "EquationSystem.shift_iterate_values (tier B)",
                       "EquationSystem.set_variable_values / get_variable_values (tier B)")
    rep.assume("requires: slot keys contiguous 0..s-1, writes at index <= s; arrays of one location share one length")
    refuted = []
    with shims.shadow_builtins([ad_utils]), shims.numpy_shims():
        for loc in ("TIME_STEP_SOLUTIONS", "ITERATE_SOLUTIONS"):
            for dk in ("none", "int"):
                rf, _ = run_case(rep, f"shift_solution_values[{loc}, depth={dk}]", case_shift(pp, dk, loc))
                refuted += rf
            for add in (False, True):
                rf, _ = run_case(rep, f"set_solution_values[{loc}, additive={add}]", case_set(pp, add, loc), allowed_exceptions=(ValueError,))
                refuted += rf
            rf, _ = run_case(rep, f"get_solution_values[{loc}]", case_get(pp, loc), allowed_exceptions=(KeyError,))
            refuted += rf
        rf, _ = run_case(rep, "shift_solution_values guards", case_shift_guards(pp))
        refuted += rf
    window_lemma(rep)
    wrapper_contract(rep, pp)
    rep.trust(*sorted(shims.USED_MODELS))
    rep.trust("engine/cutpoint.py AST rewriting of the single for-loop of shift_solution_values (source re-read every run)")
    for name, ctx, r in refuted:
        rep.violation(name, name.split(":")[0], inputs=None, detail=f"z3 counter-model: {r['model']}"[:1500], confirmed=False, solver_output=str(r["model"]))
    _sweep(rep, pp)
