"""C16 -- TPSA is invariant under rigid translations.

Tier B (bounded run-time contract sweep; deduction not applicable, DESIGN section 8/C16).

Contract on the real ``pp.Tpsa(kw).discretize(sd, data)`` followed by the assembly documented in the class docstring
of ``pp.Tpsa`` (``Tpsa.assemble_matrix_rhs`` itself raises NotImplementedError by design):

    face_discr = [[stress, stress_rotation, stress_total_pressure],
                  [rotation_displacement, rotation_rotation, 0],
                  [solid_mass_displacement, 0, solid_mass_total_pressure]]
    rhs_matrix = [bound_stress; bound_rotation_displacement; bound_mass_displacement]
    div = blockdiag(div_nd, div_rot, div_1);   accum = blockdiag(0, |cell|/mu, |cell|/lambda)
    A = div face_discr - accum,   b = -div rhs_matrix u_b,   x = A^{-1} b = [u, r, p]

requires  sd a valid 2-D/3-D grid (Cartesian, structured simplex, node-perturbed / affine image), constant Lame
          parameters (mu, lambda > 0), every displacement component of every boundary face either Dirichlet or Neumann (a face may
          be entirely Dirichlet, entirely Neumann, or component-wise mixed = 'rolling': Dirichlet in some coordinate directions,
          Neumann in the others, set through BoundaryConditionVectorial.is_dir / is_neu as its docstring prescribes), >= 1 Dirichlet
          component; boundary data consistent with the translation t ("Dirichlet or mixed boundary data consistent with the
          translation" in the statement's quantifier): u_b,i = t_i on every Dirichlet component, zero traction on every Neumann
          component (a translation is strain free, so its traction vanishes in every direction on every face).
ensures   (1)  stress (1 (x) t) + bound_stress u_b = 0 on every face;
          (2a) the state [u = t in every cell, r = 0, p = 0] satisfies A x = b;
          (2b) requires additionally that A is regular (cond < 1e8): the solve returns exactly that state.
               Observation on the unchanged tree: with a *single* Dirichlet face the two-point system is singular (the
               discrete rotation about that face centre is a null mode: 1 zero singular value in 2-D, 3 in 3-D), so "the
               solution" is not defined there; such cases are outside the hypothesis of (2b) (they still must pass (1), (2a))
               and are counted in the evidence (cases_with_singular_system_solve_clause_not_applicable).
          All clauses are linear in t: the basis {e_x, e_y(, e_z)} covers all translations.

Detection power (scratch copy, one mutant at a time, POREPY_SRC=<copy>): see MUTANTS below.
"""
from __future__ import annotations

META = {
    "level": "exploration",
    "engine": "sweep",
    "technique": "run-time contract sweep (bounded stand-in for deduction): postconditions of the real Tpsa.discretize and of the system "
                 "assembled as documented in the Tpsa class docstring, on enumerated grids x Lame parameters x Dirichlet/mixed layouts "
                 "(face-wise Dirichlet/Neumann mixes and component-wise mixed 'rolling' faces); translation basis covers all "
                 "translations by linearity",
    "text": "Bounded assurance only on the enumerated family. Deduction not applicable. Mixed boundary data covers face-wise "
            "Dirichlet/Neumann mixes and component-wise mixes in the coordinate basis (Dirichlet in some directions, zero-traction "
            "Neumann in the others on one face); in the quick tier each component-wise layout class runs with one Lame pair per grid "
            "only. Robin conditions, a non-default BoundaryConditionVectorial.basis, Cosserat parameter and heterogeneous Lame "
            "parameters are not covered (outside the statement).",
    "note": "the assembly recipe (block structure, signs, accumulation |cell|/mu, |cell|/lambda) is taken from the Tpsa class docstring / "
            "the TPSA paper and is part of the trusted specification; dense numpy solve",
}

MUTANTS = """
  M1 tpsa.py _vector_laplace_matrices: ``trm_bnd[dir_faces] = trm_nd[dir_faces]`` -> ``0.5 * trm_nd[dir_faces]``
       (Dirichlet boundary coefficient no longer matches the cell coefficient)           caught by (1) and (2a)
  M2 tpsa.py discretize: bound_rotation_displacement ``- filters.dir_pass_nd`` -> ``+ filters.dir_pass_nd``   caught by (2a) (angular momentum rows)
  M3 tpsa.py discretize: bound_mass_displacement ``+ filters.dir_pass_nd`` dropped                              caught by (2a) (solid mass rows)
  M4 tpsa.py discretize: ``rotation_displacement = -Rn_bar @ c2f`` -> ``+Rn_bar @ c2f``                          caught by (2a)
  M5 tpsa.py _create_cell_to_face_maps: rows of c2f zeroed per face (any component Dirichlet -> all nd rows) instead of per component
       (Neumann components of a rolling face lose their cell contribution)   caught by (2a) on comp-one / comp-roll / comp-mix only
  M6 tpsa.py _vector_laplace_matrices: ``trm_bnd[dir_faces] = trm_nd[dir_faces]`` -> only on faces with *all* components Dirichlet
       (Dirichlet component of a rolling face has no bound_stress coefficient)  caught by (1) and (2a) on comp-one / comp-roll / comp-mix only
"""

import warnings

import numpy as np

KW = "mechanics"
O_STRESS = "Tpsa.discretize: uniform displacement with matching boundary data gives zero stress on every face"
O_SOLVE = "Tpsa.discretize: solved system returns the translation with zero rotation and zero solid pressure"
O_RUN = "Tpsa.discretize: terminates without exception on an admissible input"


def build_grid(pp, spec):
    ctor = {"cart": pp.CartGrid, "tri": pp.StructuredTriangleGrid, "tet": pp.StructuredTetrahedralGrid}[spec["kind"]]
    g = ctor(np.array(spec["n"]), np.array(spec["phys"], dtype=float))
    if spec.get("nodes") is not None:
        g.nodes = np.array(spec["nodes"], dtype=float)
    with warnings.catch_warnings():
        warnings.simplefilter("ignore")
        g.compute_geometry()
    return g


def cells_valid(g):
    if not np.all(g.cell_volumes > 0) or not np.all(g.face_areas > 0):
        return False
    cf = g.cell_faces.tocoo()
    d = g.face_centers[:, cf.row] - g.cell_centers[:, cf.col]
    return bool(np.all(np.sum(d * g.face_normals[:, cf.row], axis=0) * cf.data > 0))


def perturbed(pp, rng, spec, rate):
    g0 = build_grid(pp, spec)
    h = min(p / k for p, k in zip(spec["phys"], spec["n"]))
    for _ in range(20):
        nodes = g0.nodes.copy()
        for i in range(g0.dim):
            nodes[i] += np.array([rng.uniform(-rate, rate) * h for _ in range(g0.num_nodes)])
        s = dict(spec, nodes=np.round(nodes, 12).tolist(), pert=rate)
        if cells_valid(build_grid(pp, s)):
            return s
    return None


def sheared(pp, spec, A):
    g0 = build_grid(pp, spec)
    return dict(spec, nodes=np.round(np.array(A, dtype=float) @ g0.nodes, 12).tolist(), pert="affine")


def grid_specs(pp, rng, quick):
    base = [("cart", [2, 2], [2.0, 2.0]), ("cart", [3, 2], [1.5, 1.0]), ("cart", [1, 1], [1.0, 2.0]), ("tri", [2, 2], [1.0, 1.0]),
            ("tri", [3, 2], [3.0, 1.0]), ("cart", [2, 2, 2], [1.0, 2.0, 1.5]), ("tet", [1, 1, 1], [1.0, 1.0, 1.0]),
            ("tet", [2, 1, 1], [2.0, 1.0, 1.5])]
    if not quick:
        base += [("cart", [3, 3], [3.0, 1.5]), ("cart", [5, 4], [1.0, 1.0]), ("tri", [1, 1], [1.0, 1.0]), ("tri", [4, 3], [1.0, 2.0]),
                 ("cart", [3, 2, 2], [1.0, 1.0, 1.0]), ("cart", [1, 1, 1], [1.0, 1.0, 1.0]), ("tet", [2, 2, 2], [1.0, 1.0, 1.0])]
    out = []
    for kind, n, phys in base:
        s = {"kind": kind, "n": n, "phys": phys, "nodes": None, "pert": 0}
        out.append(s)
        for rate in ((0.1, 0.2) if quick else (0.05, 0.1, 0.2, 0.25)):
            p = perturbed(pp, rng, s, rate)
            if p is not None:
                out.append(p)
        out.append(sheared(pp, s, [[1, 0.3, 0.1], [0, 1, 0.2], [0.1, 0, 1.2]] if len(n) == 3 else [[1, 0.4, 0], [0.2, 1.1, 0], [0, 0, 1]]))
    return out


LAME = [("mu1-lam1", 1.0, 1.0), ("mu2.5-lam0.3", 2.5, 0.3), ("mu0.7-lam10", 0.7, 10.0)]


def bc_layouts(rng, nb, n_random, nd=None, comp_only=None, n_comp_random=1):
    """Face-wise layouts: a string with one letter (d/n) per boundary face. Component-wise layouts (only when ``nd`` is given):
    a ','-separated string with one nd-letter code per boundary face, letter i = condition of displacement component i;
    ``comp_only=j`` keeps only the j-th (cyclically) of the component-wise layouts (a), (b), (c)."""
    out = [("all-dir", "d" * nb)]
    k = rng.randrange(nb)
    out.append(("one-neu", "d" * k + "n" + "d" * (nb - k - 1)))
    if nb > 1:
        k = rng.randrange(nb)
        out.append(("one-dir", "n" * k + "d" + "n" * (nb - k - 1)))
    for _ in range(n_random):
        s = "".join(rng.choice("dn") for _ in range(nb))
        if "d" not in s:
            k = rng.randrange(nb)
            s = s[:k] + "d" + s[k + 1:]
        out.append(("mix", s))
    if nd is None:
        return out
    # component-wise mixed ('rolling') faces: Dirichlet in some directions and zero-traction Neumann in the others on one face
    proper = ["".join("d" if (m >> i) & 1 else "n" for i in range(nd)) for m in range(1, 2 ** nd - 1)]
    # (a) a single rolling face (seeded face and code), all other boundary faces fully Dirichlet
    codes = ["d" * nd] * nb
    codes[rng.randrange(nb)] = rng.choice(proper)
    comp = [("comp-one", ",".join(codes))]
    # (b) a seeded subset (each face with probability 1/2, >= 1 face) carries the same rolling code: Dirichlet in exactly one
    #     seeded direction k, Neumann in the others; the remaining boundary faces fully Dirichlet
    k = rng.randrange(nd)
    code = "".join("d" if i == k else "n" for i in range(nd))
    sel = [rng.random() < 0.5 for _ in range(nb)]
    sel[rng.randrange(nb)] = True
    comp.append(("comp-roll", ",".join(code if s else "d" * nd for s in sel)))
    # (c) every component of every boundary face seeded independently (fully Dirichlet / fully Neumann faces occur as well);
    #     >= 1 Dirichlet component and >= 1 rolling face enforced
    for _ in range(n_comp_random):
        codes = ["".join(rng.choice("dn") for _ in range(nd)) for _ in range(nb)]
        if not any(c in proper for c in codes):
            codes[rng.randrange(nb)] = rng.choice(proper)
        comp.append(("comp-mix", ",".join(codes)))
    return out + (comp if comp_only is None else [comp[comp_only % len(comp)]])


def parse_layout(layout, nd):
    """-> boolean (nd, nb): component i of boundary face j is Dirichlet (else zero-traction Neumann), and the component-wise flag."""
    if "," in layout:
        codes = layout.split(",")
        comp = True
    else:
        codes = [c * nd for c in layout]
        comp = False
    return np.array([[c[i] == "d" for c in codes] for i in range(nd)], dtype=bool).reshape(nd, len(codes)), comp


def evaluate(pp, spec, mu, lam, layout, info=None):
    info = {} if info is None else info
    import scipy.sparse as sps

    g = build_grid(pp, spec)
    nd, nf, nc = g.dim, g.num_faces, g.num_cells
    bf = g.get_all_boundary_faces()
    is_dir_b, comp = parse_layout(layout, nd)  # (nd, nb)
    if comp:
        # component-wise conditions are set the way the BoundaryConditionVectorial docstring prescribes: through is_dir / is_neu
        bc = pp.BoundaryConditionVectorial(g, bf, ["dir"] * bf.size)
        bc.is_dir[:, bf] = is_dir_b
        bc.is_neu[:, bf] = ~is_dir_b
    else:
        bc = pp.BoundaryConditionVectorial(g, bf, ["dir" if d else "neu" for d in is_dir_b[0]])
    C = pp.FourthOrderTensor(mu * np.ones(nc), lam * np.ones(nc))
    data = {pp.PARAMETERS: {KW: {"fourth_order_tensor": C, "bc": bc}}, pp.DISCRETIZATION_MATRICES: {KW: {}}}
    discr = pp.Tpsa(KW)
    try:
        with warnings.catch_warnings():
            warnings.simplefilter("ignore")
            discr.discretize(g, data)
    except Exception as e:
        return [(O_RUN, f"{type(e).__name__}: {e}")]
    M = data[pp.DISCRETIZATION_MATRICES][KW]
    m = lambda attr: M[getattr(discr, attr)]  # noqa: E731
    rot_dim = 3 if nd == 3 else 1
    n_rot_f, n_rot_c = nf * rot_dim, nc * rot_dim
    try:
        face = sps.bmat([
            [m("stress_displacement_matrix_key"), m("stress_rotation_matrix_key"), m("stress_total_pressure_matrix_key")],
            [m("rotation_displacement_matrix_key"), m("rotation_rotation_matrix_key"), sps.csr_matrix((n_rot_f, nc))],
            [m("mass_displacement_matrix_key"), sps.csr_matrix((nf, n_rot_c)), m("mass_total_pressure_matrix_key")],
        ]).tocsr()
        rhsm = sps.vstack([m("bound_stress_matrix_key"), m("bound_rotation_displacement_matrix_key"),
                           m("bound_mass_displacement_matrix_key")]).tocsr()
    except Exception as e:
        return [(O_RUN, f"documented assembly impossible: {type(e).__name__}: {e}")]
    div = sps.block_diag([g.divergence(dim=nd), g.divergence(dim=rot_dim), g.divergence(dim=1)], format="csr")
    accum = sps.block_diag([sps.csr_matrix((nc * nd, nc * nd)),
                            sps.diags(np.repeat(g.cell_volumes / mu, rot_dim)), sps.diags(g.cell_volumes / lam)], format="csr")
    A = (div @ face - accum).toarray()
    S, BS = m("stress_displacement_matrix_key").toarray(), m("bound_stress_matrix_key").toarray()
    is_dir = np.zeros((nd, nf), dtype=bool)  # per displacement component
    is_dir[:, bf] = is_dir_b
    cf = g.cell_faces.tocoo()
    hmin = np.linalg.norm(g.face_centers[:, cf.row] - g.cell_centers[:, cf.col], axis=0).min()
    sscale = 2 * (mu + lam) * g.face_areas.max() / hmin
    bad = []
    sv = np.linalg.svd(A, compute_uv=False)
    cond = sv[0] / max(sv[-1], 1e-300)
    regular = cond < 1e8
    info["regular"] = bool(regular)
    for i in range(nd):
        t = np.eye(nd)[i]
        ub = np.zeros((nd, nf))
        # boundary data of the translation: t_j on every Dirichlet component, zero traction on every Neumann component
        for j in range(nd):
            ub[j, is_dir[j]] = t[j]
        uc = np.tile(t, nc)
        s = S @ uc + BS @ ub.ravel("F")
        if np.abs(s).max() > 1e-10 * sscale:
            k = int(np.abs(s).argmax())
            f = k // nd
            kind = "interior" if f not in set(bf.tolist()) else (
                "Dirichlet" if is_dir[:, f].all() else ("Neumann" if not is_dir[:, f].any() else
                                                        "rolling " + "".join("d" if d else "n" for d in is_dir[:, f])))
            bad.append((O_STRESS, f"t=e_{i}: face {f} ({kind}) component {k % nd}: stress {s[k]!r} (scale {sscale:.2e})"))
        b = -(div @ (rhsm @ ub.ravel("F")))
        exp = np.concatenate([uc, np.zeros(n_rot_c + nc)])
        # (2a) the translation state solves the assembled system (meaningful also when A is singular)
        res = np.abs(A @ exp - b)
        if res.max() > 1e-10 * max(sscale, np.abs(A).max()):
            k = int(res.argmax())
            what = "momentum" if k < nd * nc else ("angular momentum" if k < nd * nc + n_rot_c else "solid mass")
            bad.append((O_SOLVE, f"t=e_{i}: [t,0,0] does not satisfy the system: residual {res[k]!r} in {what} equation {k}"))
            continue
        # (2b) requires: the system is regular (a single Dirichlet face leaves the discrete rotation about that face free: the
        # two-point system is then singular and 'the solution' is not defined) -> unique solution must be [t,0,0]
        if not regular:
            continue
        x = np.linalg.solve(A, b)
        err = np.abs(x - exp)
        if not np.all(np.isfinite(x)) or err.max() > 1e-12 * cond * 10 + 1e-10:
            k = int(np.nanargmax(err))
            what = "displacement" if k < nd * nc else ("rotation" if k < nd * nc + n_rot_c else "solid pressure")
            bad.append((O_SOLVE, f"t=e_{i}: unknown {k} ({what}) = {x[k]!r}, expected {exp[k]!r} (cond {cond:.1e})"))
    return bad


def _signature(spec, lname):
    pert = "regular" if spec["pert"] == 0 else ("affine" if spec["pert"] == "affine" else "perturbed")
    return f"{len(spec['n'])}d {spec['kind']} {pert} bc={lname}"


def run(rep):
    import os

    os.environ.setdefault("NUMBA_NUM_THREADS", "4")
    import porepy as pp

    rep.under_contract("pp.Tpsa.discretize")
    rep.trust("assembly recipe of the Tpsa class docstring (block layout, A = div*face - accum, b = -div*rhs*u_b)",
              "grid geometry / divergence operators (C19/C21)", "numpy.linalg.solve")
    rep.assume("Neumann data for a translation is zero traction (per component on component-wise mixed faces); at least one Dirichlet "
               "component; the solve clause additionally requires a regular system (cond < 1e8)")
    quick = rep.tier == "quick"
    rng = rep.rng
    with rep.sweep(
        "tpsa translation invariance",
        rule="grids {Cartesian, structured triangle/tetrahedral} x {unperturbed, seeded perturbation of all nodes at several rates, affine "
             "image} x Lame {(1,1),(2.5,0.3),(0.7,10)} x layouts {all Dirichlet, one Neumann face, one Dirichlet face, seeded per-face mixes "
             "with >=1 Dirichlet, component-wise mixed: one seeded rolling face (rest Dirichlet) / a seeded subset of faces Dirichlet in one "
             "seeded direction only (rest Dirichlet) / every component of every boundary face seeded independently}; per case the "
             "translation basis e_x,e_y(,e_z) = all translations by linearity; distinct by (grid, Lame, layout); non-trivial = "
             "perturbed/simplex grid or a Neumann face / component present",
        bound="2-D <= 5x4 cells, 3-D <= 3x2x2 hexahedra / 48 tetrahedra; perturbation <= 0.25 h; " + ("2" if quick else "5") + " random "
              "face-wise layouts; component-wise: " + ("per grid each of the 3 layout classes once, each with a different Lame pair"
                                                       if quick else "single rolling face, subset and 4 random layouts for every Lame pair"),
        exhaustive=False,
    ) as sw:
        n_singular = n_comp = n_comp_regular = 0
        for ig, spec in enumerate(grid_specs(pp, rng, quick)):
            g = build_grid(pp, spec)
            if not cells_valid(g):
                sw.skip()
                continue
            nb = g.get_all_boundary_faces().size
            for il, (tname, mu, lam) in enumerate(LAME):
                # quick: per grid each of the three component-wise layout classes once, each with a different Lame pair (rotating
                # with the grid index); thorough: all component-wise layouts for every Lame pair
                for lname, layout in bc_layouts(rng, nb, 2 if quick else 5, nd=g.dim, comp_only=(il + ig) if quick else None,
                                                n_comp_random=1 if quick else 4):
                    key = (spec["kind"], tuple(spec["n"]), str(spec["pert"]), hash(str(spec["nodes"])), tname, layout)
                    trivial = spec["kind"] == "cart" and spec["pert"] == 0 and lname == "all-dir"
                    info = {}
                    res = evaluate(pp, spec, mu, lam, layout, info)
                    if not info.get("regular", True):
                        n_singular += 1
                    if lname.startswith("comp-"):
                        n_comp += 1
                        n_comp_regular += bool(info.get("regular", False))
                    sw.case(key, nontrivial=not trivial,
                            sample={"grid": {k: v for k, v in spec.items() if k != "nodes"}, "lame": [mu, lam], "layout": layout,
                                    "system_regular": info.get("regular")})
                    for ob, detail in res:
                        rep.violation(ob, _signature(spec, lname), inputs={"grid": spec, "mu": mu, "lam": lam, "layout": layout},
                                      detail=detail, confirmed=True)
        rep.extra["cases_with_singular_system_solve_clause_not_applicable"] = n_singular
        rep.extra["cases_with_component_wise_mixed_faces"] = n_comp
        rep.extra["cases_with_component_wise_mixed_faces_and_regular_system"] = n_comp_regular


def replay(data):
    import porepy as pp

    inp = data["inputs"]
    bad = evaluate(pp, inp["grid"], inp["mu"], inp["lam"], inp["layout"])
    for b in bad:
        print("replay:", b)
    return bool(bad)
